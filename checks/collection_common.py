"""Shared engine of the Collection checks (C01, C02, C04, later C05/C06):

(X) TLC explores spec/MC_Collection.tla exhaustively with small constants.
(T) harness/drive_collection runs workloads on the real crate over a TraceStore, with a power
    loss after every backend mutation (and nested during recovery), and TLC validates every
    recorded trace against spec/CollectionTrace.tla, evaluating all invariants at every step.
"""
import json
import os
import random
import re

import vlib

GROUPS = {
    # name: (init_idx, wanted, rm)
    "crud": (["k", "t", "v"], ["k", "t", "v"], []),
    "idxlife": (["k", "b"], ["k", "a"], ["b"]),
    "backfill": (["k"], ["k", "t", "v", "a"], []),
    "unique": (["k", "a", "t", "v"], ["k", "a", "t", "v"], []),
    # allocation-watermark boundary: the last acknowledged add sits exactly on the durable watermark
    "wm": (["a", "t"], ["a", "t"], []),
    # a multi-field (virtual) B-tree index c = (a, b) next to the unique key and a member field's own index;
    # the sequential driver sends PARTIAL updates (only the fields that change), so updates touch subsets of c
    # and g, an ARRAY-valued field with one posting per element (key expansion, batch update on overlap)
    # and h, a UNIQUE array-valued field (values 1/3 and 1/5 collide on one element: partially conflicting batches)
    "multi": (["k", "c", "a", "g", "h"], ["k", "c", "a", "g", "h", "t"], []),
}
NVALS = 6
# values whose key k collides: (1,3) share k=1, (2,6) share k=2
KEY = {1: 1, 2: 2, 3: 1, 4: None, 5: 3, 6: 2}


class Model:
    """Tiny reference used only to generate meaningful operations (never as an oracle)."""

    def __init__(self):
        self.docs = {}
        self.next_id = 1

    def key_free(self, v, besides=None):
        k = KEY[v]
        if k is None:
            return True
        return all(KEY[x] != k for i, x in self.docs.items() if i != besides)


def gen_ops(rng, n_ops, kinds, reject_bias=0.25, max_docs=5):
    m = Model()
    ops = []
    while len(ops) < n_ops:
        kind = rng.choice(kinds)
        if kind == "add":
            if len(m.docs) >= max_docs or m.next_id > 9:
                continue
            want_reject = rng.random() < reject_bias
            cands = [v for v in range(1, NVALS + 1) if m.key_free(v) != want_reject]
            if not cands:
                cands = list(range(1, NVALS + 1))
            v = rng.choice(cands)
            ops.append({"op": "add", "val": v})
            if m.key_free(v):
                m.docs[m.next_id] = v
            m.next_id += 1
        elif kind == "update":
            if not m.docs or rng.random() < 0.1:
                ops.append({"op": "update", "id": m.next_id + 1, "val": rng.randint(1, NVALS)})
                continue
            i = rng.choice(sorted(m.docs))
            want_reject = rng.random() < reject_bias
            cands = [v for v in range(1, NVALS + 1) if v != m.docs[i] and m.key_free(v, besides=i) != want_reject]
            if not cands:
                cands = [v for v in range(1, NVALS + 1) if v != m.docs[i]]
            v = rng.choice(cands)
            ops.append({"op": "update", "id": i, "val": v})
            if m.key_free(v, besides=i):
                m.docs[i] = v
        elif kind == "remove":
            if not m.docs or rng.random() < 0.1:
                ops.append({"op": "remove", "id": m.next_id + 2})
                continue
            i = rng.choice(sorted(m.docs))
            ops.append({"op": "remove", "id": i})
            del m.docs[i]
        elif kind == "flush":
            ops.append({"op": "flush"})
        elif kind == "ext":
            ops.append({"op": "ext", "x": rng.randint(1, 5)})
        elif kind == "compact":
            ops.append({"op": "compact", "idx": rng.choice(["k", "t"])})
        elif kind == "reopen":
            ops.append({"op": "reopen"})
    return ops


def fixed_workloads(group):
    """Hand-written workloads that make sure every action of the spec is exercised."""
    if group == "crud":
        return [[{"op": "add", "val": 1}, {"op": "add", "val": 2}, {"op": "add", "val": 3}, {"op": "flush"},
                 {"op": "update", "id": 1, "val": 5}, {"op": "remove", "id": 2}, {"op": "ext", "x": 3},
                 {"op": "add", "val": 6}, {"op": "flush"}, {"op": "update", "id": 1, "val": 6},
                 {"op": "compact", "idx": "k"}, {"op": "compact", "idx": "t"}, {"op": "flush"}, {"op": "reopen"},
                 {"op": "add", "val": 4}, {"op": "remove", "id": 9}, {"op": "update", "id": 9, "val": 1}],
                # value handed over between documents inside one checkpoint window
                [{"op": "add", "val": 1}, {"op": "add", "val": 2}, {"op": "flush"}, {"op": "remove", "id": 1},
                 {"op": "add", "val": 3}, {"op": "update", "id": 2, "val": 5}, {"op": "add", "val": 6}]]
    if group == "idxlife":
        return [[{"op": "add", "val": 1}, {"op": "add", "val": 2}, {"op": "flush"}, {"op": "reopen"},
                 {"op": "add", "val": 5}, {"op": "flush"}]]
    if group == "backfill":
        return [[{"op": "add", "val": 1}, {"op": "add", "val": 4}, {"op": "add", "val": 3}, {"op": "flush"},
                 {"op": "add", "val": 2}, {"op": "reopen"}, {"op": "update", "id": 2, "val": 5}, {"op": "flush"}]]
    if group == "wm":
        # 65 adds (watermark published as 65 by the first add, 130 by the 66th), crashes around the boundary
        return [[{"op": "add", "val": 1 + (i % 2)} for i in range(n)] + tail
                for (n, tail) in ((65, []), (64, [{"op": "flush"}, {"op": "add", "val": 2}]),
                                  (66, [{"op": "remove", "id": 65}]))]
    if group == "unique":
        return [[{"op": "add", "val": 1}, {"op": "add", "val": 3}, {"op": "add", "val": 2}, {"op": "update", "id": 3, "val": 3},
                 {"op": "flush"}, {"op": "remove", "id": 1}, {"op": "add", "val": 3}, {"op": "update", "id": 3, "val": 1},
                 {"op": "update", "id": 4, "val": 6}, {"op": "add", "val": 6}, {"op": "flush"}]]
    if group == "multi":
        # updates that change only ONE member field of c = (a, b): 1->2 and 2->5 keep a = 7, 3->6 keeps a = null;
        # 1->4 changes both; then removal, flush, clean reopen (backfill of t), update after the reopen
        return [[{"op": "add", "val": 1}, {"op": "add", "val": 3}, {"op": "update", "id": 1, "val": 2},
                 {"op": "update", "id": 2, "val": 6}, {"op": "flush"}, {"op": "update", "id": 1, "val": 5},
                 {"op": "add", "val": 1}, {"op": "update", "id": 3, "val": 4}, {"op": "remove", "id": 2},
                 {"op": "flush"}, {"op": "reopen"}, {"op": "update", "id": 1, "val": 2}, {"op": "flush"}],
                # the UNIQUE array field h: id1 = value 3 (h = [2,4]), id2 = value 5 (h = [1]).  update id1 -> value 1
                # (h = [1,2]) is refused on key 1 AFTER key 4 would have been dropped; update id2 -> value 1 is refused
                # on key 2 with nothing to drop; a refused update leaves every posting where it was - then an add
                # that would fit only if a posting had leaked (value 4 has h = [], value 2 has h = [3])
                [{"op": "add", "val": 3}, {"op": "add", "val": 5}, {"op": "update", "id": 1, "val": 1},
                 {"op": "update", "id": 2, "val": 1}, {"op": "add", "val": 4}, {"op": "update", "id": 3, "val": 3},
                 {"op": "flush"}, {"op": "update", "id": 1, "val": 1}, {"op": "add", "val": 2}, {"op": "remove", "id": 2},
                 {"op": "update", "id": 1, "val": 1}, {"op": "flush"}, {"op": "reopen"}, {"op": "update", "id": 4, "val": 3}]]
    return []


FAULT_OPS = ("add", "update", "remove", "flush", "ext")


def make_workloads(group, n_random, n_ops, kinds, seed, reject_bias=0.25):
    init_idx, wanted, rm = GROUPS[group]
    rng = random.Random(seed * 7919 + sum(map(ord, group)))
    ws = []
    for ops in fixed_workloads(group):
        w = {"init_idx": init_idx, "wanted": wanted, "rm": rm, "ops": ops}
        if group == "wm":
            w["max_id"] = 70
            w["crash_last"] = 6
        ws.append(w)
    for _ in range(n_random):
        ws.append({"init_idx": init_idx, "wanted": wanted, "rm": rm,
                   "ops": gen_ops(rng, n_ops, kinds, reject_bias)})
    return ws


INV_RE = re.compile(r"Error: Invariant (\w+) is violated")
L_RE = re.compile(r"^/\\ l = (\d+)", re.M)
REJ_RE = re.compile(r'<<"TRACE_REJECTED", (\d+), "(.*)">>')


def _split_traces(path):
    """Returns list of (start_line_1based, n_lines, tag)."""
    traces = []
    with open(path) as f:
        for n, line in enumerate(f, 1):
            if line.startswith('{"e":"reset"'):
                traces.append([n, 0, json.loads(line).get("tag")])
            if traces:
                traces[-1][1] += 1
    return traces


def validate_file(trace_file, wd, label, cfg="CollectionTrace.cfg", module="CollectionTrace", max_failures=8,
                  timeout=1200):
    """Validate a multi-trace file; isolate failing traces and continue with the rest.
    Returns dict(states, traces, failures=[{tag, reason, line, event, excerpt}])."""
    failures = []
    total_states = 0
    current = trace_file
    n_traces = len(_split_traces(trace_file))
    for attempt in range(max_failures + 1):
        res = vlib.validate_traces(module, cfg, current, wd, timeout=timeout, out_name=f"{label}-{attempt}.out",
                                   heap="6g")
        total_states += res["states"]
        with open(res["out"], errors="replace") as f:
            text = f.read()
        os.remove(res["out"])
        if res["rc"] == 0 and "No error has been found" in text:
            break
        inv = INV_RE.search(text)
        rej = REJ_RE.search(text)
        if inv:
            ls = L_RE.findall(text)
            if not ls:
                raise vlib.ToolError("invariant violated but no trace position found")
            bad_line = int(ls[-1]) - 1
            reason = "invariant " + inv.group(1)
        elif rej:
            bad_line = int(rej.group(1))
            reason = "no action of the specification explains this event"
        else:
            tail = "\n".join(text.splitlines()[-30:])
            print(tail[:3000])
            raise vlib.ToolError(f"trace validation failed without a verdict ({label})")
        traces = _split_traces(current)
        hit = None
        for t in traces:
            if t[0] <= bad_line < t[0] + t[1]:
                hit = t
        if hit is None:
            raise vlib.ToolError(f"cannot locate failing line {bad_line} in {current}")
        with open(current) as f:
            lines = f.readlines()
        tr_lines = lines[hit[0] - 1: hit[0] - 1 + hit[1]]
        rel = bad_line - hit[0]
        failures.append({
            "tag": hit[2], "reason": reason, "line_in_trace": rel + 1,
            "event": json.loads(lines[bad_line - 1]),
            "trace": [json.loads(x) for x in tr_lines],
        })
        if attempt == max_failures:
            break
        # drop the failing trace and go on with the rest (the header of the file must stay a reset+init pair)
        rest = lines[:hit[0] - 1] + lines[hit[0] - 1 + hit[1]:]
        if not rest:
            break
        current = os.path.join(wd, f"{label}-rest{attempt}.ndjson")
        with open(current, "w") as f:
            f.writelines(rest)
    return {"states": total_states, "traces": n_traces, "failures": failures}


def drive_and_validate(group, workloads, mode, wd, label, cfg="CollectionTrace.cfg", driver="drive_collection",
                       module="CollectionTrace"):
    wpath = os.path.join(wd, f"{label}-w.json")
    tpath = os.path.join(wd, f"{label}-t.ndjson")
    spath = os.path.join(wd, f"{label}-s.json")
    with open(wpath, "w") as f:
        json.dump(workloads, f)
    args = [wpath, tpath, spath] + ([mode] if driver == "drive_collection" else [])
    rc, text = vlib.run_bin(driver, args, timeout=2400)
    if rc != 0:
        print(text[-3000:])
        raise vlib.ToolError(f"{driver} failed (panic in the harness or in the code under test)")
    with open(spath) as f:
        stats = json.load(f)
    res = validate_file(tpath, wd, label, cfg=cfg, module=module)
    stats.update(states=res["states"], failures=res["failures"], group=group)
    sample = None
    with open(tpath) as f:
        head = [next(f) for _ in range(14)]
        sample = [json.loads(x) for x in head[2:]]
    stats["sample"] = sample
    os.remove(tpath)
    return stats


def run_mc(cfg, wd, workers=12, timeout=1500, label=None):
    res = vlib.run_tlc("MC_Collection", cfg, wd, workers=workers, timeout=timeout, heap="12g",
                       out_name=(label or cfg) + ".out", allow_violation=True)
    out = {"cfg": cfg, "states": res["states"], "transitions": res["generated"], "wall_s": round(res["wall"], 1),
           "violated": None}
    if res["violated"]:
        with open(res["out"], errors="replace") as f:
            text = f.read()
        m = INV_RE.search(text)
        out["violated"] = m.group(1) if m else "; ".join(res["errors"][:2])
        out["counterexample_tail"] = text[-6000:]
    return out


def run_property(prop, tier, mc_cfgs, plan, level_text_rule, assumptions, extra=None):
    """plan: list of (group, n_random, n_ops, kinds, mode, reject_bias)."""
    import time
    t0 = time.time()
    vlib.build_harness()
    wd = vlib.workdir(f"{prop.lower()}-{tier}")
    n_viol = 0
    mc_results = []
    for cfg in mc_cfgs:
        r = run_mc(cfg, wd)
        mc_results.append({k: v for k, v in r.items() if k != "counterexample_tail"})
        vlib.log(f"[{prop}] X {cfg}: {r['states']} states, violated={r['violated']}")
        if r["violated"]:
            vlib.violation(prop, {"property": prop, "kind": "model", "cfg": cfg, "invariant": r["violated"],
                                  "counterexample_tail": r["counterexample_tail"],
                                  "how": f"tlc -config spec/{cfg} spec/MC_Collection.tla"})
            n_viol += 1
    t_stats = []
    for (group, n_random, n_ops, kinds, mode, rb) in plan:
        ws = make_workloads(group, n_random, n_ops, kinds, vlib.seed(), rb)
        if mode == "fault":
            # the fault tier covers add / update / remove / flush (see Collection.tla, "Storage faults")
            for w in ws:
                w["ops"] = [o for o in w["ops"] if o["op"] in FAULT_OPS]
        st = drive_and_validate(group, ws, mode, wd, f"{group}-{mode}")
        vlib.log(f"[{prop}] T {group}/{mode}: workloads={st['workloads']} traces={st['traces']} "
                 f"crash_points={st['crash_points']} nested={st['nested_points']} states={st['states']} "
                 f"failures={len(st['failures'])}")
        for fl in st["failures"]:
            vlib.violation(prop, {"property": prop, "kind": "trace", "group": group, "mode": mode,
                                  "tag": fl["tag"], "reason": fl["reason"], "line_in_trace": fl["line_in_trace"],
                                  "event": fl["event"], "trace": fl["trace"],
                                  "how": "./check --replay <this file>  (re-validates this trace against "
                                         "spec/CollectionTrace.tla; the workload is tag.w of the seeded generator)"})
            n_viol += 1
        t_stats.append(st)
    states = sum(r["states"] for r in mc_results)
    transitions = sum(r["transitions"] for r in mc_results)
    traces = sum(s["traces"] for s in t_stats)
    cov = {
        "states": states + sum(s["states"] for s in t_stats),
        "transitions": transitions,
        "traces_validated_against_impl": traces,
        "evaluations": traces,
        "distinct_nontrivial": sum(s["crash_points"] + s["nested_points"] for s in t_stats) + len(t_stats),
        "rule": level_text_rule,
        "samples": [{"group": s["group"], "first_events_of_first_trace": s["sample"]} for s in t_stats[:2]],
        "exhaustive": True,
        "model_checking": mc_results,
        "trace_validation": [{k: v for k, v in s.items() if k not in ("failures", "sample", "per_workload")}
                             for s in t_stats],
        "crash_points": sum(s["crash_points"] for s in t_stats),
        "nested_crash_points": sum(s["nested_points"] for s in t_stats),
        "trace_events": sum(s["events"] for s in t_stats),
    }
    if extra is not None:
        add_viol, add_cov = extra(tier, wd)
        n_viol += add_viol
        cov["states"] += add_cov.pop("states", 0)
        cov["traces_validated_against_impl"] += add_cov.pop("traces", 0)
        cov.update(add_cov)
    vlib.write_evidence(prop, tier, "model_checking", cov, time.time() - t0, n_viol, assumptions=assumptions)
    vlib.cleanup(wd)
    return n_viol


def replay(payload):
    """Re-validate the failing trace of a replay file against the trace spec."""
    wd = vlib.workdir("collection-replay")
    if payload.get("kind") != "trace":
        print("model-level counterexample: re-run TLC with", payload.get("how"))
        return 1
    p = os.path.join(wd, "t.ndjson")
    with open(p, "w") as f:
        for ev in payload["trace"]:
            f.write(json.dumps(ev, separators=(",", ":")) + "\n")
    res = validate_file(p, wd, "replay", max_failures=0)
    for fl in res["failures"]:
        print("REJECTED:", fl["reason"], "at line", fl["line_in_trace"], json.dumps(fl["event"])[:300])
    return 1 if res["failures"] else 0
