"""C16 - No accepted KIP mutation can touch engine-owned or immutable state.

(X) TLC enumerates spec/MC_KmlGuards.tla: every abstract mutation plan of the bounded families
    (the clause x target-kind x block x field-name matrix, two-typing WHERE blocks, plan-typed
    targets, 2-3 clause handle graphs, the ASSERT shorthand, tuple forms, belief selectors,
    identity selectors), computes the verdict of spec/KmlGuards.tla for each (the rules that fire,
    accept / refuse / either, the ASSERT expansion), checks the oracle's own laws (Laws) on every
    plan, and prints one REPLAY line per plan.
(R) harness/drive_kmlguards renders every plan as KML text (parse_kip, parse_kml) and as a
    hand-built JSON command tree (validate_command, Operation{ast}.parse), compares accepted /
    refused with the verdict, requires the parsed command to equal the hand-built tree (for ASSERT:
    the tree of the expansion TLC computed), and walks every accepted command for the bare safety
    facts.
"""
import json
import os
import time

import vlib

PROP = "C16"

# finding classes a disagreement "the code accepts what the specification refuses" can be
# attributed to; each is suppressed ONLY by an entry of known_findings.json with that matcher
# (see _explain: a case is attributed to a class only when the implementation's own guard, as
# written, could not have seen the rule - any other acceptance stays a violation).
CLASS_DOC = {
    "ensure_endpoint_unbound": "a ?handle used as an endpoint of the tuple of ENSURE PROPOSITION / ASSERT is bound by "
                               "nothing in the plan, and the plan is accepted (validate_plan never looks at tuple endpoints)",
    "claimed_and_selected": "a ?name is claimed by a creating clause of the plan AND bound by the WHERE block of the "
                            "clause that references it: two binders, accepted",
    "later_typing": "the WHERE block types the UPDATE target as Assertion / Evidence / Proposition / Activity in a "
                    "pattern that is not the first one mentioning it (UNION / OPTIONAL branch, later pattern); only "
                    "the first typing is guarded",
    "plan_typing": "the UPDATE target is a handle the same plan creates as Assertion / Evidence / Activity / "
                   "Proposition (CREATE ..., ENSURE PROPOSITION, ASSERT); the guard only looks at WHERE",
}


# ---------------------------------------------------------------------------
# attribution of a disagreement to a finding class (labels only; verdicts come from TLC)

def _first_typing(t, w):
    """The kind of the first pattern, in source order and at any depth, that types ?t:
    what rs/anda_kip/src/parser/kml.rs::bound_kind_of returns."""
    for it in w:
        if it[0] == "pat" and it[2] == t:
            return it[1]
        if it[0] in ("not", "opt", "union"):
            k = _first_typing(t, it[1])
            if k:
                return k
    return None


def _all_typings(t, w):
    out = set()
    for it in w:
        if it[0] == "pat" and it[2] == t:
            out.add(it[1])
        elif it[0] in ("not", "opt", "union"):
            out |= _all_typings(t, it[1])
    return out


CLAIM_KIND = {"create_concept": "concept", "upsert_concept": "concept", "create_evidence": "evidence",
              "create_assertion": "assertion", "assert": "assertion", "create_activity": "activity",
              "ensure": "proposition"}


def _hits(tagname, clause, kind, vocab):
    if kind is None:
        return False
    if tagname == "immutable":
        names = set(vocab.get(kind, []))
        return any(a["b"] == "FIELDS" and any(e["n"] in names for e in a["ents"]) for a in clause["acts"])
    return kind in vocab["record_kinds"] and any(a["b"] in ("STRUCT", "UNSTRUCT") for a in clause["acts"])


def _kind_gap(case, tagname, vocab):
    """Why did `immutable` / `structural` escape the guard?  None = it should not have."""
    plan = case["plan"]
    classes = set()
    for c in plan:
        if c["fam"] != "update" or c["tgt"][0] != "h":
            continue
        t = c["tgt"][1]
        w = c["w"] if c["hasw"] else []
        if _hits(tagname, c, _first_typing(t, w), vocab):
            return None         # the guard as written sees this one: an acceptance is not explained
        if any(_hits(tagname, c, k, vocab) for k in _all_typings(t, w)):
            classes.add("later_typing")
        if any(_hits(tagname, c, CLAIM_KIND.get(o["fam"]), vocab) for o in plan if o["claim"] == t):
            classes.add("plan_typing")
    return classes or None


def _explain(mm, vocab):
    """Finding classes that account for `the code accepted a plan the specification refuses`, or None."""
    if mm["mismatch"] not in ("text_accepts_forbidden", "tree_accepts_forbidden"):
        return None
    classes = set()
    for t in mm["must"]:
        if t == "unbound_tuple":
            classes.add("ensure_endpoint_unbound")
        elif t == "twice":
            classes.add("claimed_and_selected")
        elif t in ("immutable", "structural"):
            g = _kind_gap(mm["case"], t, vocab)
            if g is None:
                return None
            classes |= g
        else:
            return None
    return classes or None


# ---------------------------------------------------------------------------

def _enumerate(tier, wd):
    res = vlib.run_tlc("MC_KmlGuards", f"MC_KmlGuards_{tier}.cfg", wd, workers=12,
                       timeout=600 if tier == "quick" else 3000, heap="8g" if tier == "quick" else "14g",
                       allow_violation=True)
    if res["violated"] or res["rc"] != 0:
        # the oracle contradicts the laws it is supposed to satisfy: spec bug, not a violation of the code
        raise vlib.ToolError("KmlGuards.tla violates its own laws or TLC failed: " + "; ".join(res["errors"][:3]))
    sizes = vocab = None
    for b in vlib.tlc_printed(res["out"], "SIZES"):
        sizes = json.loads(b)
    for b in vlib.tlc_printed(res["out"], "VOCAB"):
        vocab = json.loads(b)
    if sizes is None or vocab is None:
        raise vlib.ToolError("TLC printed no SIZES / VOCAB line")
    cases = os.path.join(wd, "cases.ndjson")
    n = 0
    with open(cases, "w") as f:
        for b in vlib.tlc_printed(res["out"], "REPLAY"):
            f.write(b + "\n")
            n += 1
    os.remove(res["out"])
    want = sum(x[1] for x in sizes)
    if n != want:
        raise vlib.ToolError(f"TLC printed {n} cases, the families hold {want}")
    return res, sizes, vocab, cases, n


def _drive(cases, wd, keep=200000):
    out = os.path.join(wd, "kmlguards_out.json")
    rc, text = vlib.run_bin("drive_kmlguards", ["run", cases, out], timeout=3000, env={"KMLG_MAX_KEEP": str(keep)})
    if rc != 0 or not os.path.exists(out):
        print(text[-3000:])
        raise vlib.ToolError("drive_kmlguards failed (the harness itself; panics of the code under test are caught and reported)")
    with open(out) as f:
        return json.load(f)


def _small(mm):
    return {k: mm[k] for k in ("mismatch", "detail", "f", "i", "exp", "must", "may", "text", "text_result", "tree",
                               "tree_result", "case")}


def run(tier):
    t0 = time.time()
    vlib.build_harness()
    wd = vlib.workdir("c16-" + tier)
    res, sizes, vocab, cases, n = _enumerate(tier, wd)
    vlib.log(f"[C16] X TLC: {res['states']} states, {n} plans in {res['wall']:.0f}s, Laws hold; families "
             + " ".join(f"{a}={b}" for a, b in sizes))
    out = _drive(cases, wd)
    sm = out["summary"]
    vlib.log(f"[C16] R {sm['cases']} plans: text {sm['text_accept']} accepted / {sm['text_refuse']} refused, trees "
             f"{sm['tree_accept']} accepted / {sm['tree_refuse']} refused ({sm['tree_unrepresentable']} not expressible "
             f"as a tree), {sm['equal_trees']} parsed == built, {sm['expansions_equal']} ASSERT expansions equal, "
             f"{sm['either']} undecided by the property, mismatches={sm['mismatches']}")
    if sm["mismatches"] > len(out["mismatches"]):
        vlib.log("[C16] note: the driver kept only the first mismatches")

    known = {k["matcher"]: k for k in vlib.findings_for(PROP)}
    groups = {}        # key -> list of (number of classes, mismatch)
    known_hits = {}
    for mm in out["mismatches"]:
        cls = _explain(mm, vocab)
        if cls is not None:
            # one group per finding class; a run attributed to several classes counts for each unknown one
            for c in cls:
                if c in known:
                    known_hits.setdefault(c, []).append(mm)
                else:
                    groups.setdefault("finding:" + c, []).append((len(cls), mm))
        else:
            groups.setdefault(mm["mismatch"] + ":" + "+".join(sorted(mm["must"])), []).append((1, mm))
    for c, ms in known_hits.items():
        ms.sort(key=lambda m: len(m["text"]))
        vlib.known(PROP, f"{known[c]['what']} ({len(ms)} text/tree runs, e.g. {ms[0]['text']})")
    n_viol = 0
    bad_plans = set()
    for key, lst in sorted(groups.items()):
        lst.sort(key=lambda x: (x[0], len(x[1]["text"]), x[1]["text"]))
        ms = [m for _, m in lst]
        ids = {(m["f"], m["i"]) for m in ms}
        bad_plans |= ids
        payload = {"property": PROP, "group": key, "plans": len(ids), "runs": len(ms),
                   "what": CLASS_DOC[key[8:]] if key.startswith("finding:") else
                           "the real parser / tree validator disagrees with KmlGuards.tla",
                   "examples": [_small(m) for m in ms[:12]],
                   "how": "./check --replay <this file> re-runs the example plans with the verdicts TLC computed"}
        vlib.violation(PROP, payload)
        vlib.log(f"[C16]   {key}: {len(ids)} plans, e.g. {ms[0]['mismatch']}: {ms[0]['text']}")
    n_viol = len(bad_plans)

    cov = {
        "states": res["states"],
        "transitions": res["generated"],
        "traces_validated_against_impl": sm["cases"],
        "evaluations": 2 * sm["text_runs"] + 2 * sm["tree_runs"] + sm["walked"],
        "distinct_nontrivial": sm["distinct_refused"],
        "rule": "one case = one abstract mutation plan enumerated by TLC from the bounded families of MC_KmlGuards.tla "
                "with the verdict of KmlGuards.tla (rules: protected / immutable / structural / belief / bareid / tuple / "
                "selector / assert_* / unbound / unbound_tuple / twice / dupclaim / grammar-level ones). Each plan is "
                "rendered as KML text -> parse_kip + parse_kml, and as a hand-built serde JSON tree -> validate_command + "
                "Operation{ast}.parse; accepted/refused must equal the verdict (`either` = the property does not decide); "
                "an accepted text must parse to exactly the hand-built tree, an accepted ASSERT to exactly the tree of "
                "ExpandPlan up to fresh synthetic handle names; every accepted command is walked for engine-owned keys, "
                "belief selectors, duplicate claims, PURGE confirmation, UPSERT selectors. non-trivial = distinct "
                "rendered texts whose verdict is refuse. TLC also checks Laws on every plan: semantic kinds are "
                "syntactic kinds, clause order does not change the verdict, Must/May of an ASSERT plan equal those "
                "of its expansion",
        "samples": sm["samples"][:4],
        "exhaustive": True,
        "families": {a: b for a, b in sizes},
        "text_runs": sm["text_runs"], "tree_runs": sm["tree_runs"],
        "tree_unrepresentable": sm["tree_unrepresentable"],
        "parsed_equals_built_tree": sm["equal_trees"], "assert_expansions_equal": sm["expansions_equal"],
        "undecided_by_property": sm["either"],
        "distinct_texts": sm["distinct_texts"],
        "mismatching_runs": sm["mismatches"],
        "known_finding_runs": {k: len(v) for k, v in known_hits.items()},
        "violation_groups": {k: len({(m['f'], m['i']) for _, m in v}) for k, v in groups.items()},
        "tlc_wall_s": round(res["wall"], 1),
    }
    vlib.write_evidence(PROP, tier, "model_checking", cov, time.time() - t0, n_viol, assumptions=[
        "field names are compared by exact, case-sensitive equality (as the grammar and the reference engine do): case "
        "variants and dotted paths of engine-owned / immutable names are other, ordinary names",
        "the engine-owned and immutable-payload name lists are those of parser/common.rs and parser/kml.rs (a superset of "
        "SPECIFICATION 6.3 / 12.5 / 13.7 / 15.5); whether the lists are complete is not decided here",
        "a direct target (:param / \"id\") has no kind the parser can know: the guard is the engine's at run time",
        "the name slot of a structural edge is a schema symbol of the structural plane, not an envelope field",
        "a variable counts as bound by a WHERE block when it occurs in a binding position at any depth; a variable "
        "bound only under NOT, and ?v.field reads outside an UPDATE of ?v, are left undecided",
    ])
    vlib.cleanup(wd)
    return n_viol


def replay(payload):
    vlib.build_harness()
    wd = vlib.workdir("c16-replay")
    cases = os.path.join(wd, "cases.ndjson")
    seen = set()
    with open(cases, "w") as f:
        for ex in payload.get("examples", []):
            c = ex["case"]
            key = (c["f"], c["i"])
            if key in seen:
                continue
            seen.add(key)
            f.write(json.dumps(c) + "\n")
    out = _drive(cases, wd)
    for mm in out["mismatches"][:40]:
        print(f"{mm['mismatch']} [{mm['f']}#{mm['i']}] expected {mm['exp']} {mm['must']}: {mm['text']}\n"
              f"    text: {mm['text_result'][:160]}\n    tree: {mm['tree_result'][:160]} {mm['detail'][:300]}")
    vlib.cleanup(wd)
    return 1 if out["summary"]["mismatches"] else 0
