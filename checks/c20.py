"""C20 - Belief is projected: silence is not rejection, repetition is not support."""
import json
import os
import time

import vlib

PROP = "C20"


def _cases(res, wd, name):
    types = None
    for b in vlib.tlc_printed(res["out"], "TYPES"):
        types = json.loads(b)
    if types is None:
        raise vlib.ToolError("TLC printed no TYPES line")
    path = os.path.join(wd, name + ".ndjson")
    n = 0
    with open(path, "w") as f:
        f.write(json.dumps({"types": types}) + "\n")
        for b in vlib.tlc_printed(res["out"], "REPLAY"):
            f.write(b + "\n")
            n += 1
    os.remove(res["out"])
    if n == 0:
        raise vlib.ToolError("TLC printed no cases")
    return path, types, n


def _drive(mode, cases, wd):
    out = os.path.join(wd, f"belief_{mode}.json")
    rc, text = vlib.run_bin("drive_belief", [mode, cases, out], timeout=3000)
    if rc != 0 or not os.path.exists(out):
        print(text[-3000:])
        raise vlib.ToolError("drive_belief failed (panic in the harness or in the code under test)")
    vlib.log(text.strip().splitlines()[-1])
    with open(out) as f:
        return json.load(f)


def run(tier):
    t0 = time.time()
    vlib.build_harness()
    wd = vlib.workdir("c20-" + tier)
    n_viol = 0
    results = {}
    tlc = {}
    types = {}
    for fam in ("full", "agg"):
        res = vlib.run_tlc("MC_Belief", f"MC_Belief_{fam}_{tier}.cfg", wd, workers=12, timeout=2400, heap="10g",
                           out_name=f"{fam}.out", allow_violation=True)
        if res["violated"] or res["rc"] != 0:
            # the oracle contradicts the laws it is supposed to satisfy: spec bug, not a violation of the code
            raise vlib.ToolError(f"Belief.tla violates its own laws ({fam}): " + "; ".join(res["errors"][:3]))
        tlc[fam] = {"states": res["states"], "transitions": res["generated"], "wall_s": round(res["wall"], 1)}
        path, types[fam], n = _cases(res, wd, fam)
        vlib.log(f"[C20] TLC {fam}: {res['states']} states, {n} cases in {res['wall']:.0f}s")
        results[fam] = _drive(fam, path, wd)

    known = {k["matcher"]: k for k in vlib.findings_for(PROP)}
    for fam, out in results.items():
        if out["n_disagree"]:
            vlib.violation(PROP, {"property": PROP, "family": fam, "types": types[fam],
                                  "disagreements": out["disagreements"][:40], "total": out["n_disagree"]})
            n_viol += out["n_disagree"]
    bl = results["full"].get("bridge_lowers_score", [])
    if bl:
        if "bridge_lowers_score" in known:
            b = bl[0]
            vlib.known(PROP, f"{known['bridge_lowers_score']['what']} (observed on the real executor: multiset of types "
                             f"{b['without']} has support {b['support_before']}, adding type {b['added_type']} gives "
                             f"{b['support_after']}; {len(bl)} such pairs listed)")
        else:
            vlib.violation(PROP, {"property": PROP, "family": "full", "kind": "bridge_lowers_score", "pairs": bl,
                                  "types": types["full"]})
            n_viol += 1
    cov = {
        "states": tlc["full"]["states"] + tlc["agg"]["states"],
        "transitions": tlc["full"]["transitions"] + tlc["agg"]["transitions"],
        "traces_validated_against_impl": results["full"]["evaluations"] + results["agg"]["evaluations"],
        "evaluations": results["full"]["evaluations"] + results["agg"]["evaluations"],
        "distinct_nontrivial": results["full"]["nontrivial"] + results["agg"]["nontrivial"],
        "rule": "family full: every multiset of <= N assertions over 18 assertion types (all eligibility stages, "
                "stances, unstated confidence, window boundaries, functional rival) recorded through the real "
                "parser+executor in EVERY distinct recording order and projected under baseline and forecast policies; "
                "non-trivial = status other than insufficient. family agg: every multiset of <= 4 side candidates over "
                "3 actors x 7 evidence subsets x confidences through the real aggregation (hook) in every order; "
                "non-trivial = some candidates share a group",
        "samples": results["full"]["samples"][:2] + results["agg"]["samples"][:1],
        "exhaustive": True,
        "tlc": tlc,
        "full": {k: results["full"][k] for k in ("cases", "evaluations", "n_disagree")},
        "agg": {k: results["agg"][k] for k in ("cases", "evaluations", "n_disagree")},
        "laws_checked_by_tlc": "Laws(as, BaselineModes, all 18 one-assertion extensions) in every state of family full",
    }
    vlib.write_evidence(PROP, tier, "model_checking", cov, time.time() - t0, n_viol, assumptions=[
        "confidences in tenths; thresholds of the baseline policy (custom thresholds: policy identity only)",
        "the clause 'changes a score only when more confident than its group' is checked for assertions joining "
        "exactly one group; bridging two groups lowers the score (recorded as known finding)",
        "evaluation time fixed; windows placed before / at / after it (both boundaries)",
    ])
    vlib.cleanup(wd)
    return n_viol


def replay(payload):
    vlib.build_harness()
    wd = vlib.workdir("c20-replay")
    fam = payload["family"]
    path = os.path.join(wd, "cases.ndjson")
    with open(path, "w") as f:
        f.write(json.dumps({"types": payload["types"]}) + "\n")
        seen = set()
        for d in payload.get("disagreements", []):
            c = d.get("case")
            if c and json.dumps(c["ms"]) not in seen:
                seen.add(json.dumps(c["ms"]))
                f.write(json.dumps(c) + "\n")
    out = _drive(fam, path, wd)
    for d in out["disagreements"][:10]:
        print(json.dumps(d)[:400])
    return 1 if out["n_disagree"] else 0
