"""C10 - B-tree index equals an ordered multimap, across flush, crash and threads."""
import json
import os
import random
import re
import time

import vlib
from checks import collection_common as cc

PROP = "C10"
NK, NI = 6, 4


def _flush(rng):
    r = rng.random()
    if r < 0.35:
        return {"op": "flush"}
    if r < 0.45:
        return {"op": "flush", "mode": "fail_before", "at": rng.randrange(4)}
    if r < 0.55:
        return {"op": "flush", "mode": "fail_after", "at": rng.randrange(3)}
    if r < 0.65:
        return {"op": "flush", "mode": "crash_before", "at": rng.randrange(4)}
    if r < 0.82:
        return {"op": "flush", "mode": "crash_after", "at": rng.randrange(4)}
    return {"op": "flush", "deletes": rng.randrange(3), "crash_in_deletes": rng.random() < 0.5}


def gen_history(rng, name, n_ops, dup):
    ops = []
    for _ in range(n_ops):
        r = rng.random()
        idv = rng.randrange(1, NI + 1)
        ks = lambda: rng.sample(range(1, NK + 1), rng.randrange(1, 4))
        if r < 0.28:
            ops.append({"op": "insert", "id": idv, "k": rng.randrange(1, NK + 1)})
        elif r < 0.42:
            ops.append({"op": "remove", "id": idv, "k": rng.randrange(1, NK + 1)})
        elif r < 0.55:
            a = ks()
            if rng.random() < 0.2:
                a = a + a[:1]           # duplicates are coalesced
            ops.append({"op": "insert_array", "id": idv, "ks": a})
        elif r < 0.63:
            ops.append({"op": "remove_array", "id": idv, "ks": ks()})
        elif r < 0.74:
            ops.append({"op": "batch_update", "id": idv, "old": ks(), "new": ks()})
        elif r < 0.79:
            ops.append({"op": "compact"})
        elif r < 0.93:
            ops.append(_flush(rng))
        elif r < 0.96:
            # restart from a pre-manifest (legacy) layout of the fully flushed state
            ops.append({"op": "flush"})
            ops.append({"op": "legacy"})
        else:
            ops.append({"op": "reload"})
    ops.append({"op": "flush"})
    ops.append({"op": "reload"})
    return {"name": name, "nk": NK, "ni": NI, "dup": dup, "ops": ops}


def fixed_histories():
    """Systematic crash-point sweeps: a base history that spreads keys over buckets, flushes, dirties several
    buckets again (growth migrations, removals, compaction), then a flush interrupted at EVERY callback position,
    before and after the write, and at every obsolete deletion; the history then continues on the recovered index."""
    base = [{"op": "insert", "id": 1, "k": k} for k in range(1, NK + 1)] + [{"op": "flush"}]
    grow = [{"op": "insert_array", "id": 2, "ks": [1, 3, 5]}, {"op": "insert", "id": 3, "k": 1},
            {"op": "insert", "id": 4, "k": 1}, {"op": "remove", "id": 1, "k": 2},
            {"op": "batch_update", "id": 1, "old": [4, 6], "new": [6, 2]}]
    tail = [{"op": "insert", "id": 4, "k": 5}, {"op": "remove_array", "id": 2, "ks": [1, 3]}, {"op": "flush"},
            {"op": "reload"}, {"op": "compact"}, {"op": "flush"}, {"op": "reload"}]
    out = []
    for variant, mid in (("grow", grow), ("compact", grow + [{"op": "compact"}]),
                         ("recompact", grow + [{"op": "compact"}, {"op": "flush"}, {"op": "insert", "id": 3, "k": 4},
                                               {"op": "compact"}])):
        for at in range(6):
            for mode in ("crash_before", "crash_after", "fail_before", "fail_after"):
                out.append({"name": f"sweep-{variant}-{mode}-{at}", "nk": NK, "ni": NI, "dup": True,
                            "ops": base + mid + [{"op": "flush", "mode": mode, "at": at}] + tail})
        for d in range(5):
            out.append({"name": f"sweep-{variant}-deletes-{d}", "nk": NK, "ni": NI, "dup": True,
                        "ops": base + mid + [{"op": "flush", "deletes": d, "crash_in_deletes": True}] + tail})
            out.append({"name": f"sweep-{variant}-leftover-{d}", "nk": NK, "ni": NI, "dup": True,
                        "ops": base + mid + [{"op": "flush", "deletes": d}] + tail})
    # legacy (manifest-less) layout: restart from it, then every kind of flush on top of it
    for variant, mid in (("grow", grow), ("compact", grow + [{"op": "compact"}])):
        for fl in ({"op": "flush"}, {"op": "flush", "mode": "crash_after", "at": 0}, {"op": "flush", "mode": "crash_before", "at": 1},
                   {"op": "flush", "deletes": 1, "crash_in_deletes": True}, {"op": "flush", "mode": "fail_after", "at": 0}):
            out.append({"name": f"legacy-{variant}-{fl.get('mode', 'clean')}-{fl.get('deletes', '')}", "nk": NK, "ni": NI,
                        "dup": True, "ops": base + [{"op": "legacy"}] + mid + [fl] + tail})
    # uniqueness
    out.append({"name": "unique", "nk": NK, "ni": NI, "dup": False, "ops": [
        {"op": "insert", "id": 1, "k": 1}, {"op": "insert", "id": 2, "k": 1}, {"op": "insert", "id": 1, "k": 1},
        {"op": "insert_array", "id": 2, "ks": [2, 1, 3]}, {"op": "insert_array", "id": 2, "ks": [2, 3]},
        {"op": "batch_update", "id": 1, "old": [1], "new": [2]}, {"op": "batch_update", "id": 1, "old": [1], "new": [4]},
        {"op": "flush"}, {"op": "reload"}, {"op": "insert", "id": 3, "k": 4}, {"op": "remove", "id": 1, "k": 4},
        {"op": "insert", "id": 3, "k": 4}, {"op": "flush"}, {"op": "reload"}]})
    return out


def _histories(tier, wd):
    rng = random.Random(vlib.seed() + 10)
    hs = fixed_histories()
    n, n_ops = (80, 45) if tier == "quick" else (900, 70)
    for i in range(n):
        hs.append(gen_history(rng, f"rand-{i}", n_ops, dup=(i % 3 != 0)))
    stats = {"histories": len(hs), "events": 0, "states": 0, "failures": []}
    per_file = 60
    for fno in range(0, len(hs), per_file):
        chunk = hs[fno:fno + per_file]
        wf = os.path.join(wd, f"w{fno}.jsonl")
        tf = os.path.join(wd, f"t{fno}.ndjson")
        with open(wf, "w") as f:
            for h in chunk:
                f.write(json.dumps(h) + "\n")
        rc, text = vlib.run_bin("drive_btree", ["hist", wf, tf], timeout=1200)
        if rc != 0:
            # a panic in the index is data
            print(text[-3000:])
            stats["failures"].append({"tag": "driver", "reason": "drive_btree hist aborted (panic)", "line_in_trace": 0,
                                      "event": {"tail": text[-1500:]}, "trace": chunk, "header": None})
            continue
        summ = json.loads(text.strip().splitlines()[-1])
        stats["events"] += summ["events"]
        with open(tf) as f:
            header = json.loads(f.readline())
        res = cc.validate_file(tf, wd, f"bt{fno}", cfg="BTreeTrace.cfg", module="BTreeTrace")
        stats["states"] += res["states"]
        for fl in res["failures"]:
            fl["header"] = header
            stats["failures"].append(fl)
        if fno == 0:
            with open(tf) as f:
                stats["sample"] = [json.loads(next(f)) for _ in range(9)][2:]
        os.remove(tf)
    return stats


def conc_scenarios(tier):
    """Thread programs at the yield points of insert / remove / compact_buckets (validated step by step
    against BTreeConc.tla), plus gate-probing scenarios (compaction started while a mutation is parked inside its
    call, and vice versa; checked on the final state only)."""
    I = lambda i, k: {"op": "insert", "id": i, "k": k}
    R = lambda i, k: {"op": "remove", "id": i, "k": k}
    C = {"op": "compact"}
    fill = [I(1, 1), I(1, 2), I(2, 1), I(3, 1)]                # bucket 0 close to its 64-byte limit
    spread = [I(1, k) for k in range(1, 6)]                    # three buckets
    cap2, cap3 = (400, 150) if tier == "quick" else (6000, 3000)
    dup = [
        ("rm-ins-same-key", [I(1, 1), I(1, 2)], [[R(1, 1)], [I(2, 1)]], cap2),
        ("ins-ins-new-key", [I(1, 2)], [[I(1, 1)], [I(2, 1)]], cap2),
        ("ins-rm-same-pair", [I(1, 1)], [[I(1, 1)], [R(1, 1)]], cap2),
        ("rm-rm-last-two", [I(1, 1), I(2, 1)], [[R(1, 1)], [R(2, 1)]], cap2),
        ("rm-then-ins-vs-ins", [I(1, 1)], [[R(1, 1), I(1, 1)], [I(2, 1)]], cap2),
        ("migrate-vs-remove", fill, [[I(4, 1)], [R(1, 1)]], cap2),
        ("migrate-vs-migrate", fill, [[I(4, 1)], [I(4, 2)]], cap2),
        ("migrate-vs-rm-all", [I(1, 1), I(1, 2), I(1, 3)], [[I(2, 3), I(3, 3)], [R(1, 3)]], cap2),
        ("compact-vs-insert", spread, [[C], [I(2, 3)]], cap2),
        ("compact-vs-remove", spread, [[C], [R(1, 3)], [I(2, 6)]], cap3),
        ("three-on-one-key", [I(1, 1)], [[R(1, 1)], [I(2, 1)], [I(3, 1)]], cap3),
        ("three-mixed", fill, [[R(2, 1)], [I(4, 1)], [R(1, 2), I(1, 2)]], cap3),
    ]
    uniq = [
        ("uniq-two-claim", [I(1, 2)], [[I(1, 1)], [I(2, 1)]], cap2),
        ("uniq-three-claim", [I(1, 2)], [[I(1, 1)], [I(2, 1)], [I(3, 1)]], cap3),
        ("uniq-release-claim", [I(1, 1)], [[R(1, 1)], [I(2, 1)], [I(1, 1)]], cap3),
    ]
    probe = [
        ("probe-compact-insert", spread, [[C], [I(2, 3)], [I(2, 6)]], cap3),
        ("probe-compact-remove", spread, [[C], [R(1, 3)], [I(2, 1)]], cap3),
        ("probe-compact-migrate", fill + [I(1, 3), I(1, 4)], [[C], [I(4, 1)], [R(1, 2)]], cap3),
    ]
    # batch calls (insert_array / remove_array) are not modelled step by step: calls that commute, every schedule must
    # end with the stated content, and flush + cold load must return it
    IA = lambda i, ks: {"op": "insert_array", "id": i, "ks": ks}
    RA = lambda i, ks: {"op": "remove_array", "id": i, "ks": ks}

    def expect(setup, threads):
        post = {k: set() for k in range(1, 7)}
        for op in setup + [o for t in threads for o in t]:
            if op["op"] == "insert":
                post[op["k"]].add(op["id"])
            elif op["op"] == "insert_array":
                for k in op["ks"]:
                    post[k].add(op["id"])
        for op in [o for t in threads for o in t]:          # removals of pairs nobody re-inserts
            if op["op"] == "remove":
                post[op["k"]].discard(op["id"])
            elif op["op"] == "remove_array":
                for k in op["ks"]:
                    post[k].discard(op["id"])
        return [sorted(post[k]) for k in range(1, 7)]

    batch = [
        ("batch-ia-ia", fill, [[IA(4, [1, 2, 3])], [IA(5, [1, 3, 4])]], cap2),
        ("batch-ia-ra", fill + [I(2, 2), I(2, 3)], [[IA(4, [1, 2, 5])], [RA(2, [1, 2, 3])]], cap2),
        ("batch-ra-ra-empties", [I(1, 1), I(2, 1), I(1, 2), I(2, 2)], [[RA(1, [1, 2])], [RA(2, [1, 2])]], cap2),
        ("batch-ia-insert-remove", fill, [[IA(4, [1, 2, 3, 4])], [I(5, 1)], [R(1, 2)]], cap3),
        ("batch-ia-compact", spread, [[IA(2, [1, 2, 3, 6])], [C], [RA(1, [4, 5])]], cap3),
    ]
    probe += batch
    expects = {n: expect(su, th) for (n, su, th, _c) in batch}
    # batch calls on a UNIQUE index claiming the same fresh key (and one racing a plain insert): whoever wins,
    # no schedule may end with two owners of a key, in memory or after flush + cold load
    ubatch = [
        ("uniq-ia-ia-fresh", [I(1, 2)], [[IA(3, [1, 3])], [IA(4, [1, 4])]], cap2),
        ("uniq-ia-insert-fresh", [I(1, 2)], [[IA(3, [5, 1])], [I(4, 1)]], cap2),
        ("uniq-ia-ia-ia", [], [[IA(1, [1, 2])], [IA(2, [2, 3])], [IA(3, [3, 1])]], cap3),
    ]
    mk = lambda lst, u, gate: [{"name": n, "nk": 6, "uniq": u, "respect_gate": gate, "setup": su, "threads": th,
                                "cap": cap, "random": len(th) >= 3, "seed": vlib.seed() + i}
                               for i, (n, su, th, cap) in enumerate(lst)]
    out = {"dup": mk(dup, False, True), "uniq": mk(uniq, True, True), "probe": mk(probe, False, False),
           "uprobe": mk(ubatch, True, False)}
    for sc in out["uprobe"]:
        sc["respect_gate"] = True
    for sc in out["probe"]:
        if sc["name"] in expects:
            sc["expect"] = expects[sc["name"]]
            sc["respect_gate"] = "compact" not in sc["name"]
    return out


def _conc(tier, wd, groups=None, cfgs=None):
    out = {"schedules": 0, "events": 0, "states": 0, "failures": [], "blocked": 0, "mc_states": 0, "mc_generated": 0,
           "mc_violated": []}
    if cfgs is None:
        cfgs = ["MC_BTreeConc_quick.cfg", "MC_BTreeConc_uniq.cfg"] if tier == "quick" else \
               ["MC_BTreeConc_quick.cfg", "MC_BTreeConc_uniq.cfg", "MC_BTreeConc_thorough.cfg",
                "MC_BTreeConc_three.cfg"]
    for cfg in cfgs:
        mc = vlib.run_tlc("MC_BTreeConc", cfg, wd, workers=12, timeout=3000, heap="16g", out_name="mcc.out",
                          allow_violation=True)
        vlib.log(f"[C10] X {cfg}: {mc['states']} states, violated={mc['violated']}")
        out["mc_states"] += mc["states"]
        out["mc_generated"] += mc["generated"]
        if mc["violated"]:
            with open(mc["out"], errors="replace") as f:
                out["mc_violated"].append({"cfg": cfg, "tail": f.read()[-4000:]})
        elif mc["rc"] != 0:
            raise vlib.ToolError("TLC failed on " + cfg)
    for group, scs in conc_scenarios(tier).items():
        if groups is not None and group not in groups:
            continue
        sf = os.path.join(wd, f"conc-{group}.jsonl")
        tf = os.path.join(wd, f"conc-{group}.ndjson")
        with open(sf, "w") as f:
            for sc in scs:
                f.write(json.dumps(sc) + "\n")
        rc, text = vlib.run_bin("drive_btree", ["conc", sf, tf], timeout=2400)
        if rc != 0:
            print(text[-3000:])
            out["failures"].append({"tag": group, "reason": "drive_btree conc aborted (panic / deadlock)",
                                    "line_in_trace": 0, "event": {"tail": text[-1500:]}, "trace": scs, "header": None})
            continue
        summ = json.loads(text.strip().splitlines()[-1])
        out["schedules"] += summ["schedules"]
        out["events"] += summ["events"]
        out["blocked"] += summ["blocked"]
        for mm in summ["final_mismatch"]:
            out["failures"].append({"tag": f"{group}:{mm['scenario']}", "reason": "after the threads finished, flush + "
                                    "cold load does not return the in-memory content" if "loaded" in mm else
                                    "after the threads finished a unique index lists two owners for one key"
                                    if mm.get("unique_violated") else
                                    "after the threads finished the content is not what the (commuting) calls add up to",
                                    "line_in_trace": 0,
                                    "event": mm, "trace": [], "header": None})
        if summ["deadlocks"]:
            out["failures"].append({"tag": group, "reason": f"{summ['deadlocks']} schedules deadlocked",
                                    "line_in_trace": 0, "event": {}, "trace": [], "header": None})
        if group not in ("probe", "uprobe"):
            with open(tf) as f:
                header = json.loads(f.readline())
            res = cc.validate_file(tf, wd, f"btc-{group}", cfg="BTreeConcTrace.cfg", module="BTreeConcTrace")
            out["states"] += res["states"]
            for fl in res["failures"]:
                fl["header"] = header
                fl["spec"] = "BTreeConcTrace"
                out["failures"].append(fl)
        os.remove(tf)
    return out


REPLAY_RE = re.compile(r'^<<"REPLAY", "(.*)">>$')


def _queries(tier, wd):
    res = vlib.run_tlc("MC_BTreeQ", f"MC_BTreeQ_{tier}.cfg", wd, workers=12, timeout=2400, heap="8g", out_name="q.out")
    cases = [json.loads(x) for x in vlib.tlc_printed(res["out"], "REPLAY")]
    cases.sort(key=lambda c: json.dumps(c["pop"]))
    cf = os.path.join(wd, "cases.jsonl")
    with open(cf, "w") as f:
        for c in cases:
            f.write(json.dumps(c) + "\n")
    rc, text = vlib.run_bin("drive_btree", ["query", cf], timeout=2400)
    if rc != 0:
        print(text[-3000:])
        raise vlib.ToolError("drive_btree query failed")
    lines = [json.loads(x) for x in text.strip().splitlines() if x.startswith("{")]
    summ = lines[-1]
    return {"tlc_states": res["states"], "cases": len(cases), "checks": summ["checks"], "pops": summ["pops"],
            "mismatches": [x for x in lines if "mismatch" in x], "n_mismatch": summ["mismatches"],
            "sample": cases[len(cases) // 2]}


def run(tier):
    t0 = time.time()
    vlib.build_harness()
    wd = vlib.workdir("c10-" + tier)
    n_viol = 0
    mc = vlib.run_tlc("MC_Manifest", f"MC_Manifest_{tier}.cfg", wd, workers=12, timeout=3000, heap="16g",
                      out_name="mc.out", allow_violation=True)
    vlib.log(f"[C10] X MC_Manifest_{tier}.cfg: {mc['states']} states, violated={mc['violated']}")
    if mc["violated"]:
        with open(mc["out"], errors="replace") as f:
            tail = f.read()[-5000:]
        vlib.violation(PROP, {"property": PROP, "kind": "model", "cfg": f"MC_Manifest_{tier}.cfg", "tail": tail})
        n_viol += 1
    elif mc["rc"] != 0:
        raise vlib.ToolError("TLC failed on MC_Manifest")
    q = _queries(tier, wd)
    vlib.log(f"[C10] R queries: {q['cases']} cases, {q['checks']} checks on live/compacted/reloaded indexes, "
             f"mismatches={q['n_mismatch']}")
    for mm in q["mismatches"][:5]:
        vlib.violation(PROP, {"property": PROP, "kind": "query", **mm})
        n_viol += 1
    h = _histories(tier, wd)
    vlib.log(f"[C10] T histories: {h['histories']} histories, {h['events']} events, {h['states']} states, "
             f"failures={len(h['failures'])}")
    for fl in h["failures"][:8]:
        vlib.violation(PROP, {"property": PROP, "kind": "trace", "tag": fl["tag"], "reason": fl["reason"],
                              "line_in_trace": fl["line_in_trace"], "event": fl["event"], "header": fl["header"],
                              "trace": fl["trace"]})
        n_viol += 1
    c = _conc(tier, wd)
    vlib.log(f"[C10] T threads: {c['schedules']} schedules, {c['events']} events, {c['states']} states, "
             f"blocked={c['blocked']}, failures={len(c['failures'])}")
    for mv in c["mc_violated"]:
        vlib.violation(PROP, {"property": PROP, "kind": "model", **mv})
        n_viol += 1
    for fl in c["failures"][:8]:
        vlib.violation(PROP, {"property": PROP, "kind": "trace", "spec": fl.get("spec", "none"), "tag": fl["tag"],
                              "reason": fl["reason"], "line_in_trace": fl["line_in_trace"], "event": fl["event"],
                              "header": fl["header"], "trace": fl["trace"]})
        n_viol += 1
    cov = {
        "states": mc["states"] + h["states"] + q["tlc_states"] + c["mc_states"] + c["states"],
        "transitions": mc["generated"],
        "traces_validated_against_impl": h["histories"] + c["schedules"],
        "evaluations": q["checks"] + h["events"],
        "distinct_nontrivial": q["cases"] + h["histories"],
        "rule": "X: Manifest.tla (insert/remove/migrate/compact, flush as snapshot ; write* ; commit ; publish ; "
                "delete*, failing flushes, crashes) exhaustively: LoadIsCommitted, ReferencedExist, "
                "CleanBucketsDurable, NoDuplicateHomes, and the refinement lemma MutationsOK. R: every population "
                "(all subsets of 5 keys) x every RangeQuery of the bounded families (depth <= 3 in the thorough tier), "
                "both directions, every early-stop position, every prefix, every keys(cursor, limit), on a live, a "
                "compacted and a flushed+reloaded index. T: histories of insert / remove / insert_array / "
                "remove_array / batch_update / compact / flush / reload on BTreeIndex<u64,String> with 64-byte "
                "buckets; every call's return value and projected state (point queries, key listing, owner bucket, "
                "dirty flags, listed keys, manifest, version) must be the ordered-multimap step and satisfy "
                "MutationOK; every flush callback must be the next protocol step with exactly the snapshot's decoded "
                "content; a cold load after EVERY durable write and after every crash must equal Loaded, which "
                "LoadIsCommitted pins to the last committed snapshot. X threads: BTreeConc.tla, all programs of 2-3 "
                "threads x all interleavings at the yield points (OwnerLists, BtreeMatches, DirtyCovers, FlushExact, "
                "UniqueHolds). T threads: real OS threads parked at every instrumented yield point; all schedules "
                "(DFS, capped; random for 3 threads) of the scenario list; every step must be the specification's "
                "action for the lock scope just left and the observed layout must equal the next specification state; "
                "then flush + cold load must return Content. Gate probes: compaction started while mutations are "
                "parked mid-call (blocked threads detected by timeout), final state only. Batch calls (insert_array / "
                "remove_array, not modelled step by step): commuting calls under every schedule at their yield points "
                "must end with the stated content and flush + cold load must return it",
        "samples": [{"query_case": q["sample"]}, {"first_events": h.get("sample")}],
        "exhaustive": True,
        "model_checking": {"cfg": f"MC_Manifest_{tier}.cfg", "states": mc["states"], "transitions": mc["generated"]},
        "query_cases": q["cases"], "query_checks": q["checks"],
        "histories": h["histories"], "trace_events": h["events"],
        "thread_schedules": c["schedules"], "thread_events": c["events"], "thread_model_states": c["mc_states"],
    }
    vlib.write_evidence(PROP, tier, "model_checking", cov, time.time() - t0, n_viol, assumptions=[
        "flushes are not concurrent with mutations or compaction (the crate's documented contract)",
        "a bucket / metadata callback write is atomic; a failing metadata callback means the manifest was NOT stored",
        "legacy manifest-less layouts are exercised as consistent conversions of a fully flushed state (no stale "
        "duplicates or tombstones left by the pre-manifest protocol)",
    ])
    vlib.cleanup(wd)
    return n_viol


def replay(payload):
    if payload.get("kind") != "trace" or not payload.get("header"):
        print(json.dumps(payload)[:2000])
        return 1
    wd = vlib.workdir("c10-replay")
    spec = "BTreeConcTrace" if payload.get("spec") == "BTreeConcTrace" else "BTreeTrace"
    p = os.path.join(wd, "t.ndjson")
    with open(p, "w") as f:
        f.write(json.dumps(payload["header"], separators=(",", ":")) + "\n")
        for ev in payload["trace"]:
            f.write(json.dumps(ev, separators=(",", ":")) + "\n")
    res = cc.validate_file(p, wd, "replay", cfg=spec + ".cfg", module=spec, max_failures=0)
    for fl in res["failures"]:
        print("REJECTED:", fl["reason"], "at line", fl["line_in_trace"], json.dumps(fl["event"])[:300])
    return 1 if res["failures"] else 0
