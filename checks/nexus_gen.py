"""Generators shared by C17 (statement atomicity) and C18 (historical reads): KML statement histories over a small
universe of keyed persons, preferences, propositions, assertions, evidence and a structural experience graph, and a
fixed battery of KQL queries with a {coord} placeholder for AS OF."""
import random

PERSONS = ["alice", "bob", "carol", "dave"]
PREFS = ["dark", "light", "tabs"]


def upsert_person(k, name):
    return ('UPSERT CONCEPT ?p { MATCH {type: "Person", key: "person:%s"} SET FIELDS {name: "%s"} }' % (k, name))


def create_person(k, name):
    return 'CREATE CONCEPT ?q { TYPE "Person" NAME "%s" SET FIELDS {key: "person:%s"} }' % (name, k)


def create_pref(n):
    return 'UPSERT CONCEPT ?d { MATCH {type: "Preference", key: "pref:%s"} SET FIELDS {name: "%s"} }' % (n, n)


def claim(person, pref, conf, stance="support"):
    """person prefers pref, as a proposition + evidence + assertion, resolving both concepts by key."""
    return ('MUTATE {\n'
            ' UPSERT CONCEPT ?a { MATCH {type: "Person", key: "person:%s"} SET FIELDS {name: "%s"} }\n'
            ' UPSERT CONCEPT ?d { MATCH {type: "Preference", key: "pref:%s"} SET FIELDS {name: "%s"} }\n'
            ' ENSURE PROPOSITION ?p (?a, "prefers", ?d)\n'
            ' CREATE EVIDENCE ?e { SET FIELDS { evidence_class: "user_statement", payload: "%s likes %s", observed_at: "2026-08-16T09:00:00Z" } }\n'
            ' CREATE ASSERTION ?x { SET FIELDS { proposition: ?p, asserted_by: ?a, stance: "%s", mode: "stated", confidence: %s }\n'
            '   SET STRUCTURAL { ("evidence", ?e) {role: "support"} } }\n'
            '}' % (person, person.capitalize(), pref, pref, person, pref, stance, conf))


def experience(name, steps):
    body = ""
    for i, s in enumerate(steps):
        body += ' CREATE CONCEPT ?s%d { TYPE "ExperienceStep" NAME "%s" SET ATTRIBUTES {step_kind: "action", summary: "%s"} }\n' % (i, s, s)
    links = " ".join('("has_step", ?s%d)' % i for i in range(len(steps)))
    body += (' CREATE CONCEPT ?exp { TYPE "Experience" NAME "%s" SET ATTRIBUTES {goal: "ship", outcome_status: "success"}\n'
             '   SET STRUCTURAL { %s } }\n' % (name, links))
    return "MUTATE {\n" + body + "}"


def update_summary(name, text):
    return 'UPDATE ?c SET ATTRIBUTES {summary: "%s"} WHERE { ?c CONCEPT {name: "%s"} }' % (text, name)


def rename(old, new):
    return 'UPDATE ?c SET FIELDS {name: "%s"} WHERE { ?c CONCEPT {name: "%s"} }' % (new, old)


def archive(name):
    return 'ARCHIVE ?c WHERE { ?c CONCEPT {name: "%s"} }' % name


def tombstone(name):
    return 'TOMBSTONE ?c WHERE { ?c CONCEPT {name: "%s"} }' % name


def merge(src, dst):
    return ('MERGE CONCEPT ?source INTO ?target WHERE { ?source CONCEPT {name: "%s"} ?target CONCEPT {name: "%s"} }' % (src, dst))


def retract_one():
    return 'RETRACT ASSERTION ?a WHERE { ?a ASSERTION {stance: "support"} } LIMIT 1'


def supersede(person, pref, conf):
    return ('MUTATE {\n'
            ' UPSERT CONCEPT ?a { MATCH {type: "Person", key: "person:%s"} SET FIELDS {name: "%s"} }\n'
            ' UPSERT CONCEPT ?d { MATCH {type: "Preference", key: "pref:%s"} SET FIELDS {name: "%s"} }\n'
            ' ENSURE PROPOSITION ?p (?a, "prefers", ?d)\n'
            ' CREATE ASSERTION ?new { SET FIELDS { proposition: ?p, asserted_by: ?a, stance: "support", mode: "stated", confidence: %s } }\n'
            ' SUPERSEDE ASSERTION "$nth(assertion,0)" BY ?new\n'
            '}' % (person, person.capitalize(), pref, pref, conf))


def chain():
    """S1 -> S2 -> S3 -> S4 through the non-functional predicate "mentions"."""
    return ('MUTATE {\n'
            ' UPSERT CONCEPT ?a { MATCH {type: "Service", key: "svc:1"} SET FIELDS {name: "S1"} }\n'
            ' UPSERT CONCEPT ?b { MATCH {type: "Service", key: "svc:2"} SET FIELDS {name: "S2"} }\n'
            ' UPSERT CONCEPT ?c { MATCH {type: "Service", key: "svc:3"} SET FIELDS {name: "S3"} }\n'
            ' UPSERT CONCEPT ?d { MATCH {type: "Service", key: "svc:4"} SET FIELDS {name: "S4"} }\n'
            ' ENSURE PROPOSITION ?ab (?a, "mentions", ?b)\n'
            ' ENSURE PROPOSITION ?bc (?b, "mentions", ?c)\n'
            ' ENSURE PROPOSITION ?cd (?c, "mentions", ?d)\n'
            '}')


def cut_link(removal, frm, to):
    """ARCHIVE / TOMBSTONE one link of the chain (a Proposition leaves ordinary recall)."""
    return ('%s ?p WHERE { ?b CONCEPT {name: "%s"} ?c CONCEPT {name: "%s"} ?p PROPOSITION (?b, "mentions", ?c) }'
            % (removal, frm, to))


# ---- statements that must be refused (or have no effect), at different positions of the two-phase plan
def expect_version_fails(k):
    return 'UPSERT CONCEPT ?p { MATCH {type: "Person", key: "person:%s"} EXPECT VERSION 99 SET FIELDS {name: "Nope"} }' % k


def unknown_type_last(k):
    return ('MUTATE {\n %s\n CREATE CONCEPT ?z { TYPE "Spaceship" NAME "Enterprise" }\n}' % upsert_person(k, "Changed " + k))


def unknown_type_first(k):
    return ('MUTATE {\n CREATE CONCEPT ?z { TYPE "Spaceship" NAME "Enterprise" }\n %s\n}' % upsert_person(k, "Changed " + k))


def unknown_type_middle(k1, k2):
    return ('MUTATE {\n %s\n CREATE CONCEPT ?z { TYPE "Spaceship" NAME "Enterprise" }\n %s\n}'
            % (upsert_person(k1, "Changed " + k1), create_pref("never")))


def key_conflict_at_commit(k):
    """Every clause plans; only the commit-time identity pass sees that the key is taken."""
    return ('MUTATE {\n %s\n CREATE CONCEPT ?q { TYPE "Person" NAME "Impostor" SET FIELDS {key: "person:%s"} }\n}'
            % (update_summary("Alice", "touched"), k))


def purge_then_conflict(name, k):
    return ('MUTATE {\n PURGE "$id(%s)" CONFIRM "PURGE"\n'
            ' CREATE CONCEPT ?q { TYPE "Person" NAME "Impostor" SET FIELDS {key: "person:%s"} }\n}' % (name, k))


def unbound_handle():
    return 'MUTATE {\n CREATE CONCEPT ?a { TYPE "Person" NAME "Lonely" }\n ENSURE PROPOSITION ?p (?a, "prefers", ?nobody)\n}'


def forward_reference():
    return ('MUTATE {\n ENSURE PROPOSITION ?p (?a, "prefers", ?d)\n'
            ' CREATE CONCEPT ?a { TYPE "Person" NAME "Forward" }\n'
            ' CREATE CONCEPT ?d { TYPE "Preference" NAME "Fwd pref" }\n}')


def double_ensure_same_tuple(person, pref):
    return ('MUTATE {\n'
            ' UPSERT CONCEPT ?a { MATCH {type: "Person", key: "person:%s"} SET FIELDS {name: "%s"} }\n'
            ' UPSERT CONCEPT ?d { MATCH {type: "Preference", key: "pref:%s"} SET FIELDS {name: "%s"} }\n'
            ' ENSURE PROPOSITION ?p1 (?a, "prefers", ?d)\n'
            ' ENSURE PROPOSITION ?p2 (?a, "prefers", ?d)\n}' % (person, person.capitalize(), pref, pref))


def double_ensure_anonymous(person, pref, first_named=True):
    """The same NEW tuple twice in one block, one of the clauses without a handle."""
    first = ' ENSURE PROPOSITION ?p1 (?a, "prefers", ?d)\n' if first_named else ' ENSURE PROPOSITION (?a, "prefers", ?d)\n'
    return ('MUTATE {\n'
            ' UPSERT CONCEPT ?a { MATCH {type: "Person", key: "person:%s"} SET FIELDS {name: "%s"} }\n'
            ' UPSERT CONCEPT ?d { MATCH {type: "Preference", key: "pref:%s"} SET FIELDS {name: "%s"} }\n'
            '%s'
            ' ENSURE PROPOSITION (?a, "prefers", ?d)\n}' % (person, person.capitalize(), pref, pref, first))


def touch_twice(k):
    """One element changed by two clauses of a block: its version rises by exactly one."""
    return ('MUTATE {\n'
            ' UPSERT CONCEPT ?a { MATCH {type: "Person", key: "person:%s"} SET FIELDS {name: "%s twice"} }\n'
            ' UPSERT CONCEPT ?b { MATCH {type: "Person", key: "person:%s"} SET ATTRIBUTES {summary: "second clause"} }\n}'
            % (k, k.capitalize(), k))


def anon_ensure_then_fail(person, pref):
    """An anonymous ENSURE of a (possibly new) tuple followed by a clause that fails last: nothing may remain."""
    return ('MUTATE {\n'
            ' UPSERT CONCEPT ?a { MATCH {type: "Person", key: "person:%s"} SET FIELDS {name: "%s"} }\n'
            ' UPSERT CONCEPT ?d { MATCH {type: "Preference", key: "pref:%s"} SET FIELDS {name: "%s"} }\n'
            ' ENSURE PROPOSITION (?a, "prefers", ?d)\n'
            ' CREATE CONCEPT ?z { TYPE "Spaceship" NAME "Enterprise" }\n}' % (person, person.capitalize(), pref, pref))


def ensure_expect_version_fails(person, pref):
    return ('MUTATE {\n'
            ' UPSERT CONCEPT ?a { MATCH {type: "Person", key: "person:%s"} SET FIELDS {name: "%s"} }\n'
            ' UPSERT CONCEPT ?d { MATCH {type: "Preference", key: "pref:%s"} SET FIELDS {name: "%s"} }\n'
            ' ENSURE PROPOSITION ?p (?a, "prefers", ?d) EXPECT VERSION 99\n}' % (person, person.capitalize(), pref, pref))


def purge(name):
    return 'PURGE "$id(%s)" CONFIRM "PURGE"' % name


BATTERY = [
    'FIND(?c.name, ?c._system.version, ?c._system.state) WHERE { ?c CONCEPT {type: "Person"} } {coord} ORDER BY ?c.name',
    'FIND(?c) WHERE { ?c CONCEPT {type: "Preference"} } {coord} ORDER BY ?c.name',
    'FIND(COUNT(?c)) WHERE { ?c CONCEPT {} } {coord}',
    'FIND(?a.stance, ?a.confidence, ?a._system.state) WHERE { ?a ASSERTION {} } {coord} ORDER BY ?a.confidence',
    'FIND(?s.name, ?o.name) WHERE { (?s, "prefers", ?o) } {coord} ORDER BY ?s.name, ?o.name',
    'FIND(?exp.name, ?step.name) WHERE { STRUCTURAL (?exp, "has_step", ?step) } {coord} ORDER BY ?step.name',
    'FIND(?step.name) WHERE { ?exp CONCEPT {type: "Experience"} STRUCTURAL (?exp, "has_step", ?step) } {coord} ORDER BY ?step.name',
    'FIND(?c.name) WHERE { ?c CONCEPT {type: "Person"} FILTER(?c.name != "Bob") } {coord} ORDER BY ?c.name',
    'FIND(?c.name, ?c.attributes.summary) WHERE { ?c CONCEPT {type: "Person", state: "archived"} } {coord} ORDER BY ?c.name',
    'FIND(?e.payload) WHERE { ?e EVIDENCE {} } {coord} ORDER BY ?e.payload',
    'FIND(COUNT(?a)) WHERE { ?a ASSERTION {stance: "support"} } {coord}',
    'FIND(?s.name) WHERE { (?s, "prefers", ?o) ?o CONCEPT {name: "dark"} } {coord} ORDER BY ?s.name',
    'FIND(?a.stance) WHERE { ?a ASSERTION {confidence: 0.9} } {coord}',
    'FIND(?to.name) WHERE { ?from CONCEPT {name: "S1"} (?from, "mentions"{1,3}, ?to) } {coord} ORDER BY ?to.name',
    'FIND(?from.name) WHERE { ?to CONCEPT {name: "S4"} (?from, "mentions"{1,3}, ?to) } {coord} ORDER BY ?from.name',
    'FIND(?from.name, ?to.name) WHERE { (?from, "mentions"{1,3}, ?to) } {coord} ORDER BY ?from.name, ?to.name',
    'FIND(?from.name, ?to.name) WHERE { ?p PROPOSITION (?from, "mentions", ?to) } {coord} ORDER BY ?from.name',
    # a projected belief (fixed evaluation instant, so that only the coordinate decides the answer)
    'FIND(?b) WHERE { ?s CONCEPT {name: "Bob"} ?o CONCEPT {name: "dark"} ?p PROPOSITION (?s, "prefers", ?o) ?b BELIEF (?p) } '
    '{coord} FOR TIME "2027-01-01T00:00:00Z"',
    'FIND(?s.name, ?b.status) WHERE { ?p PROPOSITION (?s, "prefers", ?o) ?b BELIEF (?p) } {coord} FOR TIME "2027-01-01T00:00:00Z" '
    'ORDER BY ?s.name',
    'FIND(?c.name, ?st) WHERE { ?c CONCEPT {type: "Person", state: ?st} } {coord} ORDER BY ?c.name',
    'FIND(?a.confidence) WHERE { ?a ASSERTION {stance: "support", mode: "stated"} FILTER(?a.confidence > 0.5) } {coord} ORDER BY ?a.confidence',
]


def good_statements(rng):
    p = rng.choice(PERSONS)
    return rng.choice([
        upsert_person(p, p.capitalize()), upsert_person(p, p.capitalize() + " " + rng.choice("ABC")),
        create_pref(rng.choice(PREFS)), claim(p, rng.choice(PREFS), rng.choice(["0.9", "0.6", "0.3"])),
        claim(p, rng.choice(PREFS), "0.7", stance="oppose"),
        experience("Deploy " + rng.choice("XYZ"), ["Step one", "Step two"][: rng.randrange(1, 3)]),
        update_summary(p.capitalize(), "rev " + str(rng.randrange(100))), rename(p.capitalize(), p.capitalize() + " R."),
        archive(p.capitalize()), tombstone(p.capitalize()), retract_one(), supersede(p, rng.choice(PREFS), "0.95"),
        merge(p.capitalize(), rng.choice(PERSONS).capitalize()), forward_reference(), chain(), touch_twice(p),
        cut_link(rng.choice(["ARCHIVE", "TOMBSTONE"]), *rng.choice([("S1", "S2"), ("S2", "S3"), ("S3", "S4")])),
    ])


def bad_statements(rng):
    p = rng.choice(PERSONS)
    return rng.choice([
        expect_version_fails(p), unknown_type_last(p), unknown_type_first(p), unknown_type_middle(p, rng.choice(PERSONS)),
        key_conflict_at_commit(p), create_person(p, "Dup " + p), unbound_handle(), double_ensure_same_tuple(p, rng.choice(PREFS)),
        double_ensure_anonymous(p, rng.choice(PREFS), rng.random() < 0.5),
        anon_ensure_then_fail(p, rng.choice(PREFS)), ensure_expect_version_fails(p, rng.choice(PREFS)),
        purge_then_conflict(p.capitalize(), rng.choice(PERSONS)),
    ])


def gen_history(rng, name, n, with_purge=False, bad_ratio=0.35):
    stmts = [{"text": upsert_person("alice", "Alice")}, {"text": claim("bob", "dark", "0.9")}]
    for _ in range(n):
        r = rng.random()
        if r < bad_ratio:
            t = bad_statements(rng)
            while not with_purge and "PURGE" in t:
                # a purge block commits when its other clause happens not to conflict - and a purge may remove the past
                t = bad_statements(rng)
            stmts.append({"text": t})
        elif r < bad_ratio + 0.1:
            stmts.append({"text": good_statements(rng), "dry": True})
        elif with_purge and r < bad_ratio + 0.16:
            stmts.append({"text": purge(rng.choice(PERSONS).capitalize())})
        else:
            stmts.append({"text": good_statements(rng)})
    return {"name": name, "stmts": stmts, "battery": BATTERY, "replay": not with_purge}
