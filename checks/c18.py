"""C18 - Reading AS OF a past point returns what was current then."""
import json
import random
import time

import vlib
from checks import nexus_gen as g
from checks import c17

PROP = "C18"


def histories(tier):
    rng = random.Random(vlib.seed() + 18)
    hs = []
    # every later-mutation kind after a recorded point: update, rename, archive, tombstone, retract, supersede, merge
    base = [g.upsert_person('alice', 'Alice'), g.claim('bob', 'dark', '0.9'), g.claim('carol', 'light', '0.6', 'oppose'),
            g.experience('Deploy X', ['Step one', 'Step two']), g.upsert_person('dave', 'Dave')]
    later = [g.update_summary('Alice', 'rev 1'), g.rename('Alice', 'Alice R.'), g.retract_one(),
             g.supersede('bob', 'dark', '0.95'), g.archive('Carol'), g.archive('Deploy X'), g.tombstone('Step one'),
             g.merge('Dave', 'Bob'), g.claim('alice', 'tabs', '0.3'), g.unknown_type_last('alice'),
             g.tombstone('Bob'), g.archive('dark')]
    for removal in ("ARCHIVE", "TOMBSTONE"):
        for link in (("S1", "S2"), ("S2", "S3"), ("S3", "S4")):
            hs.append({"name": f"path-{removal}-{link[0]}", "battery": g.BATTERY, "replay": True,
                       "stmts": [{"text": t} for t in [g.chain(), g.cut_link(removal, *link),
                                                        g.update_summary('S1', 'revised'), g.archive('S4')]]})
    hs.append({"name": "every-later-kind", "stmts": [{"text": t} for t in base + later], "battery": g.BATTERY, "replay": True})
    for i, lt in enumerate(later):
        hs.append({"name": f"one-later-{i}", "stmts": [{"text": t} for t in base + [lt, g.update_summary('Bob', 'after')]],
                   "battery": g.BATTERY, "replay": True})
    n, length = (12, 10) if tier == "quick" else (160, 16)
    for i in range(n):
        hs.append(g.gen_history(rng, f"rand-{i}", length, with_purge=False, bad_ratio=0.15))
    return hs


def run(tier):
    t0 = time.time()
    vlib.build_harness()
    wd = vlib.workdir("c18-" + tier)
    n_viol = 0
    hs = histories(tier)
    stats, failures = c17.run_histories(PROP, hs, wd, "hist", "hist")
    vlib.log(f"[C18] T histories: {stats['histories']} histories, {stats['statements']} statements, "
             f"{stats['queries']} battery queries (live + AS OF SEQ / TX / TIME), {stats['states']} states, "
             f"failures={len(failures)}")
    for fl in failures[:8]:
        vlib.violation(PROP, {"property": PROP, "kind": "trace", "spec": fl.get("spec"), "tag": fl["tag"],
                              "reason": fl["reason"], "line_in_trace": fl["line_in_trace"], "event": fl["event"],
                              "header": fl["header"], "trace": fl["trace"]})
        n_viol += 1
    cov = {
        "states": stats["states"],
        "transitions": stats["events"],
        "traces_validated_against_impl": stats["histories"],
        "evaluations": stats["queries"],
        "distinct_nontrivial": stats["statements"],
        "rule": "T: histories of committed statements (create / upsert / update / rename / archive / tombstone / retract / "
                "supersede / merge, plus refused ones) on a fresh nexus; after every commit a battery of 21 queries "
                "(element, tuple, structural, joined structural, filter, explicit-state, aggregate, ordered, hop-quantified path and projected-belief "
                "patterns) is recorded live (History.tla: Commit); after EVERY later statement every earlier point is "
                "replayed AS OF SEQ s, and every third statement also AS OF TX and AS OF TIME of that point: each "
                "answer must be AsOf(s) (byte-equal result digests); AppendOnly as a temporal property; the epistemic "
                "payload of every assertion / evidence record is compared across all versions of its version log",
        "samples": [{"first_events": stats.get("sample")}],
        "exhaustive": False,
        "histories": stats["histories"], "battery_queries": stats["queries"],
    }
    vlib.write_evidence(PROP, tier, "exploration", cov, time.time() - t0, n_viol, assumptions=[
        "purges are excluded from these histories (only an explicit purge may remove the past)",
        "schema activation between points (resolution under the schema environment of that point) is not exercised",
        "two belief projections are in the battery (fixed FOR TIME instant); slot projections are not",
    ])
    vlib.cleanup(wd)
    return n_viol


def replay(payload):
    payload.setdefault("spec", "HistoryTrace")
    return c17.replay(payload)
