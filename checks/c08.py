"""C08 - Wrapper writes are atomic under crashes; garbage collection is safe."""
import json
import os
import time

import vlib
from checks import collection_common as cc

PROP = "C08"


def _drive(mode, wd, env=None):
    t = os.path.join(wd, f"{mode}.ndjson")
    s = os.path.join(wd, f"{mode}.json")
    rc, text = vlib.run_bin("drive_sidecar", [mode, t, s], timeout=2400, env=env)
    if rc != 0:
        print(text[-3000:])
        raise vlib.ToolError("drive_sidecar failed (panic in the harness or in the code under test)")
    vlib.log(text.strip().splitlines()[-1])
    with open(s) as f:
        st = json.load(f)
    res = cc.validate_file(t, wd, mode, cfg="SidecarTrace.cfg", module="SidecarTrace")
    with open(t) as f:
        head = [next(f) for _ in range(12)]
    st["sample"] = [json.loads(x) for x in head[2:]]
    os.remove(t)
    st.update(states=res["states"], failures=res["failures"])
    return st


def run(tier):
    t0 = time.time()
    vlib.build_harness()
    wd = vlib.workdir("c08-" + tier)
    n_viol = 0
    mc = vlib.run_tlc("MC_Sidecar", f"MC_Sidecar_{tier}.cfg", wd, workers=12, timeout=2400, heap="14g",
                      out_name="mc.out", allow_violation=True)
    vlib.log(f"[C08] X MC_Sidecar_{tier}.cfg: {mc['states']} states, violated={mc['violated']}")
    if mc["violated"]:
        with open(mc["out"], errors="replace") as f:
            tail = f.read()[-5000:]
        vlib.violation(PROP, {"property": PROP, "kind": "model", "cfg": f"MC_Sidecar_{tier}.cfg", "tail": tail})
        n_viol += 1
    elif mc["rc"] != 0:
        raise vlib.ToolError("TLC failed on MC_Sidecar")
    # stores inherited from the pre-0.10 layout: every subset of keys starting as a legacy commit point
    # (pointer without generation + data/<k>) or as an orphaned legacy payload
    mcl = vlib.run_tlc("MC_Sidecar", f"MC_Sidecar_legacy_{tier}.cfg", wd, workers=12, timeout=2400, heap="14g",
                       out_name="mcl.out", allow_violation=True)
    vlib.log(f"[C08] X MC_Sidecar_legacy_{tier}.cfg: {mcl['states']} states, violated={mcl['violated']}")
    if mcl["violated"]:
        with open(mcl["out"], errors="replace") as f:
            tail = f.read()[-5000:]
        vlib.violation(PROP, {"property": PROP, "kind": "model", "cfg": f"MC_Sidecar_legacy_{tier}.cfg", "tail": tail})
        n_viol += 1
    elif mcl["rc"] != 0:
        raise vlib.ToolError("TLC failed on MC_Sidecar (legacy cfg)")
    crash = _drive("crash", wd)
    gcc = _drive("gcconc", wd, env={"VERIF_CONC_CAP": "150" if tier == "quick" else "1500"})
    for name, st in (("crash", crash), ("gcconc", gcc)):
        vlib.log(f"[C08] T {name}: traces={st['traces']} points={st['points']} states={st['states']} "
                 f"failures={len(st['failures'])}")
        for fl in st["failures"]:
            vlib.violation(PROP, {"property": PROP, "kind": "trace", "mode": name, "tag": fl["tag"],
                                  "reason": fl["reason"], "line_in_trace": fl["line_in_trace"], "event": fl["event"],
                                  "trace": fl["trace"]})
            n_viol += 1
    cov = {
        "states": mc["states"] + mcl["states"] + crash["states"] + gcc["states"],
        "transitions": mc["generated"] + mcl["generated"],
        "traces_validated_against_impl": crash["traces"] + gcc["traces"],
        "evaluations": crash["traces"] + gcc["traces"],
        "distinct_nontrivial": crash["points"] + gcc["points"],
        "rule": "X: every interleaving of 2 writers (put / copy / delete on 2 keys) with the collector and crashes in "
                "Sidecar.tla (PointerValid, Immutable in every state), and the same from every initial store "
                "in which any subset of the keys is a legacy (pre-0.10) object or an orphaned legacy payload. T crash: "
                "for both wrappers and 9 operation sequences (put, multipart, copy, rename, delete, collect_garbage; 5 "
                "of them over hand-planted legacy objects: migration by overwrite, copy/rename from and onto legacy "
                "keys, delete, orphans) a power loss after EVERY inner "
                "mutation, then cold read+list of every key, collect_garbage, read again, write again. T gcconc: "
                "collect_garbage interleaved with 1-2 in-process writers (15 scenarios, 6 over legacy objects), all release orders of the parked inner calls "
                "and call positions (capped), then cold read, another collection, cold read. distinct_nontrivial = "
                "crash points + schedules",
        "samples": [{"crash_first_events": crash["sample"]}],
        "exhaustive": True,
        "model_checking": {"cfg": f"MC_Sidecar_{tier}.cfg", "states": mc["states"], "transitions": mc["generated"]},
        "model_checking_legacy": {"cfg": f"MC_Sidecar_legacy_{tier}.cfg", "states": mcl["states"],
                                  "transitions": mcl["generated"]},
        "crash_points": crash["points"],
        "gc_schedules": gcc["points"],
        "trace_events": crash["events"] + gcc["events"],
    }
    vlib.write_evidence(PROP, tier, "model_checking", cov, time.time() - t0, n_viol, assumptions=[
        "each inner-store mutation is atomic; multipart uploads are one inner mutation at complete",
        "legacy (pre-0.10) objects are planted by the driver in the serialization shape of the crate's own tests "
        "(MetaStore: s/e/o/v document; EncryptedStore: unauthenticated document, empty chunk AAD); sealed 0.9.x "
        "documents without a generation are not planted",
        "the collector's time floor is modelled by minting order in Sidecar.tla; in the traces a collected generation "
        "must have been written by an operation called before the collector (the driver sleeps 2 ms before every "
        "collection)",
    ])
    vlib.cleanup(wd)
    return n_viol


def replay(payload):
    wd = vlib.workdir("c08-replay")
    p = os.path.join(wd, "t.ndjson")
    with open(p, "w") as f:
        for ev in payload["trace"]:
            f.write(json.dumps(ev, separators=(",", ":")) + "\n")
    res = cc.validate_file(p, wd, "replay", cfg="SidecarTrace.cfg", module="SidecarTrace", max_failures=0)
    for fl in res["failures"]:
        print("REJECTED:", fl["reason"], "at line", fl["line_in_trace"], json.dumps(fl["event"])[:300])
    return 1 if res["failures"] else 0
