"""C09 - Encrypted store: tampering is detected, plaintext never reaches the backend."""
import json
import os
import time

import vlib

PROP = "C09"


def run(tier):
    t0 = time.time()
    vlib.build_harness()
    wd = vlib.workdir("c09-" + tier)
    n_viol = 0
    mc = vlib.run_tlc("MC_Encrypted", "MC_Encrypted.cfg", wd, workers=8, timeout=900, heap="4g", out_name="mc.out",
                      extra=["-coverage", "1"], allow_violation=True)
    if mc["violated"]:
        with open(mc["out"], errors="replace") as f:
            tail = f.read()[-4000:]
        vlib.violation(PROP, {"property": PROP, "kind": "model", "cfg": "MC_Encrypted.cfg", "tail": tail})
        n_viol += 1
    elif mc["rc"] != 0:
        raise vlib.ToolError("TLC failed on MC_Encrypted")
    # vacuity: every tamper action of the model must have been taken
    untaken = []
    with open(mc["out"], errors="replace") as f:
        for line in f:
            if line.startswith("<Act ") and line.rstrip().endswith(": 0:0"):
                untaken.append(line.strip())
    if untaken:
        raise vlib.ToolError("tamper actions never taken in MC_Encrypted: " + "; ".join(untaken[:3]))
    out = os.path.join(wd, "enc.json")
    rc, text = vlib.run_bin("drive_encrypted", [out], timeout=2400,
                            env={"VERIF_THREADS": "12"})
    if rc != 0 or not os.path.exists(out):
        print(text[-3000:])
        raise vlib.ToolError("drive_encrypted failed (panic in the harness or in the code under test)")
    vlib.log(text.strip().splitlines()[-1])
    with open(out) as f:
        r = json.load(f)
    if r["n_wrong"]:
        vlib.violation(PROP, {"property": PROP, "kind": "tamper", "total": r["n_wrong"], "wrong": r["wrong"][:40],
                              "how": "harness/target/debug/drive_encrypted <out.json> re-runs the whole (deterministic) sweep"})
        n_viol += r["n_wrong"]
    n_known = 0
    if r.get("n_empty_forgery"):
        known = {k["matcher"]: k for k in vlib.findings_for(PROP)}
        if "compat_empty_object_forgery" in known:
            vlib.known(PROP, f"{known['compat_empty_object_forgery']['what']} (observed: {r['n_empty_forgery']} reads, "
                             f"e.g. {json.dumps(r['empty_forgery'][0])[:300]})")
            n_known = r["n_empty_forgery"]
        else:
            vlib.violation(PROP, {"property": PROP, "kind": "tamper", "total": r["n_empty_forgery"],
                                  "wrong": r["empty_forgery"], "how": "drive_encrypted (empty legacy object forgery)"})
            n_viol += r["n_empty_forgery"]
    if r["backend_problems"]:
        vlib.violation(PROP, {"property": PROP, "kind": "backend", "problems": r["backend_problems"][:20]})
        n_viol += len(r["backend_problems"])
    cov = {
        "states": mc["states"],
        "transitions": mc["generated"],
        "traces_validated_against_impl": r["tampers"],
        "evaluations": r["reads"],
        "distinct_nontrivial": r["tampers"],
        "rule": "X: every single-site tamper action of Encrypted.tla (field flip, re-point, strip, document swap between "
                "keys and generations, payload swap, chunk flip / swap / foreign chunk, truncate, extend) on a symbolic "
                "history, ReadOriginalOrFail and NonceUnique in every state, every action taken at least once. R: the "
                "classes concretised on a real EncryptedStore (8 keys: sizes 0, 7, 8, 10->21, 15, 21; single + multipart "
                "uploads, copy, rename, one replaced commit kept by the attacker) plus EVERY byte x 8 bit flips and every "
                "truncation of every backend object, plus the compound DOWNGRADE to the legacy layout (authentication "
                "fields and generation pointer stripped, with / without the fields that betray it; ciphertext copied "
                "or moved to data/<key>; then size and tag list cut to n chunks, or the pair served under every other "
                "key); after each, get / 6 ranged gets / get_ranges / head / list on a "
                "cold, a list-first, a strict and a warm-cache instance; distinct_nontrivial = number of distinct tampered "
                "backends",
        "samples": [{"classes": r["classes"], "backend_objects": r["backend_objects"][:6]}],
        "exhaustive": True,
        "tamper_classes": r["classes"],
        "answered_original": r["answered_original"],
        "failed_reads": r["failed"],
        "wrong_answers": r["n_wrong"],
        "known_findings_seen": n_known,
        "legacy_metadata_reports_not_judged": r.get("legacy_meta_reports", 0),
    }
    vlib.write_evidence(PROP, tier, "model_checking", cov, time.time() - t0, n_viol, assumptions=[
        "AES-GCM/GMAC are unforgeable (cryptographic strength is assumed, coverage of the authentication structure is checked)",
        "a whole sealed document of an earlier commit of the SAME key put back together with its surviving payload "
        "(rollback) returns that earlier commit: accepted as originally written bytes",
        "chunk size 7; compatibility and strict mode",
        "a document stripped of every field the sealed format added is indistinguishable from genuine legacy metadata: "
        "in compatibility mode what head / list REPORT for it (size, token) is not judged, the bytes reads return are",
    ])
    vlib.cleanup(wd)
    return n_viol


def replay(payload):
    vlib.build_harness()
    wd = vlib.workdir("c09-replay")
    out = os.path.join(wd, "enc.json")
    rc, text = vlib.run_bin("drive_encrypted", [out], timeout=2400)
    print(text.strip().splitlines()[-1])
    with open(out) as f:
        r = json.load(f)
    for x in r["wrong"][:10]:
        print(json.dumps(x))
    return 1 if r["n_wrong"] or r["backend_problems"] else 0
