"""C05 - Concurrent writers serialize: nothing lost, nothing doubled, state converges."""
import json
import os
import random
import time

import vlib
from checks import collection_common as cc

PROP = "C05"
IDX = ["k", "t", "v"]
# prefix: doc1 = value 1 (k=1), doc2 = value 2 (k=2), doc3 = value 4 (no key); flushed
P0 = [{"op": "add", "val": 1}, {"op": "add", "val": 2}, {"op": "add", "val": 4}, {"op": "flush"}]
P0_DOCS = [[1, 1], [2, 2], [3, 4]]
# same, with un-checkpointed mutations pending
P1 = P0 + [{"op": "update", "id": 2, "val": 5}, {"op": "ext", "x": 2}]


def U(i, v): return {"op": "update", "id": i, "val": v}
def R(i): return {"op": "remove", "id": i}
def A(v): return {"op": "add", "val": v}
def G(i): return {"op": "get", "id": i}
FL = {"op": "flush"}
def X(x): return {"op": "ext", "x": x}


PAIRS = [
    # same document
    [U(1, 5), U(1, 6)], [U(1, 5), R(1)], [R(1), R(1)], [R(1), U(1, 5)],
    [G(1), U(1, 5)], [U(1, 5), G(1)], [G(1), R(1)], [R(1), G(1)],
    # different documents, unique-key contention
    [U(1, 5), U(2, 6)], [A(3), U(1, 5)], [U(1, 5), A(3)], [A(3), A(3)], [A(5), A(6)], [A(6), R(2)],
    [U(3, 3), R(1)], [U(1, 6), R(2)], [U(3, 1), U(1, 5)],
    # with flush / extensions
    [A(5), FL], [FL, A(5)], [U(1, 5), FL], [FL, U(1, 5)], [R(2), FL], [X(3), FL], [X(3), X(4)], [A(5), X(3)],
    [FL, FL], [G(2), FL],
]
TRIPLES = [
    [U(1, 5), R(1), G(1)], [A(3), A(3), R(1)], [U(1, 5), U(1, 6), FL], [A(5), A(6), FL], [R(1), R(1), A(3)],
    [G(1), U(1, 5), R(1)], [U(1, 5), U(2, 6), A(3)], [X(3), A(5), FL], [R(2), A(6), U(1, 6)],
]


def scenarios(tier, seed):
    out = []
    for procs in PAIRS:
        out.append({"init_idx": IDX, "prefix": P0, "procs": procs, "post_reads": True})
    # cold caches: every first read goes to the backend (both park points of the read are scheduled)
    for procs in PAIRS[:12]:
        out.append({"init_idx": IDX, "prefix": P0, "procs": procs, "post_reads": True, "cold": True,
                    "cold_docs": P0_DOCS})
    for procs in PAIRS[8:20]:
        out.append({"init_idx": IDX, "prefix": P1, "procs": procs, "post_reads": False})
    n_sample = 60 if tier == "quick" else 600
    for procs in TRIPLES:
        out.append({"init_idx": IDX, "prefix": P0, "procs": procs, "post_reads": False, "sample": n_sample})
    if tier == "thorough":
        for procs in TRIPLES:
            out.append({"init_idx": IDX, "prefix": P0, "procs": procs, "post_reads": True, "cold": True,
                        "cold_docs": P0_DOCS, "sample": n_sample})
        rng = random.Random(seed)
        ops = [U(1, 5), U(1, 6), U(2, 6), U(3, 3), R(1), R(2), A(3), A(5), A(6), G(1), G(2), FL, X(3)]
        for _ in range(40):
            out.append({"init_idx": IDX, "prefix": P0, "procs": rng.sample(ops, 4), "post_reads": False, "sample": 150})
    return out


def run_conc(prop, tier, sc, wd, label, rule, assumptions, t0, extra_cov=None):
    st = cc.drive_and_validate(label, sc, "", wd, label, cfg="CollectionConcTrace.cfg", driver="drive_conc",
                               module="CollectionConcTrace")
    n_exh = sum(1 for s in st["per_scenario"] if s["exhaustive"])
    vlib.log(f"[{prop}] T {label}: scenarios={st['scenarios']} (exhaustively enumerated: {n_exh}) schedules={st['traces']} "
             f"states={st['states']} failures={len(st['failures'])}")
    n_viol = 0
    for fl in st["failures"]:
        s = sc[fl["tag"]["s"]]
        vlib.violation(prop, {"property": prop, "kind": "trace", "tag": fl["tag"], "scenario": s,
                              "reason": fl["reason"], "line_in_trace": fl["line_in_trace"], "event": fl["event"],
                              "trace": fl["trace"], "module": "CollectionConcTrace"})
        n_viol += 1
    cov = {
        "states": st["states"],
        "transitions": st["states"],
        "traces_validated_against_impl": st["traces"],
        "evaluations": st["traces"],
        "distinct_nontrivial": st["traces"],
        "rule": rule,
        "samples": [{"first_events": st["sample"]}],
        "exhaustive": n_exh == st["scenarios"],
        "scenarios": st["scenarios"],
        "scenarios_enumerated_exhaustively": n_exh,
        "trace_events": st["events"],
    }
    if extra_cov:
        cov.update(extra_cov)
    vlib.write_evidence(prop, tier, "model_checking", cov, time.time() - t0, n_viol, assumptions=assumptions)
    return n_viol


def run(tier):
    t0 = time.time()
    vlib.build_harness()
    wd = vlib.workdir(f"c05-{tier}")
    sc = scenarios(tier, vlib.seed())
    n = run_conc(PROP, tier, sc, wd, "conc",
                 "one trace per schedule: for every pair of operations of the lists in checks/c05.py (same-document, "
                 "unique-key contention, with flush / extension writers; warm and cold caches) ALL release orders of "
                 "the parked backend calls are enumerated by a stateless DFS (reads park twice: before and after the "
                 "backend answered); triples (thorough: also 4 operations) by a seeded random sample of schedules. "
                 "Every schedule is distinct by construction; every trace ends with a full-state observation",
                 ["single-threaded executor: a task runs atomically from one backend call to the next (the grain of "
                  "CollectionConc.tla); multi-threaded executions are not enumerated",
                  "id allocation is checked for freshness, monotonicity w.r.t. returned adds and watermark coverage, "
                  "not for the exact counter value (the lock-free fetch_add leaves no trace)"], t0)
    vlib.cleanup(wd)
    return n


def replay(payload):
    wd = vlib.workdir("c05-replay")
    p = os.path.join(wd, "t.ndjson")
    with open(p, "w") as f:
        for ev in payload["trace"]:
            f.write(json.dumps(ev, separators=(",", ":")) + "\n")
    res = cc.validate_file(p, wd, "replay", cfg="CollectionConcTrace.cfg", module="CollectionConcTrace", max_failures=0)
    for fl in res["failures"]:
        print("REJECTED:", fl["reason"], "at line", fl["line_in_trace"], json.dumps(fl["event"])[:300])
    return 1 if res["failures"] else 0
