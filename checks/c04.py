"""C04 - Unique constraints always hold; a rejected write leaves no trace."""
import vlib
from checks import collection_common as cc
from checks import c10

PROP = "C04"
OPS = ["add", "add", "update", "update", "remove", "flush"]


def _threads(tier, wd):
    """Thread-level contention for one unique value: BTreeConc.tla with Uniq = TRUE exhaustively, and the real
    BTreeIndex under every schedule at its yield points (validated against BTreeConcTrace)."""
    c = c10._conc(tier, wd, groups=["uniq", "uprobe"], cfgs=["MC_BTreeConc_uniq.cfg"])
    vlib.log(f"[C04] X/T threads: model {c['mc_states']} states; {c['schedules']} schedules, {c['events']} events, "
             f"failures={len(c['failures'])}")
    n = 0
    for mv in c["mc_violated"]:
        vlib.violation(PROP, {"property": PROP, "kind": "model", **mv})
        n += 1
    for fl in c["failures"][:8]:
        vlib.violation(PROP, {"property": PROP, "kind": "trace", "spec": fl.get("spec", "none"), "tag": fl["tag"],
                              "reason": fl["reason"], "line_in_trace": fl["line_in_trace"], "event": fl["event"],
                              "header": fl["header"], "trace": fl["trace"]})
        n += 1
    return n, {"states": c["mc_states"] + c["states"], "traces": c["schedules"],
               "thread_schedules": c["schedules"], "thread_model_states": c["mc_states"]}


def run(tier):
    if tier == "quick":
        mc = ["MC_Collection_c04.cfg"]
        plan = [("unique", 8, 9, OPS, "crash", 0.5),
                ("unique", 25, 16, OPS + ["reopen"], "clean", 0.5),
                ("multi", 10, 14, OPS + ["reopen"], "clean", 0.5)]
    else:
        mc = ["MC_Collection_c04.cfg", "MC_Collection_thorough.cfg"]
        plan = [("unique", 80, 12, OPS, "crash", 0.5),
                ("multi", 100, 18, OPS + ["reopen"], "clean", 0.5),
                ("multi", 20, 10, OPS, "crash", 0.5),
                ("unique", 300, 20, OPS + ["reopen"], "clean", 0.5),
                ("unique", 4, 7, OPS, "nested", 0.5)]
    return cc.run_property(
        PROP, tier, mc, plan,
        "X: UniqueHolds in EVERY state (not only quiescent) and UniqueDocs, with rejected adds/updates "
        "(AddReject/UpdReject leave all variables unchanged) and crashes. T: rejection-heavy workloads; a return "
        "value must be a rejection exactly when the spec says the value is owned (AddReject/UpdReject are the only "
        "actions matching a failed return), and the observation after every rejected call must equal the unchanged "
        "spec state; crash points of such histories. Threads: BTreeConc.tla with Uniq = TRUE (UniqueHolds in every "
        "state of every interleaving at the yield points of BTreeIndex::insert/remove) and 2-3 real threads claiming "
        "/ releasing one unique value under every schedule, each step validated against BTreeConcTrace",
        ["sequential callers (concurrent writers: C05 / C10)",
         "unique scalar field k (values 1 and 3, 2 and 6 collide) and, in group multi, the always-unique multi-field "
         "index c = (a, b) (two documents of the same value collide) next to an array-valued index"],
        extra=_threads)


def replay(payload):
    if payload.get("spec") == "BTreeConcTrace":
        return c10.replay(payload)
    return cc.replay(payload)
