"""C04 - Unique constraints always hold; a rejected write leaves no trace."""
from checks import collection_common as cc

PROP = "C04"
OPS = ["add", "add", "update", "update", "remove", "flush"]


def run(tier):
    if tier == "quick":
        mc = ["MC_Collection_c04.cfg"]
        plan = [("unique", 8, 9, OPS, "crash", 0.5),
                ("unique", 25, 16, OPS + ["reopen"], "clean", 0.5)]
    else:
        mc = ["MC_Collection_c04.cfg", "MC_Collection_thorough.cfg"]
        plan = [("unique", 80, 12, OPS, "crash", 0.5),
                ("unique", 300, 20, OPS + ["reopen"], "clean", 0.5),
                ("unique", 4, 7, OPS, "nested", 0.5)]
    return cc.run_property(
        PROP, tier, mc, plan,
        "X: UniqueHolds in EVERY state (not only quiescent) and UniqueDocs, with rejected adds/updates "
        "(AddReject/UpdReject leave all variables unchanged) and crashes. T: rejection-heavy workloads; a return "
        "value must be a rejection exactly when the spec says the value is owned (AddReject/UpdReject are the only "
        "actions matching a failed return), and the observation after every rejected call must equal the unchanged "
        "spec state; crash points of such histories. Thread-level contention is decided by C10's BTreeConc model",
        ["sequential callers (concurrent writers: C05 / C10)",
         "unique scalar field k (values 1 and 3, 2 and 6 collide); multi-field indexes share the same B-tree path"])


def replay(payload):
    return cc.replay(payload)
