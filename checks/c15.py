"""C15 - KIP parsing is total, bounded, deterministic and classifies by content.

X/R lexical:  MC_KipBudget.tla enumerates EVERY word of length N over the scanner alphabet with the peak nesting after
              every prefix (KipBudget.tla: strings, escapes, `//` comments, matching closers); drive_kip `lex` scales the
              brackets of each word to just below / at / far above the limit of 64 and requires the resource refusal of
              all five entry points exactly where the specification says so.
X/R grammar:  MC_KipGrammar.tla enumerates abstract syntax trees of every clause / pattern family of KQL, KML and META,
              nesting towers around and far beyond the limit, the length limit, "one command, whole input" wrappers and
              token-level mutations; KipGrammar.tla computes tokens, class, validity, shape and nesting; drive_kip `tree`
              renders tokens to text and compares parse_kip / parse_kql / parse_kml / parse_meta, validate_command, the
              serde round trip and the metamorphic spellings (keyword case, whitespace, comments) against them.
side check:   a seeded random-string / character-mutation smoke run (totality and agreement only).
"""
import json
import os
import time

import vlib

PROP = "C15"
ALPHA = ["lp", "lb", "rp", "rb", "q", "bs", "sl", "nl", "x"]      # MC_KipBudget!Alpha
KNOWN_RECURSION = "ast_json_recursion_limit"


def _driver(mode, path, timeout, env=None):
    e = {"C15_JOBS": os.environ.get("C15_JOBS", "8")}
    if env:
        e.update(env)
    rc, text = vlib.run_bin("drive_kip", ["run", mode, path], timeout=timeout, env=e)
    lines = []
    for l in text.splitlines():
        if l.startswith("{"):
            try:
                lines.append(json.loads(l))
            except ValueError:
                pass
    errs = [x for x in lines if "tool_error" in x]
    if rc != 0 or errs:
        print(text[-2000:])
        raise vlib.ToolError(f"drive_kip run {mode} failed: {errs[0]['tool_error'] if errs else 'rc=%d' % rc}")
    summ = [x for x in lines if x.get("summary")]
    if not summ:
        print(text[-2000:])
        raise vlib.ToolError(f"drive_kip run {mode} printed no summary")
    summ = summ[-1]
    if summ.get("skipped_after_too_many_crashes"):
        vlib.log(f"[C15] note: {summ['skipped_after_too_many_crashes']} {mode} cases skipped after 300 crashes of one worker")
    return summ, [x for x in lines if "mismatch" in x]


def _lex(tier, wd):
    res = vlib.run_tlc("MC_KipBudget", f"MC_KipBudget_{tier}.cfg", wd, workers=12, timeout=2400, heap="8g", out_name="lex.out")
    path = os.path.join(wd, "lex.jsonl")
    n = 0
    sample = None
    with open(path, "w") as f:
        f.write(json.dumps({"alpha": ALPHA}) + "\n")
        for body in vlib.tlc_printed(res["out"], "REPLAY"):
            f.write(body + "\n")
            n += 1
            if n == 4242:
                sample = json.loads(body)
    if n == 0:
        raise vlib.ToolError("MC_KipBudget printed no cases")
    os.remove(res["out"])
    summ, mm = _driver("lex", path, 3000)
    if summ["planned"] != n:
        raise vlib.ToolError("drive_kip lex did not see every case")
    return {"tlc": res, "words": n, "summary": summ, "mismatches": mm, "sample": sample, "path": path}


def _grammar(tier, wd, smoke_n):
    res = vlib.run_tlc("MC_KipGrammar", f"MC_KipGrammar_{tier}.cfg", wd, workers=12, timeout=3000, heap="8g",
                       out_name="gram.out", java_opts=["-Xss256m"])
    trees = [json.loads(x) for x in vlib.tlc_printed(res["out"], "REPLAY")]
    muts = [json.loads(x) for x in vlib.tlc_printed(res["out"], "MUT")]
    tabs = list(vlib.tlc_printed(res["out"], "TABLE"))
    if not trees or not muts or not tabs:
        raise vlib.ToolError("MC_KipGrammar printed no cases / no table")
    table = json.loads(tabs[0])
    trees.sort(key=lambda c: c["id"])
    muts.sort(key=lambda m: (m["base"], json.dumps(m["m"])))
    path = os.path.join(wd, "tree.jsonl")
    with open(path, "w") as f:
        f.write(json.dumps({"table": table, "seed": vlib.seed(), "smoke_n": smoke_n}) + "\n")
        for c in trees:
            f.write(json.dumps(c) + "\n")
        for m in muts:
            f.write(json.dumps(m) + "\n")
    os.remove(res["out"])
    summ, mm = _driver("tree", path, 3000)
    if summ["planned"] != len(trees) + len(muts):
        raise vlib.ToolError("drive_kip tree did not see every case")
    ssumm, smm = _driver("smoke", path, 3000)
    return {"tlc": res, "trees": trees, "muts": muts, "table": table, "summary": summ, "mismatches": mm,
            "smoke": ssumm, "smoke_mismatches": smm, "path": path}


def _full_case(g, case):
    """Attach what replay needs: the tokens of the sentence (and of the base of a mutation)."""
    by_id = {c["id"]: c for c in g["trees"]}
    if isinstance(case, dict) and "id" in case and case["id"] in by_id:
        return by_id[case["id"]]
    if isinstance(case, dict) and "base" in case and case["base"] in by_id:
        m = next((m for m in g["muts"] if m["base"] == case["base"] and m["m"] == case["m"]), None)
        return {"mut": m or case, "base": by_id[case["base"]]}
    return case


def _size(m):
    c = m.get("case") or {}
    return (m.get("text_len") or 0, json.dumps(c.get("m", "")), c.get("id", 0) if isinstance(c, dict) else 0)


def run(tier):
    t0 = time.time()
    vlib.build_harness()
    wd = vlib.workdir("c15-" + tier)
    n_viol = 0
    smoke_n = 20000 if tier == "quick" else 1000000

    lx = _lex(tier, wd)
    vlib.log(f"[C15] X MC_KipBudget_{tier}.cfg: {lx['tlc']['states']} states; R lex: {lx['words']} words, "
             f"{lx['summary']['texts']} texts, {lx['summary']['parses']} parser calls, mismatches={len(lx['mismatches'])}")
    g = _grammar(tier, wd, smoke_n)
    verdicts = {}
    for c in g["trees"]:
        verdicts[c["verdict"]] = verdicts.get(c["verdict"], 0) + 1
    mverd = {}
    for m in g["muts"]:
        mverd[m["verdict"]] = mverd.get(m["verdict"], 0) + 1
    vlib.log(f"[C15] X MC_KipGrammar_{tier}.cfg: {g['tlc']['states']} states; R tree: {len(g['trees'])} sentences {verdicts}, "
             f"{len(g['muts'])} mutations {mverd}, {g['summary']['variants']} metamorphic spellings, "
             f"{g['summary']['parses']} parser calls, {g['summary']['accepted']} accepted trees re-validated and round-tripped, "
             f"crashes={g['summary']['crashes']}, mismatches={len(g['mismatches'])}")
    vlib.log(f"[C15] side check smoke: {g['smoke']['texts']} random strings / character mutations, "
             f"{g['smoke']['accepted']} accepted, mismatches={len(g['smoke_mismatches'])}")

    # ---- map mismatches to violations -------------------------------------------------------------------------
    known = {k.get("matcher"): k for k in vlib.findings_for(PROP)}
    allmm = ([("lex", m) for m in lx["mismatches"]] + [("tree", m) for m in g["mismatches"]]
             + [("smoke", m) for m in g["smoke_mismatches"]])
    by_kind = {}
    for src, m in allmm:
        by_kind.setdefault(m["mismatch"], []).append((src, m))
    known_cases = {}
    for kind, lst in sorted(by_kind.items()):
        lst.sort(key=lambda sm: _size(sm[1]))
        if kind == "roundtrip_recursion_limit" and KNOWN_RECURSION in known:
            fams = sorted({(m["case"].get("fam") or "mutation/smoke") for _, m in lst if isinstance(m["case"], dict)})
            vlib.known(PROP, f"{known[KNOWN_RECURSION]['what']} ({len(lst)} accepted inputs, families {fams[:8]}, "
                             f"smallest: {lst[0][1]['text'][:120]!r})")
            known_cases[KNOWN_RECURSION] = len(lst)
            continue
        if kind == "roundtrip_recursion_limit":
            # one finding, whatever the family: report the smallest unmutated sentence
            lst.sort(key=lambda sm: (not (isinstance(sm[1]["case"], dict) and "fam" in sm[1]["case"]), _size(sm[1])))
            src, m = lst[0]
            per_fam = {}
            for _, x in lst:
                fk = x["case"].get("fam", "mutation/smoke") if isinstance(x["case"], dict) else "?"
                per_fam[fk] = per_fam.get(fk, 0) + 1
            vlib.violation(PROP, {"property": PROP, "kind": src, "mismatch": kind, "family": m["case"].get("fam"),
                                  "count_of_kind": len(lst), "count_by_family": per_fam,
                                  "variant": m.get("variant"), "text": m.get("text"), "text_len": m.get("text_len"),
                                  "detail": m.get("detail"),
                                  "case": _full_case(g, m["case"]) if src == "tree" else m["case"],
                                  "table": g["table"] if src == "tree" else None, "seed": vlib.seed(), "smoke_n": smoke_n,
                                  "other_inputs": [x.get("text", "")[:200] for _, x in lst[1:6]]})
            n_viol += 1
            continue
        # one violation per mismatch kind and family (smallest input first), at most 6 per kind
        seen = set()
        for src, m in lst:
            fam = m["case"].get("fam", "mutation") if isinstance(m["case"], dict) else "?"
            if (fam,) in seen or len(seen) >= 6:
                continue
            seen.add((fam,))
            same = [x for _, x in lst if (x["case"].get("fam", "mutation") if isinstance(x["case"], dict) else "?") == fam]
            vlib.violation(PROP, {"property": PROP, "kind": src, "mismatch": kind, "family": fam,
                                  "count_in_family": len(same), "count_of_kind": len(lst),
                                  "variant": m.get("variant"), "text": m.get("text"), "text_len": m.get("text_len"),
                                  "detail": m.get("detail"),
                                  "case": _full_case(g, m["case"]) if src == "tree" else m["case"],
                                  "table": g["table"] if src == "tree" else None,
                                  "seed": vlib.seed(), "smoke_n": smoke_n,
                                  "other_inputs": [x.get("text", "")[:160] for x in same[1:4]]})
            n_viol += 1

    ok_trees = [c for c in g["trees"] if c["verdict"] == "ok"]
    fams = sorted({c["fam"] for c in g["trees"]})
    cov = {
        "states": lx["tlc"]["states"] + g["tlc"]["states"],
        "transitions": lx["tlc"]["generated"] + g["tlc"]["generated"],
        "traces_validated_against_impl": 0,
        "evaluations": lx["summary"]["parses"] + g["summary"]["parses"],
        "distinct_nontrivial": lx["words"] + len(g["trees"]) + len(g["muts"]),
        "rule": "R lexical: every word of length N (5 quick, 7 thorough) over {( [ ) ] \" \\ / newline other}, each prefix "
                "once, brackets scaled to 1, cut-1, cut and 1000 copies where cut is the factor at which KipBudget.tla's peak "
                "crosses 64; all five entry points must refuse with ResourceExhausted iff the specification says over "
                "budget (laws checked by TLC on every word: monotone peak, linear scaling, opaque strings / escapes / "
                "comments). R grammar: one case per abstract syntax tree of the bounded families (every where-pattern x "
                "KQL and exact carriers, literals, filters, FIND tails incl. every subset and every swapped order, values, "
                "every META form and option subset, every KML statement family and lifecycle option subset, MUTATE "
                "plans, towers at depth 3..20000 of eight bracket kinds and five non-bracket operators, towers after ten "
                "tricky string literals, unclosed 20000-bracket towers, length limit +-1 with three kinds of padding, "
                "wide inputs, whole-input wrappers, non-commands); per case the four entry points must return the "
                "classes Expected(t) (class of the command / err / refused), the tree must show Shape(t), pass "
                "validate_command, survive serde_json encode/decode, parse twice identically, and six respellings "
                "(lower / mixed keyword case, whitespace, comments with quotes and brackets, no optional whitespace, "
                "leading+trailing trivia) must give the identical tree. Mutations: every del / dup / swap / trunc / "
                "case-flip position and every (position x 19 splices) of the base sentences (stride + all depth-63/64 "
                "towers): refused iff the lexical oracle says so on the mutated token list, Agree() on the observed "
                "classes, re-validation and round trip of whatever is accepted. Every case on a 512 KiB stack, under "
                "catch_unwind, 20 s wall bound, in child processes (abnormal exit = violation)",
        "samples": [{"lex_word": lx["sample"]}, {"sentence": ok_trees[len(ok_trees) // 2]}, {"mutation": g["muts"][len(g["muts"]) // 2]}],
        "exhaustive": True,
        "model_checking": {"cfgs": [f"MC_KipBudget_{tier}.cfg", f"MC_KipGrammar_{tier}.cfg"],
                           "states": lx["tlc"]["states"] + g["tlc"]["states"]},
        "lex_words": lx["words"], "lex_texts": lx["summary"]["texts"],
        "sentences": len(g["trees"]), "sentence_verdicts": verdicts, "families": fams,
        "mutations": len(g["muts"]), "mutation_verdicts": mverd,
        "metamorphic_spellings": g["summary"]["variants"], "accepted_trees_checked": g["summary"]["accepted"],
        "crashes": g["summary"]["crashes"] + lx["summary"]["crashes"],
        "max_case_ms": max(g["summary"]["max_case_ms"], lx["summary"]["max_case_ms"]),
        "side_check_smoke": {"texts": g["smoke"]["texts"], "accepted": g["smoke"]["accepted"],
                             "mismatches": len(g["smoke_mismatches"]), "seed": vlib.seed(),
                             "note": "random Unicode / token soup / character-level mutations; totality, determinism, "
                                     "agreement and re-validation only - NOT decided by the specification"},
        "mismatches_by_kind": {k: len(v) for k, v in by_kind.items()},
        "known_finding_cases": known_cases,
    }
    vlib.write_evidence(PROP, tier, "model_checking", cov, time.time() - t0, n_viol, assumptions=[
        "whitespace is ASCII space / tab / CR / LF; a path step (.field, [\"key\"]) and the { of a hop quantifier are "
        "written without whitespace before them (lexically attached)",
        "the small fixed stack is 512 KiB (depth-64 inputs need < 128 KiB in the harness build, opt-level 2)",
        "non-bracket filter nesting (! unary- && ||): at most 63 levels accepted, 66 or more refused, 64-65 undecided",
        "totality on arbitrary Unicode is a fuzzing statement: covered by the seeded smoke run only",
    ])
    vlib.cleanup(wd)
    return n_viol


def replay(payload):
    vlib.build_harness()
    wd = vlib.workdir("c15-replay")
    kind = payload.get("kind")
    path = os.path.join(wd, "case.jsonl")
    if kind == "lex":
        c = payload["case"]
        w = c["w"][:c["prefix"]]
        with open(path, "w") as f:
            f.write(json.dumps({"alpha": ALPHA}) + "\n")
            f.write(json.dumps({"w": w, "prof": [], "cut": [c["cut"]] * len(w), "only_full": True}) + "\n")
        mode = "lex"
    elif kind == "tree":
        c = payload["case"]
        with open(path, "w") as f:
            f.write(json.dumps({"table": payload["table"], "seed": payload.get("seed", 1), "smoke_n": 0}) + "\n")
            if "mut" in c:
                f.write(json.dumps(c["base"]) + "\n")
                f.write(json.dumps(c["mut"]) + "\n")
            else:
                f.write(json.dumps(c) + "\n")
        mode = "tree"
    else:
        print(json.dumps(payload)[:3000])
        print("smoke findings are replayed by re-running the check with VERIF_SEED=%s" % payload.get("seed"))
        return 1
    summ, mm = _driver(mode, path, 600, env={"C15_JOBS": "1"})
    want = payload.get("mismatch")
    hits = [m for m in mm if m["mismatch"] == want] or mm
    for m in hits[:5]:
        print("MISMATCH:", m["mismatch"], "-", (m.get("detail") or "")[:400])
        print("   input:", (m.get("text") or "")[:300])
    vlib.cleanup(wd)
    return 1 if hits else 0
