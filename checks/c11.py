"""C11 - Full-text index retrieves exactly the matching documents, ranked stably."""
import json
import os
import random
import time

import vlib
from checks import collection_common as cc
from checks import c10

PROP = "C11"
NT, NI = 4, 6
UNKNOWN = NT + 1          # a word that is never indexed


def rand_bag(rng, allow_empty=False):
    while True:
        bag = [rng.choice([0, 0, 1, 1, 2]) for _ in range(NT)]
        if allow_empty or sum(bag) > 0:
            return bag


def query_trees(depth, rng=None, cap=None):
    """Boolean query trees over the vocabulary (+ one unknown word), up to `depth` operators deep."""
    atoms = [["term", [t]] for t in range(1, NT + 1)] + [["term", [UNKNOWN]], ["term", [1, 3]], ["term", [2, UNKNOWN]]]
    levels = [atoms]
    for _ in range(depth):
        prev = [q for lv in levels for q in lv]
        small = prev if len(prev) <= 12 else (rng.sample(prev, 12) if rng else prev[:12])
        nxt = [["not", q] for q in small]
        for a in small:
            for b in small:
                nxt.append(["and", [a, b]])
                nxt.append(["or", [a, b]])
        nxt.append(["and", [small[0], ["not", small[1]], small[2]]])
        nxt.append(["and", [["not", small[0]], ["not", small[1]]]])
        nxt.append(["or", [small[0], ["not", small[1]], small[2]]])
        nxt.append(["and", [small[3]]])
        levels.append(nxt)
    out = [q for lv in levels for q in lv]
    if cap and len(out) > cap:
        out = atoms + rng.sample(out[len(atoms):], cap - len(atoms))
    return out


def _flush(rng):
    return c10._flush(rng)


def gen_history(rng, name, n_ops, queries):
    ops = []
    texts = {}
    for _ in range(n_ops):
        r = rng.random()
        idv = rng.randrange(1, NI + 1)
        if r < 0.34:
            bag = rand_bag(rng, allow_empty=rng.random() < 0.1)
            ops.append({"op": "insert", "id": idv, "bag": bag})
            if idv not in texts and sum(bag) > 0:
                texts[idv] = bag
        elif r < 0.52:
            # the original text, or (one time in three) some other text
            if idv in texts and rng.random() < 0.67:
                bag = texts[idv]
            else:
                bag = rand_bag(rng, allow_empty=True)
            ops.append({"op": "remove", "id": idv, "bag": bag})
            texts.pop(idv, None)
        elif r < 0.58:
            ids = rng.sample(range(1, NI + 1), rng.randrange(1, 3))
            ops.append({"op": "purge", "ids": sorted(ids)})
            for i in ids:
                texts.pop(i, None)
        elif r < 0.63:
            ops.append({"op": "compact"})
        elif r < 0.78:
            ops.append({"op": "search", "q": rng.choice(queries), "pi": rng.choice([0, 0, 1, 2, 3, 4, 5, 6]),
                        "simple": False})
        elif r < 0.93:
            ops.append(_flush(rng))
        elif r < 0.96:
            ops.append({"op": "flush"})
            ops.append({"op": "legacy"})
        else:
            ops.append({"op": "reload"})
    ops += [{"op": "flush"}, {"op": "reload"}]
    for q in rng.sample(queries, min(6, len(queries))):
        ops.append({"op": "search", "q": q, "pi": 0})
    return {"name": name, "nt": NT, "ni": NI, "ops": ops}


def fixed_histories(queries, tier):
    hs = []
    ins = lambda i, bag: {"op": "insert", "id": i, "bag": bag}
    # ties: many documents with the same text; every k; every parameter set
    ties = [ins(i, [1, 1, 0, 0]) for i in (4, 2, 6, 1, 5, 3)]
    s = []
    for pi in range(7):
        s.append({"op": "search", "q": ["term", [1]], "pi": pi})
        s.append({"op": "search", "q": ["term", [1]], "pi": pi, "simple": True})
        s.append({"op": "search", "q": ["and", [["term", [1]], ["term", [2]]]], "pi": pi})
        s.append({"op": "search", "q": ["not", ["term", [3]]], "pi": pi})
    hs.append({"name": "ties", "nt": NT, "ni": NI, "ops": ties + s + [{"op": "flush"}, {"op": "reload"}] + s[:4] +
               [{"op": "compact"}] + s[:4]})
    # mixed population, the whole query family on live / compacted / reloaded
    pop = [ins(1, [2, 0, 1, 0]), ins(2, [1, 1, 0, 0]), ins(3, [0, 0, 2, 1]), ins(4, [1, 1, 0, 0]),
           ins(5, [0, 2, 0, 2]), ins(6, [1, 0, 0, 0]), {"op": "remove", "id": 6, "bag": [1, 0, 0, 0]}]
    fam = [{"op": "search", "q": q, "pi": 0, "ks": [1, 2, 3, 6]} for q in queries]
    hs.append({"name": "family-live", "nt": NT, "ni": NI, "ops": pop + fam})
    hs.append({"name": "family-reloaded", "nt": NT, "ni": NI, "ops": pop + [{"op": "flush"}, {"op": "reload"}] + fam})
    hs.append({"name": "family-compacted", "nt": NT, "ni": NI, "ops": pop + [{"op": "compact"}] + fam})
    # removal with non-original text, re-insertion, purge
    wrong = [ins(1, [1, 1, 0, 0]), ins(2, [0, 1, 1, 0]), {"op": "remove", "id": 1, "bag": [0, 1, 0, 0]},
             ins(1, [0, 0, 1, 1]), {"op": "search", "q": ["term", [1]], "pi": 0},
             {"op": "flush"}, {"op": "reload"}, {"op": "search", "q": ["term", [1]], "pi": 0},
             {"op": "remove", "id": 2, "bag": [0, 0, 0, 0]}, ins(2, [2, 0, 0, 0]), {"op": "purge", "ids": [1, 2]},
             ins(1, [0, 1, 0, 0]), {"op": "flush"}, {"op": "reload"}]
    hs.append({"name": "wrong-text", "nt": NT, "ni": NI, "ops": wrong})
    # crash sweeps over a flush that rewrites several buckets (growth, overflow of the overflow bucket, compaction)
    base = [ins(1, [1, 1, 1, 1]), {"op": "flush"}]
    grow = [ins(2, [2, 1, 0, 1]), ins(3, [1, 0, 2, 0]), ins(4, [1, 1, 1, 1]), {"op": "remove", "id": 1, "bag": [1, 1, 1, 1]},
            ins(5, [0, 1, 1, 2]), ins(6, [2, 2, 2, 2])]
    tail = [ins(1, [1, 0, 0, 1]), {"op": "remove", "id": 3, "bag": [1, 0, 2, 0]}, {"op": "flush"}, {"op": "reload"},
            {"op": "compact"}, {"op": "flush"}, {"op": "reload"}, {"op": "search", "q": ["term", [1, 2, 3, 4]], "pi": 0}]
    for variant, mid in (("grow", grow), ("compact", grow + [{"op": "compact"}])):
        for at in range(5):
            for mode in ("crash_before", "crash_after", "fail_before", "fail_after"):
                hs.append({"name": f"sweep-{variant}-{mode}-{at}", "nt": NT, "ni": NI,
                           "ops": base + mid + [{"op": "flush", "mode": mode, "at": at}] + tail})
        for d in range(4):
            hs.append({"name": f"sweep-{variant}-deletes-{d}", "nt": NT, "ni": NI,
                       "ops": base + mid + [{"op": "flush", "deletes": d, "crash_in_deletes": True}] + tail})
    # restart from a pre-manifest (legacy) layout, then every kind of flush on top of it
    for fl in ({"op": "flush"}, {"op": "flush", "mode": "crash_after", "at": 0}, {"op": "flush", "mode": "crash_before", "at": 1},
               {"op": "flush", "deletes": 1, "crash_in_deletes": True}):
        hs.append({"name": f"legacy-{fl.get('mode', 'clean')}-{fl.get('deletes', '')}", "nt": NT, "ni": NI,
                   "ops": base + [{"op": "legacy"}] + grow + [fl] + tail})
    # a large vocabulary in one document: the overflow bucket overflows as well
    hs.append({"name": "double-overflow", "nt": 8, "ni": NI, "ops": [
        {"op": "insert", "id": 1, "bag": [1, 1, 1, 1, 1, 1, 1, 1]}, {"op": "flush"}, {"op": "reload"},
        {"op": "insert", "id": 2, "bag": [2, 1, 2, 1, 2, 1, 2, 1]}, {"op": "flush"}, {"op": "reload"},
        {"op": "insert", "id": 3, "bag": [1, 2, 1, 2, 1, 2, 1, 2]}, {"op": "compact"}, {"op": "flush"}, {"op": "reload"}]})
    return hs


def _histories(tier, wd, sweep):
    rng = random.Random(vlib.seed() + 11)
    queries = query_trees(2 if tier == "quick" else 3, rng, cap=400 if tier == "quick" else 3000)
    hs = fixed_histories(queries, tier)
    n, n_ops = (60, 45) if tier == "quick" else (700, 70)
    for i in range(n):
        hs.append(gen_history(rng, f"rand-{i}", n_ops, queries))
    stats = {"histories": len(hs), "events": 0, "states": 0, "failures": [], "searches": 0, "queries": len(queries)}
    # histories with a different vocabulary size need their own file (the header carries nt)
    groups = {}
    for h in hs:
        groups.setdefault(h["nt"], []).append(h)
    fno = 0
    for nt, lst in groups.items():
        for start in range(0, len(lst), 40):
            chunk = lst[start:start + 40]
            fno += 1
            wf = os.path.join(wd, f"w{fno}.jsonl")
            tf = os.path.join(wd, f"t{fno}.ndjson")
            with open(wf, "w") as f:
                for h in chunk:
                    f.write(json.dumps(h) + "\n")
            rc, text = vlib.run_bin("drive_bm25", ["hist", wf, tf], timeout=1200,
                                    env={"VERIF_BM25_SWEEP": "1" if sweep else "0"})
            if rc != 0:
                print(text[-3000:])
                stats["failures"].append({"tag": "driver", "reason": "drive_bm25 hist aborted (panic)",
                                          "line_in_trace": 0, "event": {"tail": text[-1500:]}, "trace": chunk,
                                          "header": None})
                continue
            summ = json.loads(text.strip().splitlines()[-1])
            stats["events"] += summ["events"]
            stats["searches"] += summ["searches"]
            with open(tf) as f:
                header = json.loads(f.readline())
            res = cc.validate_file(tf, wd, f"bm{fno}", cfg="Bm25Trace.cfg", module="Bm25Trace")
            stats["states"] += res["states"]
            for fl in res["failures"]:
                fl["header"] = header
                stats["failures"].append(fl)
            if "sample" not in stats:
                with open(tf) as f:
                    stats["sample"] = [json.loads(next(f)) for _ in range(9)][2:]
            os.remove(tf)
    return stats


def conc_scenarios(tier):
    """Threads on distinct documents that share tokens (the calls commute, so the trace lists them in program
    order): every schedule at the yield points of insert / remove / purge_ids / compact_buckets."""
    ins = lambda i, bag: {"op": "insert", "id": i, "bag": bag}
    rem = lambda i, bag: {"op": "remove", "id": i, "bag": bag}
    C = {"op": "compact"}
    cap2, cap3 = (300, 120) if tier == "quick" else (5000, 2500)
    two = [ins(1, [1, 1, 0, 0]), ins(2, [0, 1, 1, 0])]
    big = [ins(1, [1, 1, 1, 1, 1, 1, 1, 1])]
    lst = [
        ("ins-ins", 4, [ins(1, [1, 1, 0, 0])], [[ins(2, [1, 0, 1, 0])], [ins(3, [0, 1, 1, 1])]], cap2, True),
        ("rm-ins-shared-token", 4, two, [[rem(1, [1, 1, 0, 0])], [ins(3, [1, 0, 0, 1])]], cap2, True),
        ("rm-rm", 4, two + [ins(3, [1, 0, 1, 0])], [[rem(1, [1, 1, 0, 0])], [rem(2, [0, 1, 1, 0])]], cap2, True),
        ("purge-ins", 4, two, [[{"op": "purge", "ids": [1]}], [ins(3, [1, 1, 0, 1])]], cap2, True),
        ("rm-then-ins-vs-ins", 4, two, [[rem(1, [1, 1, 0, 0]), ins(4, [1, 0, 0, 0])], [ins(3, [1, 0, 0, 1])]], cap2, True),
        ("migrate-vs-remove", 8, big, [[ins(2, [1, 1, 1, 1, 1, 1, 1, 1])], [rem(1, [1, 1, 1, 1, 1, 1, 1, 1])]], cap2, True),
        ("migrate-vs-migrate", 8, big, [[ins(2, [2, 1, 2, 1, 2, 1, 2, 1])], [ins(3, [1, 2, 1, 2, 1, 2, 1, 2])]], cap2, True),
        ("compact-vs-insert", 8, big + [ins(2, [1, 1, 0, 0, 0, 0, 1, 1])], [[C], [ins(3, [1, 0, 1, 0, 1, 0, 1, 0])]], cap2, True),
        ("three", 4, two, [[rem(1, [1, 1, 0, 0])], [ins(3, [1, 0, 0, 1])], [ins(4, [1, 1, 1, 0])]], cap3, True),
        ("probe-compact", 8, big + [ins(2, [1, 1, 0, 0, 0, 0, 1, 1])],
         [[C], [ins(3, [1, 0, 1, 0, 1, 0, 1, 0])], [rem(2, [1, 1, 0, 0, 0, 0, 1, 1])]], cap3, False),
    ]
    return [{"name": n, "nt": nt, "ni": NI, "setup": su, "threads": th, "cap": cap, "respect_gate": gate,
             "random": len(th) >= 3, "seed": vlib.seed() + i} for i, (n, nt, su, th, cap, gate) in enumerate(lst)]


def _conc(tier, wd):
    out = {"schedules": 0, "events": 0, "states": 0, "failures": [], "blocked": 0}
    groups = {}
    for sc in conc_scenarios(tier):
        groups.setdefault(sc["nt"], []).append(sc)
    for nt, scs in groups.items():
        sf = os.path.join(wd, f"conc{nt}.jsonl")
        tf = os.path.join(wd, f"conc{nt}.ndjson")
        with open(sf, "w") as f:
            for sc in scs:
                f.write(json.dumps(sc) + "\n")
        rc, text = vlib.run_bin("drive_bm25", ["conc", sf, tf], timeout=2400)
        if rc != 0:
            print(text[-3000:])
            out["failures"].append({"tag": f"conc{nt}", "reason": "drive_bm25 conc aborted (panic)", "line_in_trace": 0,
                                    "event": {"tail": text[-1500:]}, "trace": scs, "header": None})
            continue
        summ = json.loads(text.strip().splitlines()[-1])
        out["schedules"] += summ["schedules"]
        out["events"] += summ["events"]
        out["blocked"] += summ["blocked"]
        if summ["deadlocks"]:
            out["failures"].append({"tag": f"conc{nt}", "reason": f"{summ['deadlocks']} schedules deadlocked",
                                    "line_in_trace": 0, "event": {}, "trace": [], "header": None})
        with open(tf) as f:
            header = json.loads(f.readline())
        res = cc.validate_file(tf, wd, f"bmc{nt}", cfg="Bm25Trace.cfg", module="Bm25Trace")
        out["states"] += res["states"]
        for fl in res["failures"]:
            fl["header"] = header
            out["failures"].append(fl)
        os.remove(tf)
    return out


def run(tier):
    t0 = time.time()
    vlib.build_harness()
    wd = vlib.workdir("c11-" + tier)
    n_viol = 0
    mcs = []
    for cfg in ([f"MC_Bm25_{tier}.cfg"] + (["MC_Manifest_quick.cfg"] if tier == "quick" else ["MC_Manifest_thorough.cfg"])):
        module = "MC_Bm25" if "Bm25" in cfg else "MC_Manifest"
        mc = vlib.run_tlc(module, cfg, wd, workers=12, timeout=3000, heap="16g", out_name="mc.out",
                          allow_violation=True)
        vlib.log(f"[C11] X {cfg}: {mc['states']} states, violated={mc['violated']}")
        mcs.append({"cfg": cfg, "states": mc["states"], "transitions": mc["generated"]})
        if mc["violated"]:
            with open(mc["out"], errors="replace") as f:
                tail = f.read()[-5000:]
            vlib.violation(PROP, {"property": PROP, "kind": "model", "cfg": cfg, "tail": tail})
            n_viol += 1
        elif mc["rc"] != 0:
            raise vlib.ToolError("TLC failed on " + cfg)
    h = _histories(tier, wd, sweep=True)
    vlib.log(f"[C11] T histories: {h['histories']} histories, {h['events']} events ({h['searches']} searches over "
             f"{h['queries']} query trees), {h['states']} states, failures={len(h['failures'])}")
    for fl in h["failures"][:8]:
        vlib.violation(PROP, {"property": PROP, "kind": "trace", "tag": fl["tag"], "reason": fl["reason"],
                              "line_in_trace": fl["line_in_trace"], "event": fl["event"], "header": fl["header"],
                              "trace": fl["trace"]})
        n_viol += 1
    c = _conc(tier, wd)
    vlib.log(f"[C11] T threads: {c['schedules']} schedules, {c['events']} events, {c['states']} states, "
             f"blocked={c['blocked']}, failures={len(c['failures'])}")
    for fl in c["failures"][:8]:
        vlib.violation(PROP, {"property": PROP, "kind": "trace", "tag": fl["tag"], "reason": fl["reason"],
                              "line_in_trace": fl["line_in_trace"], "event": fl["event"], "header": fl["header"],
                              "trace": fl["trace"]})
        n_viol += 1
    cov = {
        "states": sum(m["states"] for m in mcs) + h["states"] + c["states"],
        "transitions": sum(m["transitions"] for m in mcs),
        "traces_validated_against_impl": h["histories"] + c["schedules"],
        "evaluations": h["events"],
        "distinct_nontrivial": h["histories"] + h["queries"],
        "rule": "X: Bm25.tla over all histories of insert / remove (with ANY text) / purge_ids in a small universe "
                "(Exact, LenExact, TfExact), Manifest.tla for the shared flush protocol. T: histories on the real "
                "BM25Index (default tokenizer, 64-byte buckets): each mutation's return value, every single-term "
                "search, every document length and len() must be the model's; each recorded search (boolean trees up "
                "to depth 2/3, every k in 1..n+1, 7 parameter sets incl. NaN / infinite / negative) must return "
                "exactly Sem(q) cut to k, finite non-negative scores in descending order with ties by id, top-k a "
                "prefix of top-(k+1), repeated queries equal; every flush callback is decoded: no overwrite of a "
                "referenced object, the commit makes exactly the in-memory state loadable, obsolete objects are "
                "unreferenced; a cold load after EVERY durable write, deletion and crash must equal what the "
                "manifest-named objects hold, pinned to the last commit by LoadIsCommitted. Threads: 2-3 real threads "
                "(calls on distinct documents sharing tokens) parked at every yield point of insert / remove / "
                "purge_ids / compact_buckets, every schedule (DFS, capped; sampled for 3 threads; compaction also "
                "started while mutations are mid-call); the final observation, the flush and the cold load are "
                "validated by the same trace specification",
        "samples": [{"first_events": h.get("sample")}],
        "exhaustive": True,
        "model_checking": mcs,
        "histories": h["histories"], "trace_events": h["events"], "searches": h["searches"],
        "thread_schedules": c["schedules"], "thread_events": c["events"],
    }
    vlib.write_evidence(PROP, tier, "model_checking", cov, time.time() - t0, n_viol, assumptions=[
        "flushes are not concurrent with mutations or compaction (the crate's documented contract)",
        "score VALUES are not compared with an independent BM25 computation (TLC has no reals): only their order, "
        "sign, finiteness and stability",
        "the default tokenizer maps each vocabulary word to exactly one token (checked by the single-term searches)",
    ])
    vlib.cleanup(wd)
    return n_viol


def replay(payload):
    if payload.get("kind") != "trace" or not payload.get("header"):
        print(json.dumps(payload)[:2000])
        return 1
    wd = vlib.workdir("c11-replay")
    p = os.path.join(wd, "t.ndjson")
    with open(p, "w") as f:
        f.write(json.dumps(payload["header"], separators=(",", ":")) + "\n")
        for ev in payload["trace"]:
            f.write(json.dumps(ev, separators=(",", ":")) + "\n")
    res = cc.validate_file(p, wd, "replay", cfg="Bm25Trace.cfg", module="Bm25Trace", max_failures=0)
    for fl in res["failures"]:
        print("REJECTED:", fl["reason"], "at line", fl["line_in_trace"], json.dumps(fl["event"])[:300])
    return 1 if res["failures"] else 0
