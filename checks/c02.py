"""C02 - Every index answers exactly from the stored documents."""
from checks import collection_common as cc

PROP = "C02"
ALL = ["add", "add", "update", "update", "remove", "flush", "compact", "reopen"]


def run(tier):
    if tier == "quick":
        mc = ["MC_Collection_c02.cfg"]
        plan = [("backfill", 3, 8, ALL, "crash", 0.3),
                ("multi", 6, 12, ALL, "clean", 0.3),
                ("multi", 1, 8, ALL, "crash", 0.3),
                ("unique", 12, 14, ALL, "clean", 0.4),
                ("crud", 12, 14, ALL + ["ext"], "clean", 0.3)]
    else:
        mc = ["MC_Collection_c02.cfg", "MC_Collection_thorough.cfg"]
        plan = [("backfill", 40, 10, ALL, "crash", 0.3),
                ("multi", 100, 16, ALL, "clean", 0.3),
                ("multi", 20, 10, ALL, "crash", 0.3),
                ("unique", 40, 10, ALL, "crash", 0.4),
                ("unique", 200, 20, ALL, "clean", 0.4),
                ("crud", 200, 20, ALL + ["ext"], "clean", 0.3)]
    return cc.run_property(
        PROP, tier, mc, plan,
        "X: QuiescentExact (live handle) and RecoverableExact (after a crash at this state) in every reachable "
        "state of MC_Collection with index creation+backfill, compaction and close. T: after every API return and "
        "after every reopen the driver observes ids/len/get for all ids and asks every index about every key, "
        "token and vector of the universe; the observation must equal the spec state (both directions: phantoms "
        "and holes). distinct_nontrivial = distinct crash points + clean workload groups",
        ["index value universe: 3 unique keys, 2 non-unique keys, 3 tokens, one vector per value, one multi-field "
         "index (a, b) with a distinct key per value; updates of the sequential drivers send only the fields that "
         "change (subsets of the member fields of the multi-field index included)",
         "array / map-keyed index fields are exercised by C03/C10 drivers, not here"])


def replay(payload):
    return cc.replay(payload)
