"""C19 - Unreadable elements are invisible; only the control plane changes authority.

R: TLC enumerates governance configurations from spec/MC_Governance.tla and computes, from spec/Governance.tla, what
every evaluated principal holds at Space scope, which elements it may read, under which field mask, and whether its
authority reaches the whole Space (the laws of the oracle - default deny, deny wins, revoked / suspended / expired is
absent, delegation attenuation - are invariants of the same run).  harness/src/bin/drive_governance.rs builds every
configuration through the host control plane of a real CognitiveNexus and compares a battery of KQL / META commands
of each principal with the owner's answers on a clone that holds the readable elements only; for the writer
configurations it sends a KML / KQL / META battery as non-owner sessions and compares byte dumps of the gov_*
collections and of every element's governance block.
"""
import json
import os
import re
import subprocess
import time

import vlib

PROP = "C19"
NPROC = 8

# every class of disagreement the check can attribute to one mechanism of the implementation; a class that is listed
# in known_findings.json (matcher = the class name) is printed as KNOWN-FINDING, every other one is a VIOLATION
CLASSES = {
    "describe_transaction_unfiltered":
        "DESCRIBE TRANSACTION returns the change list of a transaction unfiltered: a principal that holds "
        "read_history learns id, kind and operation of elements it may not read (meta/history.rs::transaction does "
        "not pass through visible_changes; HISTORY / CHANGES do)",
    "as_of_judges_historical_governance_block":
        "a read at a past coordinate (AS OF SEQ / read.snapshot_token) is authorized against the governance block the "
        "element carried THEN (kql/mod.rs::candidates admits the historical row): an element that was classified up "
        "later is disclosed to a principal that may not read it now (and one classified down later is withheld)",
    "snapshot_token_skips_read_history":
        "a KQL read bound to a past coordinate through read.snapshot_token is gated on `read` only "
        "(gate.rs::kql_permissions looks at query.as_of, not at the envelope), so a principal without read_history "
        "reads the past; the token is hex(\"kip:snapshot:<space>:<seq>\") and needs no SNAPSHOT call",
    "search_probes_masked_field":
        "SEARCH finds candidates through the BM25 index over name / aliases / attributes before the read mask is "
        "applied: a principal whose Grant masks a member still gets the element as a hit for words that occur only in "
        "the masked member",
    "indexed_matcher_probes_masked_field":
        "an element pattern narrows through the column index (name, key, type, ...) before the read mask is applied "
        "(kql/matching.rs::match_element): {name: \"X\"} returns the row although `name` is masked, while FILTER on "
        "the same member sees the redacted view",
    "search_window_filled_by_hidden_hits":
        "SEARCH ranks (limit + offset) * 4 index hits and filters afterwards: when the best matches are elements the "
        "principal may not read, readable matches fall outside the window and pages come back empty / short",
    "policy_allow_ignores_ceiling":
        "constraints.max_classification of a policy ALLOW statement is not enforced (decision.rs::authorize checks "
        "reaches_classification for Grants / Delegations only): the statement admits every classification",
    "redelegation_by_inactive_principal":
        "a re-delegation (parent_delegation set) keeps conferring authority after the principal that made it was "
        "suspended / revoked (decision.rs::resolve_delegation checks the root delegator's liveness only)",
    "denied_owner_still_gets_space_counts":
        "reads_whole_space answers TRUE for an owner before any deny is consulted, so an owner that an explicit policy "
        "deny forbids to read still receives the Space-wide element counts of DESCRIBE PRIMER and the unfiltered "
        "change list of DESCRIBE TRANSACTION (the journal filter is skipped for whole-Space readers)",
    "purge_replaces_governance_block":
        "PURGE (a KML command of a session holding `purge`) replaces the element's governance block by the purge "
        "marker: the classification is lost, the stub falls back to the Space default classification",
}


def _tlc(tier, wd, variant):
    cfg = f"MC_Governance_{tier}{variant}.cfg"
    res = vlib.run_tlc("MC_Governance", cfg, wd, workers=12, timeout=2400, heap="8g", out_name=f"mc{variant}.out",
                       allow_violation=True)
    if res["violated"]:
        with open(res["out"], errors="replace") as f:
            text = "\n".join(l[:400] for l in f.read().splitlines() if not l.startswith('<<"REPLAY"'))
        return {"violated": text[-4000:], "cfg": cfg, "states": res["states"], "generated": res["generated"], "cases": []}
    if res["rc"] != 0:
        raise vlib.ToolError("TLC failed on " + cfg)
    cases = [json.loads(x) for x in vlib.tlc_printed(res["out"], "REPLAY")]
    cases.sort(key=lambda c: c["n"])
    return {"violated": None, "cfg": cfg, "states": res["states"], "generated": res["generated"], "cases": cases}


def _key(c):
    return json.dumps([c["fam"], c["pop"], c["cfg"]], sort_keys=True)


def _drive(cases, wd, name, nproc=NPROC):
    """Runs the driver on the cases, split over nproc processes (each builds its own stores)."""
    if not cases:
        return [], {}
    nproc = max(1, min(nproc, len(cases)))
    procs = []
    exe = os.path.join(vlib.BIN, "drive_governance")
    for k in range(nproc):
        part = cases[k::nproc]
        cf = os.path.join(wd, f"{name}-{k}.jsonl")
        with open(cf, "w") as f:
            for c in part:
                f.write(json.dumps(c) + "\n")
        of = open(os.path.join(wd, f"{name}-{k}.out"), "w")
        env = dict(os.environ)
        env.setdefault("RUST_BACKTRACE", "0")
        procs.append((subprocess.Popen([exe, "run", cf], stdout=of, stderr=subprocess.PIPE, env=env, text=True), of, cf))
    mism, summ = [], {}
    for p, of, cf in procs:
        try:
            _, err = p.communicate(timeout=3000)
        except subprocess.TimeoutExpired:
            p.kill()
            raise vlib.ToolError("drive_governance timed out")
        of.close()
        if p.returncode != 0:
            print(err[-3000:])
            if p.returncode == 3:
                raise vlib.ToolError("drive_governance: a battery command does not parse / the population is not accepted")
            # a panic outside the guarded command execution (population / control plane) is data too
            mism.append({"mismatch": True, "part": 0, "case": -1, "fam": "driver", "cmd": "driver aborted",
                         "reason": "drive_governance aborted (panic outside a session command)", "tail": err[-1500:],
                         "file": cf})
            continue
        with open(of.name) as f:
            for line in f:
                if not line.startswith("{"):
                    continue
                row = json.loads(line)
                if row.get("summary"):
                    for k, v in row.items():
                        if isinstance(v, int) and not isinstance(v, bool):
                            summ[k] = summ.get(k, 0) + v
                elif row.get("mismatch"):
                    mism.append(row)
    return mism, summ


def _base(cmd):
    return re.sub(r"-\d+$", "", cmd)


def _ids(v):
    """The element indices (#k) an answer mentions."""
    return {int(x) for x in re.findall(r'"#(\d+)"', json.dumps(v))}


def classify(m, case):
    """The class of one mismatch, or None when it cannot be attributed (a plain violation)."""
    if m.get("part") == 2:
        d = m.get("diff", {})
        if "element" in d and d.get("state_after") == "purged" and '"purged":true' in (d.get("after") or ""):
            return "purge_replaces_governance_block"
        return None
    if m.get("part") != 1:
        return None
    cmd, got, want = _base(m["cmd"]), m.get("got") or {}, m.get("want") or {}
    held = m.get("held", [])
    if cmd == "describe-transaction" and "ok" in got and want.get("err") == "TransactionUnknown":
        if m.get("p") == "own":
            # the owner under an explicit deny: the journal filter is skipped for "whole-Space" readers
            return "denied_owner_still_gets_space_counts"
        return "describe_transaction_unfiltered"
    if cmd.startswith("snapshot-token") and want.get("err") == "NotAuthorized" and "ok" in got \
            and "read" in held and "read_history" not in held:
        return "snapshot_token_skips_read_history"
    if cmd.startswith("as-of") and "ok" in got and got == m.get("asbuilt_want"):
        # exactly the answer of a read that judges the element just written by the block it carried then
        return "as_of_judges_historical_governance_block"
    if cmd == "describe-primer" and m.get("p") == "own" and "ok" in got and "ok" in want \
            and want["ok"].get("withheld") and not got["ok"].get("withheld"):
        return "denied_owner_still_gets_space_counts"
    readable = set(m.get("readable", []))
    if m.get("pop") == "B" and cmd.startswith("search") and not m.get("masked") and "err" not in got \
            and _ids(got) <= readable and _ids(got) < _ids(want):
        return "search_window_filled_by_hidden_hits"
    hidden = set(m.get("hide_name", [])) | set(m.get("hide_attrs", []))
    if m.get("masked") and cmd.startswith("search") and "err" not in got and "err" not in want \
            and _ids(got) <= readable and (_ids(got) - _ids(want)) <= hidden:
        return "search_probes_masked_field"
    if m.get("masked") and cmd in ("name-matcher", "union") and "ok" in got and "ok" in want \
            and _ids(got) <= readable and (_ids(got) - _ids(want)) <= set(m.get("hide_name", [])):
        return "indexed_matcher_probes_masked_field"
    return None


def _check(tier, wd):
    strict = _tlc(tier, wd, "")
    out = {"tlc": strict, "mism": [], "summ": {}, "classes": {}, "unclassified": [], "asbuilt_cases": 0}
    if strict["violated"]:
        return out
    cases = strict["cases"]
    by_n = {c["n"]: c for c in cases}
    mism, summ = _drive(cases, wd, "strict")
    out["summ"] = summ
    out["mism"] = mism
    # attribute what the command-level classes do not explain to the two documented switches of the specification
    rest = [m for m in mism if classify(m, by_n.get(m["case"])) is None]
    asb_fixed = set()
    if rest:
        asb = _tlc(tier, wd, "_asbuilt")
        if asb["violated"]:
            raise vlib.ToolError("TLC failed on the as-built reading")
        asb_by_key = {_key(c): c for c in asb["cases"]}
        redo = []
        for n in sorted({m["case"] for m in rest if m["case"] in by_n}):
            c = by_n[n]
            a = asb_by_key.get(_key(c))
            if a is not None and a["expect"] != c["expect"]:
                a = dict(a)
                a["n"] = n
                redo.append(a)
        out["asbuilt_cases"] = len(redo)
        mism2, summ2 = _drive(redo, wd, "asbuilt")
        asb_n = {a["n"]: a for a in redo}
        still = {(m["case"], m.get("p"), m["cmd"]) for m in mism2 if classify(m, asb_n.get(m["case"])) is None}
        for a in redo:
            for m in rest:
                if m["case"] == a["n"] and (m["case"], m.get("p"), m["cmd"]) not in still:
                    asb_fixed.add((m["case"], m.get("p"), m["cmd"]))
    for m in mism:
        case = by_n.get(m["case"])
        cl = classify(m, case)
        if cl is None and (m["case"], m.get("p"), m["cmd"]) in asb_fixed:
            cfg = case["cfg"]
            if any(s["effect"] == "allow" and s["cons"]["ceil"] != -1 for s in cfg["policy"]):
                cl = "policy_allow_ignores_ceiling"
            elif any(d["parent"] != 0 and cfg["pstat"][d["from"]] != "active" for d in cfg["delegs"]):
                cl = "redelegation_by_inactive_principal"
        if cl is None:
            out["unclassified"].append(m)
        else:
            e = out["classes"].setdefault(cl, {"count": 0, "cases": set(), "example": None})
            e["count"] += 1
            e["cases"].add(m["case"])
            # prefer an example that discloses something (an id the oracle does not expect)
            leaks = bool(_ids(m.get("got")) - _ids(m.get("want")))
            if e["example"] is None or (leaks and not e.get("example_leaks")):
                e["example"] = (m, case)
                e["example_leaks"] = leaks
    return out


def _payload(kind, m, case, extra=None):
    p = {"property": PROP, "kind": kind, "mismatch": {k: v for k, v in m.items() if k != "log"}, "case": case}
    if m.get("log"):
        p["log"] = m["log"]
    if extra:
        p.update(extra)
    return p


def run(tier):
    t0 = time.time()
    vlib.build_harness()
    wd = vlib.workdir("c19-" + tier)
    n_viol = 0
    r = _check(tier, wd)
    tlc = r["tlc"]
    vlib.log(f"[C19] X/R {tlc['cfg']}: {len(tlc['cases'])} configurations, {tlc['states']} states, "
             f"laws violated={bool(tlc['violated'])}")
    if tlc["violated"]:
        vlib.violation(PROP, {"property": PROP, "kind": "model", "cfg": tlc["cfg"], "tail": tlc["violated"]})
        n_viol += 1
    s = r["summ"]
    vlib.log(f"[C19] R replay: {s.get('cases', 0)} configurations, {s.get('principals', 0)} principals, "
             f"{s.get('commands', 0)} commands ({s.get('compared', 0)} compared with the owner on {s.get('clones', 0)} "
             f"clones, {s.get('gate_denied', 0)} must be refused, {s.get('undecided', 0)} undecided), "
             f"{s.get('mut_cases', 0)} writer configurations ({s.get('writer_commands', 0)} commands, "
             f"{s.get('writer_rows', 0)} protected rows compared); mismatches={len(r['mism'])} in "
             f"{len(r['classes'])} attributed classes, {len(r['unclassified'])} unattributed; "
             f"{r['asbuilt_cases']} configurations re-run under the as-built reading")
    known = {k["matcher"]: k for k in vlib.findings_for(PROP)}
    n_known = 0
    classes_seen = {}
    for cl, e in sorted(r["classes"].items()):
        m, case = e["example"]
        classes_seen[cl] = {"mismatches": e["count"], "configurations": len(e["cases"])}
        what = f"{CLASSES[cl]} ({e['count']} mismatching commands in {len(e['cases'])} configurations; e.g. case " \
               f"{m['case']} [{m.get('fam')}] principal {m.get('p')}: {m.get('text') or m.get('cmd')})"
        if cl in known:
            vlib.known(PROP, f"{cl}: {what}")
            n_known += 1
        else:
            vlib.log(f"[C19] class {cl}: {what}")
            vlib.violation(PROP, _payload("class", m, case, {"class": cl, "what": CLASSES[cl], "count": e["count"],
                                                               "configurations": sorted(e["cases"])[:50]}))
            n_viol += 1
    by_n = {c["n"]: c for c in tlc["cases"]}
    for m in r["unclassified"][:8]:
        vlib.log(f"[C19] unattributed mismatch: case {m.get('case')} [{m.get('fam')}] principal {m.get('p')} "
                 f"{m.get('cmd')}: {m.get('text', '')}")
        vlib.violation(PROP, _payload("mismatch", m, by_n.get(m.get("case"))))
        n_viol += 1
    if len(r["unclassified"]) > 8:
        n_viol += len(r["unclassified"]) - 8
    sample = tlc["cases"][len(tlc["cases"]) // 2] if tlc["cases"] else None
    fams = {}
    for c in tlc["cases"]:
        fams[c["fam"]] = fams.get(c["fam"], 0) + 1
    cov = {
        "states": tlc["states"],
        "transitions": tlc["generated"],
        "traces_validated_against_impl": s.get("cases", 0),
        "evaluations": s.get("commands", 0),
        "distinct_nontrivial": len(tlc["cases"]),
        "rule": "X: the laws of Governance.tla on every enumerated configuration: default deny, inactive principal / "
                "suspended Space reads nothing, an explicit deny wins, a revoked Grant / Delegation is as good as absent, "
                "an authority outside its validity window is as good as absent, an authority that reaches the whole "
                "Space reads everything, and delegation attenuation (whatever a Delegation confers, its root delegator "
                "holds through a delegable authority and every link of the chain reaches, element by element). "
                "R: every configuration of the families (one Grant: 11 scopes x ceilings x masks; Grant lifecycle, "
                "conditions x session contexts; two allows; Delegation a->b: delegator scope x ceiling x delegate scope "
                "x ceiling, stated and unstated; Delegation lifecycle, windows, strength, masks, influence ceiling; "
                "chains a->b->c with re-delegation flags, named chains; policy allow / deny statements by principal / "
                "group / action / scope / condition; co-owners; the hidden-best-match population; writers) is built "
                "through the host control plane; for every evaluated principal every battery command (element / tuple "
                "patterns, by id, FILTER, ORDER BY on a masked member, COUNT / MAX / SUM / COUNT DISTINCT, LIMIT + "
                "CURSOR to the end, OPTIONAL, NOT, UNION, SEARCH with paging, DESCRIBE ACCESS / PRIMER / TRANSACTION, "
                "HISTORY SPACE / ELEMENT with LIMIT + CURSOR to the end, CHANGES, SNAPSHOT, EXPORT CAPSULE, AS OF SEQ "
                "and read.snapshot_token reads) must be refused when TLC says the gate is not held, and otherwise "
                "equal the owner's answer on a clone holding only TLC's readable elements without the masked members "
                "(rows, order, counts, pages, cursors; a hidden id answers like a never-written one). Writers: a KML / "
                "KQL / META battery by non-owner sessions leaves every gov_* collection byte-identical (gov_audit may "
                "only grow) and every pre-existing element's governance block byte-identical",
        "samples": [{"configuration": sample}],
        "exhaustive": True,
        "model_checking": {"cfg": tlc["cfg"], "states": tlc["states"], "transitions": tlc["generated"]},
        "configurations": len(tlc["cases"]), "families": fams,
        "principals_evaluated": s.get("principals", 0), "commands": s.get("commands", 0),
        "compared_with_owner_on_clone": s.get("compared", 0), "must_be_refused": s.get("gate_denied", 0),
        "undecided_skipped": s.get("undecided", 0), "clones": s.get("clones", 0),
        "writer_configurations": s.get("mut_cases", 0), "writer_commands": s.get("writer_commands", 0),
        "protected_rows_compared": s.get("writer_rows", 0),
        "mismatches": len(r["mism"]), "attributed_classes": classes_seen, "unattributed": len(r["unclassified"]),
        "known_findings_seen": n_known,
    }
    vlib.write_evidence(PROP, tier, "model_checking", cov, time.time() - t0, n_viol, assumptions=[
        "the host's AuthContext is what the specification's session context says (strength, purpose, assurance, "
        "named Delegation chain); max_results, approvals, redaction profiles, read_raw_origin, actor bindings and "
        "quarantine are not varied",
        "a readable Proposition whose endpoint is hidden, or whose own members are masked, makes tuple / history / "
        "export commands undecidable for that principal (the clone cannot hold a tuple without its endpoint): those "
        "commands are skipped and counted as undecided",
        "Space sequence numbers, transaction ids, timestamps, digests and BM25 scores are not compared (they differ "
        "between a store and its clone by construction); the order of hits, rows, pages and the cursor values are",
        "time is evaluated at a fixed instant: validity windows are set in the past / future of the run, no window "
        "opens or closes while a case is evaluated",
    ])
    vlib.cleanup(wd)
    return n_viol


def replay(payload):
    """Re-executes the configuration of a replay file on the real code; exit 1 when it still disagrees."""
    case = payload.get("case")
    if not case:
        print(json.dumps(payload)[:3000])
        return 1
    vlib.build_harness()
    wd = vlib.workdir("c19-replay")
    mism, summ = _drive([case], wd, "replay", nproc=1)
    want_cmd = (payload.get("mismatch") or {}).get("cmd")
    hit = [m for m in mism if want_cmd is None or m.get("cmd") == want_cmd] or mism
    for m in hit[:10]:
        print("MISMATCH:", json.dumps({k: m.get(k) for k in ("case", "fam", "p", "cmd", "text", "got", "want", "diff", "reason")})[:1500])
    print(f"[C19] replay: {summ.get('commands', 0)} commands, {len(mism)} mismatches")
    vlib.cleanup(wd)
    return 1 if hit else 0
