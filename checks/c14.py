"""C14 - Service keys confine callers to their database; reads never write."""
import json
import os
import time

import vlib

PROP = "C14"


def _matrix(tier, wd):
    res = vlib.run_tlc("MC_ServerAuth", f"MC_ServerAuth_{tier}.cfg", wd, workers=8, timeout=2400, heap="8g",
                       out_name="mc.out", allow_violation=True)
    if res["violated"]:
        with open(res["out"], errors="replace") as f:
            return {"violated": f.read()[-4000:], "states": res["states"], "generated": res["generated"]}
    if res["rc"] != 0:
        raise vlib.ToolError("TLC failed on MC_ServerAuth")
    cases = [json.loads(x) for x in vlib.tlc_printed(res["out"], "REPLAY")]
    maxlen = max(len(c["hist"]) for c in cases)
    for c in cases:
        c["leaf"] = len(c["hist"]) == maxlen
    cf = os.path.join(wd, "cases.jsonl")
    with open(cf, "w") as f:
        for c in cases:
            f.write(json.dumps(c) + "\n")
    rc, text = vlib.run_bin("drive_server", ["matrix", cf, "lite"], timeout=3000)
    if rc != 0:
        print(text[-3000:])
        return {"violated": None, "states": res["states"], "generated": res["generated"], "cases": len(cases),
                "panic": text[-1500:], "mismatches": [], "n_mismatch": 1, "histories": 0, "requests": 0}
    lines = [json.loads(x) for x in text.strip().splitlines() if x.startswith("{")]
    summ = lines[-1]
    return {"violated": None, "states": res["states"], "generated": res["generated"], "cases": len(cases),
            "histories": summ["histories"], "requests": summ["requests"], "n_mismatch": summ["mismatches"],
            "mismatches": [x for x in lines if "mismatch" in x], "sample": cases[len(cases) // 2]}


def _is_cold_open_recovery(row):
    """The recorded finding: the FIRST read that touches a collection after an unclean shutdown opens it cold, and
    the engine's cold open ends with the recovery flush of that collection (all paths under <db>/<collection>/)."""
    return row["lifecycle"] == "unclean" and row["paths"] and all(p.split(" ", 1)[1].startswith("a/c/") for p in row["paths"])


def _reads(wd):
    rc, text = vlib.run_bin("drive_server", ["reads"], timeout=1200)
    if rc != 0:
        print(text[-3000:])
        return {"calls": 0, "wrote": [], "panic": text[-1500:]}
    lines = [json.loads(x) for x in text.strip().splitlines() if x.startswith("{")]
    summ = lines[-1]
    return {"calls": summ["calls"], "statuses": summ["statuses"], "wrote": [x["read_wrote"] for x in lines if "read_wrote" in x]}


def run(tier):
    t0 = time.time()
    vlib.build_harness()
    wd = vlib.workdir("c14-" + tier)
    n_viol = 0
    m = _matrix(tier, wd)
    if m["violated"]:
        vlib.violation(PROP, {"property": PROP, "kind": "model", "cfg": f"MC_ServerAuth_{tier}.cfg", "tail": m["violated"]})
        n_viol += 1
        m.update(cases=0, histories=0, requests=0, n_mismatch=0, mismatches=[])
    vlib.log(f"[C14] X+R matrix: {m['states']} model states, {m.get('cases', 0)} histories from TLC, "
             f"{m['histories']} replays (plain / restart at end / restart after every operation), {m['requests']} requests, "
             f"mismatches={m['n_mismatch']}")
    if m.get("panic"):
        vlib.violation(PROP, {"property": PROP, "kind": "panic", "tail": m["panic"]})
        n_viol += 1
    for mm in m["mismatches"][:6]:
        vlib.violation(PROP, {"property": PROP, "kind": "matrix", **mm})
        n_viol += 1
    r = _reads(wd)
    known = {k["matcher"]: k for k in vlib.findings_for(PROP)}
    n_known = 0
    for row in r["wrote"]:
        if "cold_open_recovery_flush" in known and _is_cold_open_recovery(row):
            vlib.known(PROP, f"{known['cold_open_recovery_flush']['what']} (observed: {row['method']} "
                             f"{'cbor' if row['cbor'] else 'json'} after an unclean shutdown: {row['writes']} writes, e.g. "
                             f"{row['paths'][0]})")
            n_known += 1
        else:
            vlib.violation(PROP, {"property": PROP, "kind": "read_wrote", **row})
            n_viol += 1
    if r.get("panic"):
        vlib.violation(PROP, {"property": PROP, "kind": "panic", "tail": r["panic"]})
        n_viol += 1
    vlib.log(f"[C14] reads: {r['calls']} Read-classified calls over 6 lifecycle states, {len(r['wrote'])} wrote "
             f"({n_known} known), statuses {r.get('statuses')}")
    cov = {
        "states": m["states"],
        "transitions": m["generated"],
        "traces_validated_against_impl": m["histories"],
        "evaluations": m["requests"] + r["calls"],
        "distinct_nontrivial": m.get("cases", 0),
        "rule": "X: ServerAuth.tla - every administrative history (create with / without key, open, close, set / rotate "
                "/ remove key) up to 3 (thorough 4) operations; invariants Confined, Uniform, RevokedUseless on the "
                "request matrix of every reachable state. R: each history is replayed on the real router (plain, with a "
                "restart at the end, leaf histories also with a restart after every operation); each operation's status "
                "class must be the model's; then the matrix - 6 scopes (root, primary, a, b, missing, malformed) x every "
                "method name of either scope + unknown names (quick: 7 representative names for non-leaf histories) x 6 "
                "tokens (none, garbage, admin, 3 tenant keys incl. revoked ones) x CBOR/JSON, non-admin callers carrying "
                "parameters that name another database - must have exactly the class TLC computed (401 / nomethod / "
                "nodb / reached); all 401 replies byte-identical per encoding; `info` shows a key holder only its own "
                "database; an admin-view snapshot of every database and the registry is unchanged by all non-admin "
                "requests. Reads: every Read-classified method (spec constant ReadMethods) on a database that is fresh, "
                "populated+flushed, unflushed, read-only, restarted cleanly, restarted after an unclean shutdown: "
                "backend mutations observed during the call (+15 ms) must be 0",
        "samples": [{"case": m.get("sample")}],
        "exhaustive": True,
        "model_checking": {"cfg": f"MC_ServerAuth_{tier}.cfg", "states": m["states"], "transitions": m["generated"]},
        "requests": m["requests"], "read_calls": r["calls"], "known_findings_seen": n_known,
    }
    vlib.write_evidence(PROP, tier, "model_checking", cov, time.time() - t0, n_viol, assumptions=[
        "the server is started with an admin key (the unauthenticated development mode has no per-database keys)",
        "timing of rejections is not measured",
        "a write is attributed to a read when it reaches the backend during the call or within 15 ms after it",
    ])
    vlib.cleanup(wd)
    return n_viol


def replay(payload):
    print(json.dumps(payload, indent=1)[:3000])
    return 1
