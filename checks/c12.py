"""C12 - Vector search is sound, distance-ordered, and keeps its recall floor."""
import json
import os
import random
import time

import vlib
from checks import collection_common as cc

PROP = "C12"
NI = 10
METRICS = ["euclidean", "cosine", "inner", "manhattan"]


def _flush(rng):
    r = rng.random()
    if r < 0.3:
        return {"op": "flush", "purge": rng.choice([0, 1, 99])}
    if r < 0.4:
        # a remove + re-insert crossing the I/O window of this flush
        return {"op": "flush", "purge": rng.choice([0, 99]), "cross_at": rng.randrange(3),
                "cross_id": rng.randrange(1, NI + 1)}
    if r < 0.55:
        return {"op": "flush", "mode": "fail_before", "at": rng.randrange(5)}
    if r < 0.75:
        return {"op": "flush", "mode": "crash_before", "at": rng.randrange(7)}
    if r < 0.88:
        return {"op": "flush", "mode": "crash_after", "at": rng.randrange(7)}
    if r < 0.95:
        return {"op": "flush", "mode": "crash_after_ids"}
    return {"op": "flush", "purge": rng.choice([0, 1]), "crash_after_purge": True}


def gen_history(rng, name, n_ops):
    ops = []
    crashed = False
    for _ in range(n_ops):
        r = rng.random()
        idv = rng.randrange(1, NI + 1)
        if r < 0.36:
            ops.append({"op": "insert", "id": idv})
        elif r < 0.52:
            ops.append({"op": "remove", "id": idv})
        elif r < 0.70:
            ops.append({"op": "search", "kind": rng.choice(["random", "stored", "far", "zero"])})
        elif r < 0.90:
            f = _flush(rng)
            ops.append(f)
            if "crash" in f.get("mode", "") or f.get("crash_after_purge"):
                ops.append({"op": "search", "kind": "random"})
                if rng.random() < 0.7:
                    ops.append({"op": "reindex"})
                    ops.append({"op": "search", "kind": "stored"})
        elif r < 0.95:
            ops.append({"op": "reload"})
            ops.append({"op": "reindex"})
        else:
            ops.append({"op": "reindex"})
    ops += [{"op": "reindex"}, {"op": "flush"}, {"op": "reload"}, {"op": "search", "kind": "stored"},
            {"op": "search", "kind": "random"}]
    return {"name": name, "ni": NI, "dim": rng.choice([2, 3, 8, 16, 64]), "metric": rng.choice(METRICS),
            "strategy": rng.choice(["simple", "heuristic"]), "m": rng.choice([2, 4, 8]),
            "reconnect": rng.random() < 0.5, "seed": rng.randrange(1, 10 ** 6), "ops": ops}


def fixed_histories():
    """A flush that rewrites nodes of two generations (removed, re-inserted with a new vector, new ids),
    interrupted before and after EVERY write, then searched, re-indexed, flushed, purged, reloaded."""
    hs = []
    base = [{"op": "insert", "id": i} for i in range(1, 8)] + [{"op": "flush"}]
    mid = [{"op": "remove", "id": 2}, {"op": "remove", "id": 5}, {"op": "insert", "id": 5}, {"op": "insert", "id": 8},
           {"op": "remove", "id": 3}, {"op": "insert", "id": 9}, {"op": "insert", "id": 3}]
    tail = [{"op": "search", "kind": "random"}, {"op": "search", "kind": "stored"}, {"op": "reindex"},
            {"op": "search", "kind": "stored"}, {"op": "flush"}, {"op": "reload"}, {"op": "search", "kind": "random"},
            {"op": "remove", "id": 1}, {"op": "flush"}, {"op": "reload"}, {"op": "search", "kind": "stored"}]
    n = 0
    for metric in METRICS:
        for strategy in ("simple", "heuristic"):
            for at in range(11):
                for mode in ("crash_before", "crash_after"):
                    n += 1
                    hs.append({"name": f"sweep-{metric}-{strategy}-{mode}-{at}", "ni": NI, "dim": 4 + (n % 3) * 6,
                               "metric": metric, "strategy": strategy, "m": 4, "reconnect": n % 2 == 0, "seed": n,
                               "ops": base + mid + [{"op": "flush", "mode": mode, "at": at}] + tail})
    # interrupted between the ids write and the metadata write, re-inserted ids still tombstoned in the old metadata
    tomb = base + [{"op": "remove", "id": 2}, {"op": "remove", "id": 4}, {"op": "flush", "purge": 0},
                   {"op": "insert", "id": 2}, {"op": "insert", "id": 4}]
    for mode, at in (("crash_after", 0), ("crash_after", 1), ("crash_after", 2), ("crash_before", 3), ("crash_after", 3),
                     ("crash_after_ids", 0)):
        hs.append({"name": f"tombstoned-live-{mode}-{at}", "ni": NI, "dim": 4, "metric": "euclidean",
                   "strategy": "heuristic", "m": 4, "reconnect": False, "seed": 5,
                   "ops": tomb + [{"op": "flush", "mode": mode, "at": at}, {"op": "reindex"}, {"op": "flush"},
                                  {"op": "reload"}, {"op": "search", "kind": "stored"}, {"op": "reindex"},
                                  {"op": "flush"}, {"op": "reload"}]})
    # a remove + re-insert of an id crossing the I/O window of a flush, at every node-write position
    for at in range(6):
        for cid in (3, 7):
            hs.append({"name": f"cross-{at}-{cid}", "ni": NI, "dim": 4, "metric": "euclidean", "strategy": "heuristic",
                       "m": 4, "reconnect": False, "seed": 9,
                       "ops": base + [{"op": "insert", "id": 8}, {"op": "flush", "cross_at": at, "cross_id": cid},
                                      {"op": "search", "kind": "stored"}, {"op": "flush"}, {"op": "reload"},
                                      {"op": "search", "kind": "stored"}, {"op": "reindex"}, {"op": "flush"},
                                      {"op": "reload"}]})
    return hs


def _validate(tf, wd, label):
    with open(tf) as f:
        header = json.loads(f.readline())
    res = cc.validate_file(tf, wd, label, cfg="HnswTrace.cfg", module="HnswTrace")
    for fl in res["failures"]:
        fl["header"] = header
    return res


def run(tier):
    t0 = time.time()
    vlib.build_harness()
    wd = vlib.workdir("c12-" + tier)
    n_viol = 0
    mc = vlib.run_tlc("MC_Hnsw", f"MC_Hnsw_{tier}.cfg", wd, workers=12, timeout=3000, heap="16g", out_name="mc.out",
                      allow_violation=True)
    vlib.log(f"[C12] X MC_Hnsw_{tier}.cfg: {mc['states']} states, violated={mc['violated']}")
    if mc["violated"]:
        with open(mc["out"], errors="replace") as f:
            tail = f.read()[-5000:]
        vlib.violation(PROP, {"property": PROP, "kind": "model", "cfg": f"MC_Hnsw_{tier}.cfg", "tail": tail})
        n_viol += 1
    elif mc["rc"] != 0:
        raise vlib.ToolError("TLC failed on MC_Hnsw")
    rng = random.Random(vlib.seed() + 12)
    hs = fixed_histories()
    n, n_ops = (80, 40) if tier == "quick" else (900, 60)
    for i in range(n):
        hs.append(gen_history(rng, f"rand-{i}", n_ops))
    stats = {"histories": len(hs), "events": 0, "states": 0, "searches": 0, "search_errs": 0}
    failures = []
    for fno in range(0, len(hs), 60):
        chunk = hs[fno:fno + 60]
        wf = os.path.join(wd, f"w{fno}.jsonl")
        tf = os.path.join(wd, f"t{fno}.ndjson")
        with open(wf, "w") as f:
            for h in chunk:
                f.write(json.dumps(h) + "\n")
        rc, text = vlib.run_bin("drive_hnsw", ["small", wf, tf], timeout=1800)
        if rc != 0:
            print(text[-3000:])
            failures.append({"tag": "driver", "reason": "drive_hnsw small aborted (panic)", "line_in_trace": 0,
                             "event": {"tail": text[-1500:]}, "trace": chunk, "header": None})
            continue
        summ = json.loads(text.strip().splitlines()[-1])
        for k in ("events", "searches", "search_errs"):
            stats[k] += summ[k]
        res = _validate(tf, wd, f"hn{fno}")
        stats["states"] += res["states"]
        failures += res["failures"]
        if "sample" not in stats:
            with open(tf) as f:
                stats["sample"] = [json.loads(next(f)) for _ in range(10)][2:]
        os.remove(tf)
    vlib.log(f"[C12] T histories: {stats['histories']} histories, {stats['events']} events ({stats['searches']} searches, "
             f"{stats['search_errs']} failed searches), {stats['states']} states, failures={len(failures)}")
    # documented recall workloads + interrupted flushes
    tf = os.path.join(wd, "recall.ndjson")
    rc, text = vlib.run_bin("drive_hnsw", ["recall", tier, tf], timeout=3000)
    if rc != 0:
        print(text[-3000:])
        failures.append({"tag": "driver", "reason": "drive_hnsw recall aborted (panic)", "line_in_trace": 0,
                         "event": {"tail": text[-1500:]}, "trace": [], "header": None})
        rstats = {"events": 0, "states": 0, "worst": None}
    else:
        evs = [json.loads(x) for x in open(tf) if '"recall"' in x]
        worst = {}
        for e in evs:
            w = worst.setdefault(e["phase"], {"avg": 1000, "min": 1000, "n": 0})
            w["avg"] = min(w["avg"], e["avg"])
            w["min"] = min(w["min"], e["min"])
            w["n"] += 1
        res = _validate(tf, wd, "recall")
        failures += res["failures"]
        rstats = {"events": len(evs), "states": res["states"], "worst": worst}
        os.remove(tf)
    vlib.log(f"[C12] T recall: {rstats['events']} measurements, worst per phase {json.dumps(rstats['worst'])}")
    for fl in failures[:8]:
        vlib.violation(PROP, {"property": PROP, "kind": "trace", "tag": fl["tag"], "reason": fl["reason"],
                              "line_in_trace": fl["line_in_trace"], "event": fl["event"], "header": fl["header"],
                              "trace": fl["trace"]})
        n_viol += 1
    cov = {
        "states": mc["states"] + stats["states"] + rstats["states"],
        "transitions": mc["generated"],
        "traces_validated_against_impl": stats["histories"] + (1 if rstats["events"] else 0),
        "evaluations": stats["events"] + rstats["events"],
        "distinct_nontrivial": stats["histories"] + rstats["events"],
        "rule": "X: Hnsw.tla (insert / remove / touched neighbours, flush = snapshot ; node blobs ; ids ; metadata ; "
                "commit, failing flushes, purge of tombstones, crashes, re-indexing) exhaustively: Provenance, "
                "CommitExact, DurableExact, NoLiveBlobLost. T small: histories over 10 ids, 4 metrics, both strategies, "
                "dimensions 2..64, reconnect on/off: insert / remove return values; every search (k = 1, 2, n, n+1; "
                "random, stored, far and zero queries) returns <= k distinct HELD ids in non-decreasing distance, each "
                "distance bit-for-bit the metric to the vector the model says the id holds; every flush callback is "
                "decoded and must be the next protocol step; a purge callback never names a held id; a cold load "
                "after EVERY durable write returns Loadable; a crash re-bases the model on LoadedLive which must be "
                "what the loaded index reports (ids and vectors); sweeps interrupt one flush before and after every "
                "write. T recall: the documented workloads (Euclidean/Cosine, both strategies) fresh, reloaded, "
                "after deletions, after churn, and after a flush of that churn interrupted at sampled positions + "
                "re-indexing (+ flush, purge, reload): recall floors per phase, zero unsound results, zero failed "
                "searches, index size = documents",
        "samples": [{"first_events": stats.get("sample")}, {"recall_worst_per_phase": rstats["worst"]}],
        "exhaustive": True,
        "model_checking": {"cfg": f"MC_Hnsw_{tier}.cfg", "states": mc["states"], "transitions": mc["generated"]},
        "histories": stats["histories"], "searches": stats["searches"], "recall_measurements": rstats["events"],
    }
    vlib.write_evidence(PROP, tier, "model_checking", cov, time.time() - t0, n_viol, assumptions=[
        "mutations crossing the I/O window of a flush are exercised as remove + re-insert of one id after a node "
        "write; truly parallel mutation during a flush is not",
        "the recall statistic is measured, not modelled: TLC only compares it with the documented floors "
        "(margin after recovery: 50 per mille below the churn floor)",
        "the orphan-blob purge of the anda_db wrapper is not exercised at this level",
    ])
    vlib.cleanup(wd)
    return n_viol


def replay(payload):
    if payload.get("kind") != "trace" or not payload.get("header"):
        print(json.dumps(payload)[:2000])
        return 1
    wd = vlib.workdir("c12-replay")
    p = os.path.join(wd, "t.ndjson")
    with open(p, "w") as f:
        f.write(json.dumps(payload["header"], separators=(",", ":")) + "\n")
        for ev in payload["trace"]:
            f.write(json.dumps(ev, separators=(",", ":")) + "\n")
    res = cc.validate_file(p, wd, "replay", cfg="HnswTrace.cfg", module="HnswTrace", max_failures=0)
    for fl in res["failures"]:
        print("REJECTED:", fl["reason"], "at line", fl["line_in_trace"], json.dumps(fl["event"])[:300])
    return 1 if res["failures"] else 0
