"""C13 - What validation accepts, storage returns unchanged; nothing invalid gets in.

Direction R.  TLC enumerates every case and every expected answer from spec/Schema.tla (MC_Schema.tla), and checks
the property on the specification itself (invariant Laws); harness/src/bin/drive_schema.rs replays every case on the
real anda_db_schema / anda_db Collection and compares.  Three ways to a violation:
  model        TLC finds the specification violating its own laws
  conformance  the real code answers differently from the specification (verdict, in-memory form, stored shape,
               read-back value, idx assignment, derived FieldType, ...)
  law          the specification, faithful to the code, predicts a read that breaks the property's promise (an old
               document unreadable / changed after permitted upgrades) and the real code does exactly that
"""
import json
import os
import time

import vlib

PROP = "C13"
FAMS = ("ax", "val", "bud", "upg", "der")


# ---------------------------------------------------------------------------
# known-finding matcher: a nested key is gained by an upgrade although stored documents already carry that key with
# another type (the key was removed earlier and is re-added, or the value sat in an untyped map)

def _key_paths(t, prefix=(), untyped=None):
    """Paths of explicitly declared nested keys -> declared type, through Option / Array / wildcard maps.
    `untyped` collects the paths at which an untyped map (declares nothing, accepts anything) sits."""
    out = {}
    tag = t[0]
    if tag == "option":
        out.update(_key_paths(t[1], prefix, untyped))
    elif tag == "array":
        for i, x in enumerate(t[1]):
            out.update(_key_paths(x, prefix + ("[%d]" % (0 if len(t[1]) == 1 else i),), untyped))
    elif tag == "map":
        es = t[1]
        if not es and untyped is not None:
            untyped.add(prefix)
        wild = len(es) == 1 and es[0][0] in (["text", "*"], ["bytes", ["42"]], ["i64", "i64min"])
        for k, x in es:
            p = prefix + (("*" if wild else json.dumps(k)),)
            if not wild:
                out[p] = x
            out.update(_key_paths(x, p, untyped))
    return out


def nested_key_gained_over_stale_data(case, read):
    """True iff the document read was written at version k, is read at version j > k under the same top-level idx, and
    the type at j declares a nested key that (a) the type at k declares with a DIFFERENT type while some version in
    between does not declare it at all (removed, then re-added), or (b) lies directly inside a map that was untyped
    at k."""
    k = case["docs"][read["doc"] - 1][0]
    j = read["at"]
    decls = case["decls"]
    for name, t_k, _u in decls[k - 1]:
        at_j = [f for f in decls[j - 1] if f[0] == name]
        if not at_j or any(all(f[0] != name for f in decls[m - 1]) for m in range(k, j + 1)):
            continue        # a removed top-level field comes back under a new idx: not this finding
        untyped = set()
        pk, pj = _key_paths(t_k, (), untyped), _key_paths(at_j[0][1])
        for p, ty in pj.items():
            if p[:-1] in untyped:
                return True
            if p in pk and pk[p] != ty:
                for m in range(k + 1, j):
                    tm = [f for f in decls[m - 1] if f[0] == name][0][1]
                    if p not in _key_paths(tm):
                        return True
    return False


# ---------------------------------------------------------------------------

def _enumerate(tier, wd):
    res = vlib.run_tlc("MC_Schema", f"MC_Schema_{tier}.cfg", wd, workers=12, timeout=2400 if tier == "thorough" else 600,
                       heap="12g", out_name="schema.out", allow_violation=True)
    model_tail = None
    if res["violated"] or res["errors"]:
        with open(res["out"], errors="replace") as f:
            lines = [l[:400] for l in f if not l.startswith('<<"REPLAY"')]
        model_tail = "".join(lines[-60:])
        if not res["violated"]:
            print(model_tail)
            raise vlib.ToolError("TLC failed on MC_Schema (not an invariant violation)")
    elif res["rc"] != 0:
        raise vlib.ToolError(f"TLC failed rc={res['rc']} on MC_Schema")
    counts = {f: 0 for f in FAMS}
    upg, samples = [], {}
    cf = os.path.join(wd, "cases.jsonl")
    kinds = {"valid": 0, "mut": 0}
    verdicts = {"set_accept": 0, "set_reject": 0, "typed_accept": 0, "typed_reject": 0}
    with open(cf, "w") as out:
        for body in vlib.tlc_printed(res["out"], "REPLAY"):
            out.write(body + "\n")
            for fam in FAMS:
                if f'"fam":"{fam}"' in body:
                    counts[fam] += 1
                    break
            else:
                raise vlib.ToolError("REPLAY line without a family: " + body[:200])
            if fam == "upg":
                upg.append(json.loads(body))
            elif fam == "val":
                kinds["mut" if '"kind":"mut"' in body else "valid"] += 1
                verdicts["set_accept" if '"setok":true' in body else "set_reject"] += 1
                verdicts["typed_reject" if '"typed":["err"]' in body else "typed_accept"] += 1
                if "val" not in samples and '"kind":"mut"' in body and '"setok":false' in body and len(body) < 1500:
                    samples["val"] = json.loads(body)
            elif fam not in samples and len(body) < 4000:
                samples[fam] = json.loads(body)
    return res, model_tail, cf, counts, upg, samples, kinds, verdicts


def _drive(cf, col_every, timeout=2400):
    rc, text = vlib.run_bin("drive_schema", ["replay", cf, "--col", col_every], timeout=timeout)
    if rc != 0:
        print(text[-3000:])
        raise vlib.ToolError("drive_schema failed")
    lines = [json.loads(x) for x in text.strip().splitlines() if x.startswith("{")]
    summ = lines[-1]
    if not summ.get("summary"):
        raise vlib.ToolError("drive_schema printed no summary")
    return summ, [x for x in lines if "mismatch" in x], [x for x in lines if x.get("note") == "lawfail"]


def run(tier):
    t0 = time.time()
    vlib.build_harness()
    wd = vlib.workdir("c13-" + tier)
    n_viol = 0
    res, model_tail, cf, counts, upg, samples, kinds, verdicts = _enumerate(tier, wd)
    vlib.log(f"[C13] X/R MC_Schema_{tier}.cfg: {res['states']} states, cases {counts}, laws violated={res['violated']}")
    if model_tail is not None:
        vlib.violation(PROP, {"property": PROP, "kind": "model", "cfg": f"MC_Schema_{tier}.cfg", "tail": model_tail})
        n_viol += 1
    summ, mismatches, notes = _drive(cf, 1)
    vlib.log(f"[C13] R drive_schema: {summ['checks']} checks on {sum(summ['cases'].values())} cases, "
             f"{summ['col_docs']} documents through {summ['col_types']} x 2 real collections, "
             f"mismatches={summ['mismatches']} panics={summ['panics']}")
    if summ["cases"] != {k: v for k, v in counts.items() if v}:
        raise vlib.ToolError(f"driver replayed {summ['cases']}, TLC emitted {counts}")
    seen = set()
    for mm in mismatches:
        if mm["mismatch"] in seen and len(seen) > 1:
            continue
        seen.add(mm["mismatch"])
        if n_viol < 8:
            vlib.violation(PROP, {"property": PROP, "kind": "conformance", "total_mismatches": summ["mismatches"],
                                  "by_what": summ["by_what"], **mm})
            n_viol += 1
    if summ["mismatches"] and not mismatches:
        raise vlib.ToolError("mismatches counted but none printed")

    # reads that break the promise according to the specification itself
    obs = {(n["c"], n["doc"], n["at"]): n["observed"] for n in notes}
    known = {k["matcher"]: k for k in vlib.findings_for(PROP)}
    lawfails, known_hits, reads = [], [], 0
    for c in upg:
        for r in c["reads"]:
            reads += 1
            if not r["law"]:
                w = {"property": PROP, "kind": "law",
                     "what": "a document written under an older schema version is not read back with its surviving "
                             "fields unchanged after upgrades that Schema::upgrade_with permitted",
                     "written_at_version": c["docs"][r["doc"] - 1][0], "read_at_version": r["at"],
                     "document": c["docs"][r["doc"] - 1][1], "declarations": c["decls"],
                     "specification_predicts": r["expect"], "real_code": obs.get((c["c"], r["doc"], r["at"])),
                     "case": c}
                if "nested_key_gained_over_stale_data" in known and nested_key_gained_over_stale_data(c, r):
                    known_hits.append(w)
                else:
                    lawfails.append(w)
    if known_hits:
        w = known_hits[0]
        vlib.known(PROP, f"{known['nested_key_gained_over_stale_data']['what']} ({len(known_hits)} reads in "
                         f"{len({x['case']['c'] for x in known_hits})} chains, e.g. declarations "
                         f"{json.dumps(w['declarations'])[:400]} document {json.dumps(w['document'])[:200]} -> {w['real_code']})")
    # one witness per chain; report the first two chains and the last one (the explicit chains come last)
    per_chain = {}
    for w in lawfails:
        per_chain.setdefault(w["case"]["c"], w)
    order = sorted(per_chain)
    for cno in order[:2] + order[2:][-1:]:
        w = per_chain[cno]
        w["total_broken_reads"] = len(lawfails)
        w["chains_with_broken_reads"] = len(order)
        vlib.violation(PROP, w)
        n_viol += 1
    vlib.log(f"[C13] upgrade chains: {counts['upg']} chains, {reads} reads of older documents, promise broken in "
             f"{len(lawfails) + len(known_hits)} ({len(known_hits)} matched by known findings)")

    cov = {
        "states": res["states"],
        "transitions": res["generated"],
        "traces_validated_against_impl": sum(counts.values()),
        "evaluations": summ["checks"],
        "distinct_nontrivial": counts["val"] + counts["upg"] + counts["bud"],
        "rule": "X+R: Schema.tla defines FieldType validity (type, nullability, map key set, wildcard key variant, tuple "
                "arity, read-back shapes), the complexity budget, normalize, prune_undeclared, the schema-less stored "
                "shape, the declared variant (Canon), type-driven extraction, upgrade compatibility / idx allocation / "
                "try_from_doc, and the derive mapping. TLC checks on the specification, for every enumerated (type, "
                "value): normalising never invalidates; what set_field accepts is storable => read path returns exactly "
                "the declared variant, which is valid and a fixpoint of store/read; what the typed path accepts is "
                "valid, canonical and a fixpoint. TLC emits, per case, every verdict and value; the driver requires "
                "the real code to agree on Schema::validate, Document::set_field (+ in-memory form), cbor2 bytes -> "
                "DocumentOwned shape, try_from_doc, set_doc, second store/read, Document::try_from (+ round trip), "
                "FieldEntry::coerce, and Collection::add/get with compress_level 0 and 3. Types: the FieldType grammar "
                "to nesting depth 4 (all scalars at depth <= 2 (thorough 3); read-back sensitive leaves below). Values: "
                "generated from the type (boundary atoms) + EVERY single mutation (replace any node by each of 23 "
                "alien values, append / drop an element, add / drop / re-key a map entry) of 2 (thorough 3) valid "
                "values per type. Budget edges (4096/4097 elements and entries, 16384/16385 nodes, depth 64/65, Json "
                "payloads). Upgrade chains: every history (absent / each variant) of one field, and pairs of fields, "
                "over 3 (thorough 4) versions: upgrade_with verdict, idx table, watermark, schema serialisation, "
                "documents written at every version read from bytes at every later version. Derive: 3 structs + 2 "
                "nested FieldTyped structs covering every supported Rust type: derived FieldType = DeriveFT, rows of "
                "boundary values T <- Document, T -> Document -> bytes -> Document -> T",
        "samples": [samples.get("val"), samples.get("bud"), {"upgrade_chain": (upg[len(upg) // 2]["decls"] if upg else None)}],
        "exhaustive": True,
        "model_checking": {"cfg": f"MC_Schema_{tier}.cfg", "states": res["states"], "transitions": res["generated"]},
        "cases": counts, "value_cases": kinds, "verdicts": verdicts,
        "upgrade_reads": reads, "upgrade_promise_broken": len(lawfails) + len(known_hits),
        "collection_documents": summ["col_docs"], "collection_schemas": summ["col_types"],
        "driver_mismatches": summ["mismatches"], "driver_panics": summ["panics"],
    }
    vlib.write_evidence(PROP, tier, "model_checking", cov, time.time() - t0, n_viol, assumptions=[
        "numbers are atoms: the specification's fact tables (sign, ranges, f64->f32 rounding, f32 read-back) are "
        "checked by the driver against real arithmetic before anything is replayed",
        "the stored form is the crate's own cbor2 serialisation of Document (what Collection writes); the JSON "
        "(human-readable) encoding is not covered",
        "'accepted at write time' = the write call returned Ok AND the stored bytes could be produced (a NaN inside an "
        "untyped array passes validation but cannot be serialised: the write fails, nothing is stored)",
        "where the schema declares nothing (untyped Array / Map, a non-JSON value under Json) the declared variant is "
        "the generic CBOR shape; a JSON null under Option is Null",
    ])
    vlib.cleanup(wd)
    return n_viol


def replay(payload):
    kind = payload.get("kind")
    case = payload.get("case")
    if kind not in ("conformance", "law") or not isinstance(case, dict) or "truncated" in case or case.get("fam") == "col":
        print(json.dumps(payload)[:3000])
        return 1
    vlib.build_harness()
    wd = vlib.workdir("c13-replay")
    cf = os.path.join(wd, "case.jsonl")
    with open(cf, "w") as f:
        f.write(json.dumps(case, separators=(",", ":")) + "\n")
    summ, mismatches, notes = _drive(cf, 1, timeout=300)
    for mm in mismatches:
        print("MISMATCH:", mm["mismatch"], "| got:", mm["got"][:400], "| want:", mm["want"][:400])
    bad = len(mismatches)
    if kind == "law":
        for n in notes:
            print(f"document {n['doc']} read at version {n['at']}: {n['observed'][:400]}")
            if n["observed"].startswith("Err("):
                bad += 1
    vlib.cleanup(wd)
    return 1 if bad else 0
