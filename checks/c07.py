"""C07 - Store wrappers behave as a conforming object store with real CAS."""
import json
import os
import time

import vlib

PROP = "C07"


def _cases(res, wd, name):
    path = os.path.join(wd, name + ".ndjson")
    n = 0
    with open(path, "w") as f:
        for b in vlib.tlc_printed(res["out"], "REPLAY"):
            f.write(b + "\n")
            n += 1
    os.remove(res["out"])
    if n == 0:
        raise vlib.ToolError("TLC printed no cases")
    return path, n


def _drive(args, wd, out_name, env=None):
    out = os.path.join(wd, out_name)
    rc, text = vlib.run_bin("drive_objstore", args + [out], timeout=3000, env=env)
    if rc != 0 or not os.path.exists(out):
        print(text[-3000:])
        raise vlib.ToolError("drive_objstore failed (panic in the harness or in the code under test)")
    vlib.log(text.strip().splitlines()[-1])
    with open(out) as f:
        return json.load(f)


def _drive_seq_parallel(seq_path, wd, tier, nproc=12, mode="seq"):
    """The sequential families are embarrassingly parallel: split the case file and run one driver per chunk."""
    from concurrent.futures import ThreadPoolExecutor
    outs = [open(os.path.join(wd, f"seq{i}.ndjson"), "w") for i in range(nproc)]
    with open(seq_path) as f:
        for n, line in enumerate(f):
            outs[n % nproc].write(line)
    for o in outs:
        o.close()
    os.remove(seq_path)

    def one(i):
        return _drive([mode, os.path.join(wd, f"seq{i}.ndjson")], wd, f"seq{i}.json", env={"VERIF_TIER": tier})

    with ThreadPoolExecutor(max_workers=nproc) as ex:
        parts = list(ex.map(one, range(nproc)))
    merged = dict(parts[0])
    for k in ("cases", "calls", "n_disagree", "nontrivial", "reference_skipped_self_rename"):
        merged[k] = sum(p.get(k, 0) for p in parts)
    merged["per_store"] = {}
    merged["per_observation"] = {}
    for p in parts:
        for st, n in (p.get("per_store") or {}).items():
            merged["per_store"][st] = merged["per_store"].get(st, 0) + n
        for st, n in (p.get("per_observation") or {}).items():
            merged["per_observation"][st] = merged["per_observation"].get(st, 0) + n
    merged["disagreements"] = [d for p in parts for d in p["disagreements"]]
    merged["samples"] = [x for p in parts for x in p.get("samples", [])][:4]
    for i in range(nproc):
        try:
            os.remove(os.path.join(wd, f"seq{i}.ndjson"))
        except OSError:
            pass
    return merged


def run(tier):
    t0 = time.time()
    vlib.build_harness()
    wd = vlib.workdir("c07-" + tier)
    n_viol = 0
    tlc = {}
    res = vlib.run_tlc("MC_ObjStore", f"MC_ObjStore_{tier}.cfg", wd, workers=12, timeout=2400, heap="12g", out_name="seq.out")
    tlc["seq"] = {"states": res["states"], "transitions": res["generated"]}
    seq_path, n_seq = _cases(res, wd, "seq")
    seq = _drive_seq_parallel(seq_path, wd, tier) if n_seq > 200000 else \
        _drive(["seq", seq_path], wd, "seq.json", env={"VERIF_TIER": tier})
    # family ext: every reachable state (multipart, nested keys) x the battery of observations
    # one worker: strict breadth-first order, so that the VIEW keeps the SHORTEST witness of every state
    res = vlib.run_tlc("MC_ObjStoreExt", f"MC_ObjStoreExt_{tier}.cfg", wd, workers=1, timeout=2400, heap="12g", out_name="ext.out")
    tlc["ext"] = {"states": res["states"], "transitions": res["generated"]}
    ext_path, n_ext = _cases(res, wd, "ext")
    ext = _drive_seq_parallel(ext_path, wd, tier, mode="ext") if n_ext > 1500 else \
        _drive(["ext", ext_path], wd, "ext.json", env={"VERIF_TIER": tier})
    if os.path.exists(ext_path):
        os.remove(ext_path)
    res = vlib.run_tlc("MC_ObjStore", f"MC_ObjStore_conc_{tier}.cfg", wd, workers=12, timeout=2400, heap="12g", out_name="conc.out")
    tlc["conc"] = {"states": res["states"], "transitions": res["generated"]}
    conc_path, n_conc = _cases(res, wd, "conc")
    conc = _drive(["conc", conc_path], wd, "conc.json", env={"VERIF_CONC_CAP": "60" if tier == "quick" else "200"})
    rng = _drive(["ranges"], wd, "ranges.json")

    # a disagreement on the reference itself is a bug of the specification, not of the code
    if seq["per_store"].get("InMemory") or ext["per_store"].get("InMemory"):
        d = [x for x in seq["disagreements"] + ext["disagreements"] if x["store"] == "InMemory"][:3]
        print(json.dumps(d)[:2000])
        raise vlib.ToolError("ObjStore.tla disagrees with the reference store object_store::memory::InMemory")
    for fam, out in (("seq", seq), ("ext", ext), ("conc", conc), ("ranges", rng)):
        if out["n_disagree"]:
            vlib.violation(PROP, {"property": PROP, "family": fam, "total": out["n_disagree"],
                                  "per_store": out.get("per_store"), "disagreements": out["disagreements"][:40]})
            n_viol += out["n_disagree"]
    cov = {
        "states": tlc["seq"]["states"] + tlc["ext"]["states"] + tlc["conc"]["states"],
        "transitions": tlc["seq"]["transitions"] + tlc["ext"]["transitions"] + tlc["conc"]["transitions"],
        "traces_validated_against_impl": (seq["cases"] + ext["cases"]) * (len(seq["stores"]) - 1) + conc["schedules"],
        "evaluations": seq["calls"] + ext["calls"] + conc["schedules"] + rng["evaluations"],
        "distinct_nontrivial": seq["nontrivial"] + ext["nontrivial"] + conc["nontrivial"],
        "rule": "seq: every call sequence of length N over 2 keys (one nested under the other) x 2 values x all put "
                "modes / token references (current, stale, foreign, never issued) / get+head preconditions / delete / copy "
                "/ rename incl. self-rename / multipart complete and abort, executed on InMemory (validates the spec), MetaStore and EncryptedStore with "
                "warm and cold metadata caches and several chunk sizes; non-trivial = at least two commits. ext: EVERY state of ObjStoreExt.tla reachable by <= N building calls "
                "(put, multipart complete/abort, delete, copy, rename) over 4 nested keys (a, a/b, a/b/c, ab), and in "
                "each of them a battery of ~300 observations with the expected answers: get/head under if_(un)modified_"
                "since before/at/after the commit's timestamp, both dates, token LISTS, '*', and the precedence rules "
                "of combined conditions; list(prefix), list_with_offset(prefix, offset), list_with_delimiter(prefix) for "
                "6 prefixes / 5 offsets; every listed entry must report what head reports (size, token, timestamp); "
                "non-trivial = at least two keys present. conc: every "
                "pair of calls on one key after every prefix, ALL interleavings of their inner-store calls (capped), "
                "outcome must be that of a sequential order (rename = copy + delete); non-trivial = the orders differ. "
                "ranges: every bounded/offset/suffix range and multi-range read over sizes around chunk multiples",
        "samples": seq["samples"][:2] + conc["samples"][:1],
        "exhaustive": True,
        "stores": seq["stores"],
        "seq": {k: seq[k] for k in ("cases", "calls", "n_disagree", "reference_skipped_self_rename")},
        "ext": {k: ext[k] for k in ("cases", "calls", "n_disagree", "per_observation")},
        "conc": {k: conc[k] for k in ("cases", "schedules", "n_disagree")},
        "ranges": {k: rng[k] for k in ("evaluations", "n_disagree")},
        "tlc": tlc,
    }
    vlib.write_evidence(PROP, tier, "model_checking", cov, time.time() - t0, n_viol, assumptions=[
        "delete of a missing key: Ok (reference) and NotFound (wrappers) are both accepted",
        "object versions are not compared (documented absence); timestamps only for consistency between head and put",
        "date preconditions are relative to the timestamp each store itself reports for the commit (+-1 s); "
        "if_(un)modified_since are not raced against writers",
        "multipart uploads: two parts, complete or abort; parts are not interleaved with other calls on the key "
        "except in the conc family (complete vs put/get/delete/copy/rename)",
    ])
    vlib.cleanup(wd)
    return n_viol


def replay(payload):
    vlib.build_harness()
    wd = vlib.workdir("c07-replay")
    fam = payload["family"]
    if fam == "ranges":
        out = _drive(["ranges"], wd, "ranges.json")
    else:
        path = os.path.join(wd, "cases.ndjson")
        with open(path, "w") as f:
            seen = set()
            for d in payload["disagreements"]:
                k = json.dumps(d["case"])
                if k not in seen:
                    seen.add(k)
                    f.write(k + "\n")
        out = _drive([fam, path], wd, "out.json")
    for d in out["disagreements"][:10]:
        print(json.dumps(d)[:500])
    return 1 if out["n_disagree"] else 0
