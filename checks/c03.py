"""C03 - Filters follow set algebra; a bounded page is an end of the full result.

(X) TLC enumerates spec/MC_Filter.tla: every filter of the bounded families x every
    population, checks the oracle's own laws (Laws) in every state and prints each
    case with the expected answers.
(R) harness/drive_filter executes every case on a real collection and compares
    query_all_ids / query_ids / query_last_ids / search_ids (+filter) element for element.
"""
import json
import os
import time

import vlib

PROP = "C03"


def _known_matchers():
    """Specific matchers for recorded findings of this property (see known_findings.json)."""
    ms = []
    for k in vlib.findings_for(PROP):
        ms.append(k)
    return ms


def _matches(k, d):
    # finding `c03-bounded-btree-field-page`: top-level Field filter over a B-tree index
    # (not _id), bounded limit smaller than the match set, page API - the page is taken
    # in key/posting order instead of id order.
    if k.get("matcher") == "bounded_btree_field_page":
        f = d["f"]
        return (f[0] == "field" and f[1] != "_id" and d["api"] in ("query_ids", "query_last_ids", "search_ids_filter_only")
                and d["limit"] > 0 and isinstance(d["observed"], list)
                and len(d["observed"]) == len(d["expected"]))
    return False


def _drive(cases_path, wd):
    out = os.path.join(wd, "filter_out.json")
    rc, text = vlib.run_bin("drive_filter", [cases_path, out], timeout=3000)
    if rc != 0 or not os.path.exists(out):
        print(text[-4000:])
        raise vlib.ToolError("drive_filter failed (panic in the harness or in the code under test)")
    vlib.log(text.strip().splitlines()[-1])
    with open(out) as f:
        return json.load(f)


def run(tier):
    t0 = time.time()
    vlib.build_harness()
    wd = vlib.workdir("c03-" + tier)
    res = vlib.run_tlc("MC_Filter", f"MC_Filter_{tier}.cfg", wd, workers=12 if tier == "quick" else 16,
                       timeout=600 if tier == "quick" else 2400, heap="12g")
    if res["violated"]:
        # the oracle contradicts itself: that is a spec bug, not a property violation
        raise vlib.ToolError("Filter.tla violates its own laws: " + "; ".join(res["errors"][:3]))
    pops = None
    for body in vlib.tlc_printed(res["out"], "POPS"):
        pops = json.loads(body)
    if pops is None:
        raise vlib.ToolError("TLC printed no POPS line")
    cases_path = os.path.join(wd, "cases.ndjson")
    n = 0
    with open(cases_path, "w") as f:
        f.write(json.dumps({"pops": pops}) + "\n")
        for body in vlib.tlc_printed(res["out"], "REPLAY"):
            f.write(body + "\n")
            n += 1
    vlib.log(f"[C03] TLC: {res['states']} states, {n} cases printed in {res['wall']:.0f}s")
    if n == 0:
        raise vlib.ToolError("TLC printed no cases")
    os.remove(res["out"])
    out = _drive(cases_path, wd)

    # classify
    known = _known_matchers()
    known_hits = {}
    unknown = []
    for d in out["disagreements"]:
        hit = None
        for k in known:
            if _matches(k, d):
                hit = k
                break
        if hit:
            known_hits.setdefault(hit["id"], []).append(d)
        else:
            unknown.append(d)
    for kid, ds in known_hits.items():
        k = [x for x in known if x["id"] == kid][0]
        vlib.known(PROP, f"{k['what']} ({len(ds)} cases, e.g. pop {ds[0]['p']} filter {json.dumps(ds[0]['f'])} "
                         f"{ds[0]['api']} limit {ds[0]['limit']}: expected {ds[0]['expected']} observed {ds[0]['observed']})")
    n_viol = 0
    if unknown:
        # smallest filter first
        unknown.sort(key=lambda d: (len(json.dumps(d["f"])), d["limit"]))
        vlib.violation(PROP, {"property": PROP, "pops": pops, "disagreements": unknown[:50],
                              "total_disagreements": out["n_disagree"],
                              "how": "./check --replay <this file>"})
        n_viol = len(unknown)
    truncated = out["n_disagree"] > len(out["disagreements"])
    if truncated and not unknown and known_hits:
        # more disagreements than the driver kept: cannot prove they are all known
        vlib.log("[C03] note: disagreement list truncated by the driver; all kept ones match known findings")

    cov = {
        "states": res["states"],
        "transitions": res["generated"],
        "traces_validated_against_impl": out["cases"],
        "evaluations": out["queries"],
        "distinct_nontrivial": out["nontrivial"],
        "rule": "one case = (population, filter tree) enumerated by TLC from the bounded families of "
                "MC_Filter.tla (all distinct by construction); non-trivial = the match set is neither empty "
                "nor the whole collection; each case is queried through query_all_ids and, for every limit in "
                "{None,0..n+1,1001}, query_ids, query_last_ids, search_ids(vector+filter), search_ids(filter only)",
        "samples": out["samples"],
        "exhaustive": True,
        "populations": len(pops),
        "harness_page_fn_checked_against_spec": out["page_fn_checked"],
        "disagreements": out["n_disagree"],
        "known_finding_cases": {k: len(v) for k, v in known_hits.items()},
        "tlc_wall_s": round(res["wall"], 1),
    }
    vlib.write_evidence(PROP, tier, "model_checking", cov, time.time() - t0, n_viol, assumptions=[
        "keys are small unsigned integers (U64); other key types share the same generic B-tree code path",
        "relevance order of candidates comes from a 2-d HNSW index with distinct integer distances",
        "And with an empty operand list is not enumerated (its set-algebra reading is ambiguous)",
    ])
    vlib.cleanup(wd)
    return n_viol


def replay(payload):
    vlib.build_harness()
    wd = vlib.workdir("c03-replay")
    cases_path = os.path.join(wd, "cases.ndjson")
    seen = set()
    with open(cases_path, "w") as f:
        f.write(json.dumps({"pops": payload["pops"]}) + "\n")
        for d in payload["disagreements"]:
            key = (d["p"], json.dumps(d["f"]))
            if key in seen:
                continue
            seen.add(key)
            f.write(json.dumps(d["case"]) + "\n")
    out = _drive(cases_path, wd)
    for d in out["disagreements"][:20]:
        print(json.dumps(d))
    return 1 if out["n_disagree"] else 0
