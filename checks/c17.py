"""C17 - A KML statement is all-or-nothing and versions each element once."""
import json
import os
import random
import time

import vlib
from checks import collection_common as cc
from checks import nexus_gen as g

PROP = "C17"


def all_templates():
    t = [g.upsert_person('alice', 'Alice'), g.create_pref('dark'), g.claim('bob', 'dark', '0.9'),
         g.claim('carol', 'light', '0.6', 'oppose'), g.experience('Deploy X', ['Step one', 'Step two']),
         g.update_summary('Alice', 'rev 1'), g.rename('Alice', 'Alice R.'), g.retract_one(), g.supersede('bob', 'dark', '0.95'),
         g.forward_reference(), g.archive('Carol'), g.tombstone('Forward'), g.upsert_person('dave', 'Dave'),
         g.merge('Dave', 'Bob'), g.expect_version_fails('alice'), g.unknown_type_last('alice'), g.unknown_type_first('alice'),
         g.unknown_type_middle('alice', 'bob'), g.key_conflict_at_commit('bob'), g.create_person('bob', 'Dup'),
         g.unbound_handle(), g.double_ensure_same_tuple('alice', 'tabs'),
         g.double_ensure_anonymous('carol', 'spaces'), g.double_ensure_anonymous('dave', 'vim', False), g.double_ensure_anonymous('alice', 'vim'),
         g.touch_twice('alice'), g.anon_ensure_then_fail('bob', 'emacs'), g.ensure_expect_version_fails('carol', 'dark'), g.purge_then_conflict('Bob', 'alice'),
         g.purge('Bob')]
    stmts = []
    for x in t:
        stmts.append({"text": x, "dry": True})      # first as a dry run: nothing may change
        stmts.append({"text": x})
    return {"name": "all-templates", "stmts": stmts, "battery": [], "replay": False}


def authorization():
    """Statements by restricted principals (written through the host control plane): `reader` may not write at all,
    `creator` may create and update but not archive / tombstone / purge / assert - so a block whose first clauses are
    permitted is refused by a later one."""
    st = [{"text": g.upsert_person('alice', 'Alice')}, {"text": g.claim('bob', 'dark', '0.9')},
          {"text": g.upsert_person('carol', 'Carol'), "as": "reader"},
          {"text": g.claim('carol', 'light', '0.6'), "as": "reader"},
          {"text": g.archive('Alice'), "as": "reader"},
          {"text": g.upsert_person('carol', 'Carol'), "as": "creator"},
          {"text": g.update_summary('Carol', 'by creator'), "as": "creator"},
          {"text": 'MUTATE {\n %s\n %s\n}' % (g.upsert_person('dave', 'Dave'), g.archive('Alice')), "as": "creator"},
          {"text": 'MUTATE {\n %s\n %s\n}' % (g.archive('Alice'), g.upsert_person('dave', 'Dave')), "as": "creator"},
          {"text": g.claim('dave', 'tabs', '0.5'), "as": "creator"},
          {"text": g.purge('Alice'), "as": "creator"},
          {"text": g.tombstone('Carol'), "as": "creator"},
          {"text": g.merge('Carol', 'Alice'), "as": "creator"},
          {"text": g.upsert_person('dave', 'Dave'), "as": "creator", "dry": True},
          {"text": g.archive('Alice')}, {"text": g.update_summary('Carol', 'by owner')}]
    return {"name": "authorization", "stmts": st, "battery": [], "replay": False, "principals": True}


def histories(tier):
    rng = random.Random(vlib.seed() + 17)
    hs = [all_templates(), authorization()]
    n, length = (40, 14) if tier == "quick" else (500, 22)
    for i in range(n):
        h = g.gen_history(rng, f"rand-{i}", length, with_purge=(i % 3 == 0), bad_ratio=0.45)
        if i % 4 == 1:
            # some statements are sent by the restricted principals
            h["principals"] = True
            for st in h["stmts"][2:]:
                if rng.random() < 0.4:
                    st["as"] = rng.choice(["reader", "creator"])
        hs.append(h)
    for h in hs:
        h["battery"] = []            # C17 compares store dumps, not query answers
        h["replay"] = False
    return hs


def run_histories(prop, hs, wd, label, which):
    """Runs drive_nexus over the histories and validates the requested trace ('tx' or 'hist')."""
    stats = {"histories": len(hs), "statements": 0, "refused": 0, "queries": 0, "states": 0, "events": 0}
    failures = []
    per = 25
    for start in range(0, len(hs), per):
        chunk = hs[start:start + per]
        hf = os.path.join(wd, f"{label}{start}.jsonl")
        txf = os.path.join(wd, f"{label}{start}.tx.ndjson")
        hif = os.path.join(wd, f"{label}{start}.hist.ndjson")
        with open(hf, "w") as f:
            for h in chunk:
                f.write(json.dumps(h) + "\n")
        rc, text = vlib.run_bin("drive_nexus", ["run", hf, txf, hif], timeout=2400)
        if rc != 0:
            print(text[-3000:])
            failures.append({"tag": "driver", "reason": "drive_nexus aborted (panic)", "line_in_trace": 0,
                             "event": {"tail": text[-1500:]}, "trace": chunk, "header": None})
            continue
        summ = json.loads(text.strip().splitlines()[-1])
        for k in ("statements", "refused", "queries"):
            stats[k] += summ[k]
        tf, spec = (txf, "NexusTxTrace") if which == "tx" else (hif, "HistoryTrace")
        stats["events"] += summ["tx_events"] if which == "tx" else summ["hist_events"]
        with open(tf) as f:
            header = json.loads(f.readline())
        res = cc.validate_file(tf, wd, f"{label}{start}", cfg=spec + ".cfg", module=spec)
        stats["states"] += res["states"]
        for fl in res["failures"]:
            fl["header"] = header
            fl["spec"] = spec
            failures.append(fl)
        if "sample" not in stats:
            with open(tf) as f:
                stats["sample"] = [json.loads(next(f)) for _ in range(6)][2:]
            for e in stats["sample"]:
                if "st" in e:
                    e["st"] = {k: (v if not isinstance(v, list) else v[:4]) for k, v in e["st"].items()}
        os.remove(txf)
        os.remove(hif)
    return stats, failures


def run(tier):
    t0 = time.time()
    vlib.build_harness()
    wd = vlib.workdir("c17-" + tier)
    n_viol = 0
    hs = histories(tier)
    stats, failures = run_histories(PROP, hs, wd, "tx", "tx")
    vlib.log(f"[C17] T statements: {stats['histories']} histories, {stats['statements']} statements "
             f"({stats['refused']} refused), {stats['states']} states, failures={len(failures)}")
    # readers against a committing writer
    cst = {"statements": 0, "reads": 0, "states": 0}
    ch = {"name": "readers-vs-writer", "battery": g.BATTERY[:8], "stmts": [{"text": t} for t in [
        g.upsert_person('alice', 'Alice'), g.claim('bob', 'dark', '0.9'), g.update_summary('Alice', 'rev 1'),
        g.key_conflict_at_commit('bob'), g.archive('Bob'), g.experience('Deploy X', ['Step one', 'Step two']),
        g.double_ensure_same_tuple('alice', 'tabs'), g.merge('Alice', 'Bob')] + ([] if tier == "quick" else [
        g.supersede('bob', 'dark', '0.95'), g.retract_one(), g.tombstone('Step one'), g.unknown_type_last('alice')])]}
    hf = os.path.join(wd, "conc.jsonl")
    tf = os.path.join(wd, "conc.ndjson")
    with open(hf, "w") as f:
        f.write(json.dumps(ch) + "\n")
    rc, text = vlib.run_bin("drive_nexus", ["conc", hf, tf], timeout=1200)
    if rc != 0:
        print(text[-3000:])
        failures.append({"tag": "driver", "reason": "drive_nexus conc aborted (panic)", "line_in_trace": 0,
                         "event": {"tail": text[-1500:]}, "trace": [ch], "header": None})
    else:
        summ = json.loads(text.strip().splitlines()[-1])
        cst.update(statements=summ["statements"], reads=summ["reads"])
        with open(tf) as f:
            header = json.loads(f.readline())
        res = cc.validate_file(tf, wd, "conc", cfg="NexusTxTrace.cfg", module="NexusTxTrace")
        cst["states"] = res["states"]
        for fl in res["failures"]:
            fl["header"] = header
            fl["spec"] = "NexusTxTrace"
            failures.append(fl)
    vlib.log(f"[C17] T readers vs writer: {cst['statements']} statements, {cst['reads']} reader runs at parked backend "
             f"mutations, failures={len([f for f in failures if f['tag'] == 'readers-vs-writer'])}")
    for fl in failures[:8]:
        vlib.violation(PROP, {"property": PROP, "kind": "trace", "spec": fl.get("spec"), "tag": fl["tag"],
                              "reason": fl["reason"], "line_in_trace": fl["line_in_trace"], "event": fl["event"],
                              "header": fl["header"], "trace": fl["trace"]})
        n_viol += 1
    cov = {
        "states": stats["states"],
        "transitions": stats["events"],
        "traces_validated_against_impl": stats["histories"],
        "evaluations": stats["statements"],
        "distinct_nontrivial": stats["refused"],
        "rule": "T: histories of KML statements through the real parser and executor on a fresh nexus: multi-clause "
                "blocks with forward references, UPSERT / ENSURE hits and misses, EXPECT VERSION guards that fail, "
                "unknown types as the first / middle / last clause, key conflicts only the commit-time identity pass "
                "can see, duplicate ENSURE of one new tuple, unbound handles, supersession, retraction, archive / "
                "tombstone / merge, purge (+ purge in a block that is refused at commit), statements by restricted "
                "principals (refused outright, or refused by a later clause of a block whose first clauses were "
                "permitted), every template also as a dry run. Before and after every statement the WHOLE store is dumped (every row of every element "
                "collection with engine state and version, the transaction journal, the version log, the space row, "
                "tuple -> element and (type, key) -> concept). NexusTxTrace: a refused / dry-run / no-effect statement "
                "leaves the dump unchanged (only the counter may move); a committed one satisfies CommitOK (fresh "
                "greater sequence number, exactly one journal entry, every changed element exactly one version up "
                "with one version-log row, created ones at version 1, everything else byte-identical); invariants "
                "NoPendingShell, VersionLogComplete, JournalBelowSeq, TupleUnique, KeyUnique on every dump. Readers: the "
                "writer's backend mutations are parked one by one; at the sampled ones a reader runs 8 queries through "
                "the nexus: it must be held by the lock, or see the answers before the statement, or the answers after "
                "it - never a mixture; a refused statement changes no answer",
        "samples": [{"first_events": stats.get("sample")}],
        "exhaustive": False,
        "histories": stats["histories"], "statements": stats["statements"], "refused": stats["refused"],
        "reader_runs": cst["reads"],
    }
    vlib.write_evidence(PROP, tier, "exploration", cov, time.time() - t0, n_viol, assumptions=[
        "readers run against a writer parked at its backend mutations (sampled: the first 6 and every 4th) with a 6 ms "
        "deadline; a reader that has not answered by then counts as held by the nexus lock",
        "authorization refusals come from two restricted principals (reader; creator without archive / tombstone / purge / "
        "assert); the governance audit collection is not part of the dump (a refusal may be audited)",
    ])
    vlib.cleanup(wd)
    return n_viol


def replay(payload):
    if payload.get("kind") != "trace" or not payload.get("header"):
        print(json.dumps(payload)[:2000])
        return 1
    wd = vlib.workdir("c17-replay")
    spec = payload.get("spec") or "NexusTxTrace"
    p = os.path.join(wd, "t.ndjson")
    with open(p, "w") as f:
        f.write(json.dumps(payload["header"], separators=(",", ":")) + "\n")
        for ev in payload["trace"]:
            f.write(json.dumps(ev, separators=(",", ":")) + "\n")
    res = cc.validate_file(p, wd, "replay", cfg=spec + ".cfg", module=spec, max_failures=0)
    for fl in res["failures"]:
        print("REJECTED:", fl["reason"], "at line", fl["line_in_trace"], json.dumps(fl["event"])[:300])
    return 1 if res["failures"] else 0
