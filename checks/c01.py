"""C01 - Flushed documents survive any crash and recovery always converges."""
from checks import collection_common as cc

PROP = "C01"
ALL = ["add", "add", "update", "remove", "flush", "ext", "compact", "reopen"]
FLT = ["add", "add", "update", "update", "remove", "flush", "ext"]


def run(tier):
    if tier == "quick":
        mc = ["MC_Collection_quick.cfg", "MC_Collection_idx.cfg", "MC_Collection_fault.cfg"]
        plan = [("crud", 5, 8, ALL, "crash", 0.2),
                ("crud", 3, 8, FLT, "fault", 0.2),
                ("idxlife", 2, 6, ["add", "update", "flush", "reopen", "ext"], "crash", 0.1),
                ("crud", 0, 0, ALL, "nested", 0.2),
                ("wm", 0, 0, ALL, "crash", 0.0)]
    else:
        mc = ["MC_Collection_thorough.cfg", "MC_Collection_idx.cfg", "MC_Collection_c02.cfg", "MC_Collection_fault.cfg"]
        plan = [("crud", 60, 12, ALL, "crash", 0.2),
                ("crud", 40, 10, FLT, "fault", 0.2),
                ("unique", 10, 8, FLT, "fault", 0.3),
                ("idxlife", 20, 8, ["add", "update", "remove", "flush", "reopen", "ext"], "crash", 0.1),
                ("backfill", 20, 8, ALL, "crash", 0.2),
                ("crud", 6, 7, ALL, "nested", 0.2),
                ("idxlife", 3, 6, ["add", "update", "flush", "reopen", "ext"], "nested", 0.1),
                ("wm", 0, 0, ALL, "crash", 0.0)]
    return cc.run_property(
        PROP, tier, mc, plan,
        "X: every reachable state of MC_Collection (all interleavings of operation steps with crashes, "
        "nested crashes during recovery) with RecoverableExact/IdNotReused/WatermarkCovers/CheckpointCovers "
        "evaluated in each. T: one trace per (workload, crash point k) and (workload, k, nested crash point j); "
        "distinct_nontrivial counts the distinct crash points explored on the real code plus one clean run per "
        "workload group; every trace line is matched to a spec action with its logged fields and all invariants "
        "are evaluated after every line. Fault tier (mode fault): a storage fault - an error returned with the "
        "mutation applied or not - on EVERY backend mutation of add/update/remove/flush/save_extension workloads; the handle must "
        "either stay healthy with the operation undone (watermark put, document create + compensating delete, intent "
        "put: actions AddWmFail / AddDocFail / AddCompDelete / IntentFail, model-checked in MC_Collection_fault.cfg) or "
        "report itself poisoned, which the specification treats as Crash: it then refuses every call, writes nothing, "
        "and the SAME database reopens the collection (recovery) before the workload continues",
        ["backend = TraceStore(InMemory); MetaStore/EncryptedStore backends are covered by C07/C08 refinement",
         "each object-store mutation is atomic (the crash model of the property)",
         "B-tree/BM25 index flush is an atomic snapshot commit at its manifest write (discharged by C10/C11)",
         "crash inside collection *creation* is not enumerated here",
         "faults are injected into add / update / remove / flush / save_extension (a save_extension whose put landed "
         "leaves the handle healthy with a stale metadata version: its next metadata put is refused by the store, a "
         "flush then poisons the handle - modelled at trace level only); compaction, open and close are not faulted"])


def replay(payload):
    return cc.replay(payload)
