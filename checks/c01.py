"""C01 - Flushed documents survive any crash and recovery always converges."""
from checks import collection_common as cc

PROP = "C01"
ALL = ["add", "add", "update", "remove", "flush", "ext", "compact", "reopen"]


def run(tier):
    if tier == "quick":
        mc = ["MC_Collection_quick.cfg", "MC_Collection_idx.cfg"]
        plan = [("crud", 5, 8, ALL, "crash", 0.2),
                ("idxlife", 2, 6, ["add", "update", "flush", "reopen", "ext"], "crash", 0.1),
                ("crud", 0, 0, ALL, "nested", 0.2),
                ("wm", 0, 0, ALL, "crash", 0.0)]
    else:
        mc = ["MC_Collection_thorough.cfg", "MC_Collection_idx.cfg", "MC_Collection_c02.cfg"]
        plan = [("crud", 60, 12, ALL, "crash", 0.2),
                ("idxlife", 20, 8, ["add", "update", "remove", "flush", "reopen", "ext"], "crash", 0.1),
                ("backfill", 20, 8, ALL, "crash", 0.2),
                ("crud", 6, 7, ALL, "nested", 0.2),
                ("idxlife", 3, 6, ["add", "update", "flush", "reopen", "ext"], "nested", 0.1),
                ("wm", 0, 0, ALL, "crash", 0.0)]
    return cc.run_property(
        PROP, tier, mc, plan,
        "X: every reachable state of MC_Collection (all interleavings of operation steps with crashes, "
        "nested crashes during recovery) with RecoverableExact/IdNotReused/WatermarkCovers/CheckpointCovers "
        "evaluated in each. T: one trace per (workload, crash point k) and (workload, k, nested crash point j); "
        "distinct_nontrivial counts the distinct crash points explored on the real code plus one clean run per "
        "workload group; every trace line is matched to a spec action with its logged fields and all invariants "
        "are evaluated after every line",
        ["backend = TraceStore(InMemory); MetaStore/EncryptedStore backends are covered by C07/C08 refinement",
         "each object-store mutation is atomic (the crash model of the property)",
         "B-tree/BM25 index flush is an atomic snapshot commit at its manifest write (discharged by C10/C11)",
         "crash inside collection *creation* is not enumerated here"])


def replay(payload):
    return cc.replay(payload)
