"""C06 - Closed, deleted, poisoned or read-only handles never write; cancel = crash."""
import json
import random
import time

import vlib
from checks import collection_common as cc

PROP = "C06"

PREFIXES = [
    [{"op": "add", "val": 1}, {"op": "add", "val": 2}, {"op": "flush"}, {"op": "update", "id": 2, "val": 5}],
    [{"op": "add", "val": 1}, {"op": "add", "val": 2}, {"op": "add", "val": 4}, {"op": "ext", "x": 2},
     {"op": "remove", "id": 1}],
    [],
]
TRANSITIONS = ["close", "close_collection", "ro", "db_ro", "delete"]
DROP_OPS = [
    {"op": "add", "val": 4}, {"op": "add", "val": 3}, {"op": "update", "id": 2, "val": 6},
    {"op": "remove", "id": 2}, {"op": "flush"}, {"op": "ext", "x": 7}, {"op": "ext", "x": 0},
    {"op": "compact", "idx": "k"}, {"op": "compact", "idx": "t"}, {"op": "close"}, {"op": "reconcile"},
    # the database-level transitions, cancelled after k polls
    {"op": "close_collection"}, {"op": "delete"},
]


def _docs_after(prefix):
    """Documents the generator's reference model holds after `prefix` (generation aid, never an oracle)."""
    m = cc.Model()
    for o in prefix:
        if o["op"] == "add":
            if m.key_free(o["val"]):
                m.docs[m.next_id] = o["val"]
            m.next_id += 1
        elif o["op"] == "update" and o["id"] in m.docs and m.key_free(o["val"], besides=o["id"]):
            m.docs[o["id"]] = o["val"]
        elif o["op"] == "remove":
            m.docs.pop(o["id"], None)
    return m.docs


def scenarios(tier, seed):
    init_idx, wanted, rm = cc.GROUPS["crud"]
    base = {"init_idx": init_idx, "wanted": wanted, "rm": rm}
    out = []
    prefixes = PREFIXES[:]
    rng = random.Random(seed)
    n_rand = 2 if tier == "quick" else 25
    for _ in range(n_rand):
        prefixes.append(cc.gen_ops(rng, rng.randint(3, 8), ["add", "add", "update", "remove", "flush", "ext"], 0.2))
    for pre in prefixes:
        for t in TRANSITIONS:
            out.append(dict(base, prefix=pre, kind="retire", transition=t))
    drop_prefixes = prefixes[:2] if tier == "quick" else prefixes[:2] + prefixes[3:13]
    for pre in drop_prefixes:
        for op in DROP_OPS:
            if op["op"] in ("update", "remove") and not any(o["op"] == "add" for o in pre):
                continue
            if op == {"op": "ext", "x": 0} and not any(o["op"] == "ext" for o in pre):
                continue
            if op["op"] == "update" and _docs_after(pre).get(op["id"]) == op["val"]:
                # Collection.tla's UpdCall (like cc.gen_ops) leaves out updates that rewrite the value a
                # document already holds; pick the other value of the same key class instead
                op = dict(op, val=2)
            out.append(dict(base, prefix=pre, kind="drop", op=op))
    return out


def conc_scenarios(tier):
    """A lifecycle transition interleaved with in-flight and QUEUED operations (all release orders)."""
    from checks.c05 import P0, P1, U, R, A, FL, X, IDX
    out = []
    sets = [[A(5)], [U(1, 5)], [R(2)], [X(3)], [FL], [FL, A(5)], [FL, U(1, 5)], [A(5), FL], [U(1, 5), U(1, 6)],
            [U(1, 5), R(1)], [A(5), A(6)], [FL, X(3)]]
    if tier == "thorough":
        sets += [[FL, A(5), U(1, 5)], [U(1, 5), FL, A(5)], [R(2), FL, X(3)], [FL, FL, A(5)]]
    for procs in sets:
        for t in ("ro", "close", "close_collection"):
            for prefix in (P0, P1):
                out.append({"init_idx": IDX, "prefix": prefix, "procs": procs, "post_reads": False,
                            "transition": t, "cap": 1500})
    return out


def run(tier):
    t0 = time.time()
    vlib.build_harness()
    wd = vlib.workdir(f"c06-{tier}")
    n_viol = 0
    # X: Drop is modelled as Crash; the exhaustive model with crashes at every pc and close/reopen
    mc = cc.run_mc("MC_Collection_c06.cfg", wd)
    vlib.log(f"[C06] X MC_Collection_c06.cfg: {mc['states']} states, violated={mc['violated']}")
    if mc["violated"]:
        vlib.violation(PROP, {"property": PROP, "kind": "model", "cfg": "MC_Collection_c06.cfg",
                              "invariant": mc["violated"], "counterexample_tail": mc["counterexample_tail"]})
        n_viol += 1
    sc = scenarios(tier, vlib.seed())
    st = cc.drive_and_validate("lifecycle", sc, "", wd, "life", cfg="CollectionLifeTrace.cfg",
                               driver="drive_lifecycle", module="CollectionLifeTrace")
    vlib.log(f"[C06] T lifecycle: scenarios={st['scenarios']} traces={st['traces']} drop_points={st['drop_points']} "
             f"retire={st['retire_scenarios']} states={st['states']} failures={len(st['failures'])}")
    for fl in st["failures"]:
        vlib.violation(PROP, {"property": PROP, "kind": "trace", "tag": fl["tag"], "reason": fl["reason"],
                              "line_in_trace": fl["line_in_trace"], "event": fl["event"], "trace": fl["trace"],
                              "module": "CollectionLifeTrace"})
        n_viol += 1
    csc = conc_scenarios(tier)
    cst = cc.drive_and_validate("lifeconc", csc, "", wd, "lifeconc", cfg="CollectionConcTrace.cfg",
                                driver="drive_conc", module="CollectionConcTrace")
    n_exh = sum(1 for s in cst["per_scenario"] if s["exhaustive"])
    vlib.log(f"[C06] T transition x in-flight/queued operations: scenarios={cst['scenarios']} (exhaustive: {n_exh}) "
             f"schedules={cst['traces']} states={cst['states']} failures={len(cst['failures'])}")
    for fl in cst["failures"]:
        vlib.violation(PROP, {"property": PROP, "kind": "trace", "tag": fl["tag"], "scenario": csc[fl["tag"]["s"]],
                              "reason": fl["reason"], "line_in_trace": fl["line_in_trace"], "event": fl["event"],
                              "trace": fl["trace"], "module": "CollectionConcTrace"})
        n_viol += 1
    cov = {
        "states": mc["states"] + st["states"] + cst["states"],
        "transitions": mc["transitions"],
        "traces_validated_against_impl": st["traces"] + cst["traces"],
        "evaluations": st["traces"] + cst["traces"],
        "distinct_nontrivial": st["drop_points"] + st["retire_scenarios"] + cst["traces"],
        "interleaved_transition_schedules": cst["traces"],
        "interleaved_transition_scenarios": cst["scenarios"],
        "rule": "one trace per (prefix, transition in close/close_collection/ro/db_ro/delete) with every mutating API "
                "called on the retained handle before and after set_read_only(false) and after a reopen, and one trace "
                "per (prefix, mutating API, k) where the call's future is dropped after k polls (every backend call is "
                "a suspension point) for every k until the call completes - including the database-level "
                "close_collection (a dropped one poisons the handle) and delete_collection (a dropped one leaves the "
                "handle and the name tombstoned as Deleting: every call and an open are refused, nothing is written, a "
                "RETRY finishes the deletion and the prefix is empty); distinct_nontrivial = drop points + "
                "transition scenarios",
        "samples": [{"first_events": st["sample"]}],
        "exhaustive": True,
        "model_checking": [{k: v for k, v in mc.items() if k != "counterexample_tail"}],
        "drop_points": st["drop_points"],
        "transition_scenarios": st["retire_scenarios"],
        "trace_events": st["events"],
    }
    vlib.write_evidence(PROP, tier, "model_checking", cov, time.time() - t0, n_viol, assumptions=[
        "interleavings of a transition with 1-2 (thorough: 3) in-flight or queued operations on a single-threaded executor",
        "suspension points = backend calls (tokio locks are uncontended in sequential runs)",
    ])
    vlib.cleanup(wd)
    return n_viol


def replay(payload):
    import os
    wd = vlib.workdir("c06-replay")
    p = os.path.join(wd, "t.ndjson")
    with open(p, "w") as f:
        for ev in payload["trace"]:
            f.write(json.dumps(ev, separators=(",", ":")) + "\n")
    mod = payload.get("module", "CollectionLifeTrace")
    res = cc.validate_file(p, wd, "replay", cfg=mod + ".cfg", module=mod, max_failures=0)
    for fl in res["failures"]:
        print("REJECTED:", fl["reason"], "at line", fl["line_in_trace"], json.dumps(fl["event"])[:300])
    return 1 if res["failures"] else 0
