//! Shared Cognitive Nexus helpers for the C16-C20 drivers.

use anda_cognitive_nexus::{
    CognitiveNexus,
    nexus::DEFAULT_SPACE,
    schema::{PackageState, SchemaLock, SchemaPackage},
};
use anda_db::database::{AndaDB, DBConfig};
use anda_kip::{Executor, Request, Response};
use object_store::ObjectStore;
use serde_json::{Value, json};
use std::sync::Arc;

pub const COGNITIVE_MEMORY: &str = anda_cognitive_nexus::profiles::COGNITIVE_MEMORY;
pub const PROFILE_ID: &str = "kip://profiles/cognitive-memory";

/// A package with a functional predicate, so conflict expansion has something to expand.
pub const STATUS_PACKAGE: &str = r#"{
    "format": "KIP-Schema-Package",
    "manifest": {"package_id": "kip://test/status", "version": "1.0.0"},
    "definitions": {
        "concept_types": {
            "Service": {"kind": "ConceptType", "description": "A service."},
            "Status": {"kind": "ConceptType", "description": "A status value."}
        },
        "predicates": {
            "status": {
                "kind": "PredicateType",
                "description": "The service's current status. Single-valued.",
                "functional": true,
                "open_world": true
            },
            "mentions": {
                "kind": "PredicateType",
                "description": "Non-functional reference.",
                "functional": false
            }
        }
    }
}"#;

pub async fn fresh_on(store: Arc<dyn ObjectStore>, name: &str) -> CognitiveNexus {
    let db = AndaDB::connect(
        store,
        DBConfig {
            name: name.to_string(),
            description: "verif nexus".to_string(),
            ..Default::default()
        },
    )
    .await
    .unwrap();
    let nexus = CognitiveNexus::connect(Arc::new(db)).await.unwrap();
    for source in [COGNITIVE_MEMORY, STATUS_PACKAGE] {
        nexus
            .install_package(&SchemaPackage::parse(source).unwrap(), "test")
            .await
            .unwrap();
    }
    let mut lock = SchemaLock::default();
    for (id, version) in [(PROFILE_ID, "2.0.0"), ("kip://test/status", "1.0.0")] {
        lock.packages.insert(id.to_string(), version.to_string());
        lock.states.insert(id.to_string(), PackageState::Active);
    }
    nexus.activate_schema(DEFAULT_SPACE, lock).await.unwrap();
    nexus
}

pub async fn fresh(name: &str) -> CognitiveNexus {
    fresh_on(Arc::new(object_store::memory::InMemory::new()), name).await
}

/// Runs one command with parameters through the real parser and executor.
pub async fn run(nexus: &CognitiveNexus, command: &str, params: Value) -> Response {
    let request = serde_json::from_value::<Request>(json!({
        "kip": "2.0",
        "operations": [{"command": command, "parameters": params}]
    }))
    .unwrap();
    let parsed = match request.operations[0].parse() {
        Ok(p) => p,
        Err(err) => panic!("harness command does not parse: {command}\n{err}"),
    };
    nexus
        .execute(parsed, &request, &request.operations[0])
        .await
}

pub fn succeeded(r: &Response) -> bool {
    r.status == anda_kip::TopLevelStatus::Succeeded
}

/// The id bound to a `?handle` of a MUTATE result (string form).
pub fn handle_id(result: &Value, name: &str) -> Option<String> {
    fn find(v: &Value, name: &str) -> Option<String> {
        match v {
            Value::Object(m) => {
                if let Some(h) = m.get("handles").and_then(|h| h.get(name)) {
                    if let Some(s) = h.as_str() {
                        return Some(s.to_string());
                    }
                    if let Some(s) = h.get("id").and_then(|x| x.as_str()) {
                        return Some(s.to_string());
                    }
                }
                for (_, x) in m {
                    if let Some(r) = find(x, name) {
                        return Some(r);
                    }
                }
                None
            }
            Value::Array(a) => a.iter().find_map(|x| find(x, name)),
            _ => None,
        }
    }
    find(result, name)
}
