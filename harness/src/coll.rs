//! Shared pieces of the Collection drivers (C01/C02/C04/C05/C06): the abstract
//! value table, the document schema, payload decoding (backend event ->
//! abstract fields), the observation function (full projected state through
//! public APIs only) and the NDJSON trace writer.

use crate::tracestore::{Event, Op, TraceHandle, TraceStore};
use anda_db::{
    collection::{Collection, CollectionConfig, CollectionMetadata},
    database::{AndaDB, DBConfig},
    error::DBError,
    index::HnswConfig,
    query::{Filter, Query, RangeQuery, Search},
    schema::{AndaDBSchema, DocumentOwned, Document, Fv, Vector, bf16},
    storage::{StorageConfig, StorageMetadata},
};
use serde::{Deserialize, Serialize};
use serde_json::{Value, json};
use std::{collections::BTreeMap, sync::Arc};


#[derive(Debug, Clone, Serialize, Deserialize, PartialEq, AndaDBSchema)]
pub struct CDoc {
    pub _id: u64,
    #[unique]
    pub k: Option<u64>,
    pub t: Option<String>,
    pub a: Option<u64>,
    pub b: Option<u64>,
    /// an ARRAY-valued indexed field: one posting per element (array key expansion, batch updates)
    pub g: Option<Vec<u64>>,
    /// a UNIQUE array-valued indexed field: every element is a unique key (partially conflicting batches)
    #[unique]
    pub h: Option<Vec<u64>>,
    pub v: Vector,
}

/// Abstract value table. Value n (1-based) is VALS[n-1] = (k, text, a).
/// Tokens: cat=1 dog=2 fox=3 (all >= 3 letters: the default tokenizer drops 1-letter tokens).
pub const VALS: &[(Option<u64>, Option<&str>, Option<u64>)] = &[
    (Some(1), Some("cat dog"), Some(7)),
    (Some(2), Some("dog"), Some(7)),
    (Some(1), None, None),
    (None, Some("fox cat"), Some(8)),
    (Some(3), Some("dog fox"), Some(7)),
    (Some(2), Some("cat"), None),
];
/// The array field g of value n: overlapping, shrinking, empty and absent arrays.
pub const GVALS: &[Option<&[u64]>] = &[Some(&[1, 2]), Some(&[2]), Some(&[]), Some(&[2, 3]), Some(&[1]), None];
/// The unique array field h of value n: values 1/3 share key 2, values 1/5 share key 1.
pub const HVALS: &[Option<&[u64]>] = &[Some(&[1, 2]), Some(&[3]), Some(&[2, 4]), Some(&[]), Some(&[1]), None];
fn h_of(val: usize) -> Option<Vec<u64>> {
    HVALS[val - 1].map(|a| a.to_vec())
}
fn h_fv(val: usize) -> Fv {
    match h_of(val) {
        Some(a) => Fv::Array(a.into_iter().map(Fv::U64).collect()),
        None => Fv::Null,
    }
}
fn g_of(val: usize) -> Option<Vec<u64>> {
    GVALS[val - 1].map(|a| a.to_vec())
}
fn g_fv(val: usize) -> Fv {
    match g_of(val) {
        Some(a) => Fv::Array(a.into_iter().map(Fv::U64).collect()),
        None => Fv::Null,
    }
}
pub const TOKENS: &[&str] = &["cat", "dog", "fox"];

pub fn n_vals() -> usize {
    VALS.len()
}

pub fn tokens_of(text: Option<&str>) -> Vec<u64> {
    let mut out = Vec::new();
    if let Some(t) = text {
        for (i, tok) in TOKENS.iter().enumerate() {
            if t.split(' ').any(|w| w == *tok) {
                out.push((i + 1) as u64);
            }
        }
    }
    out
}

pub fn mk_doc(val: usize) -> CDoc {
    let (k, t, a) = VALS[val - 1];
    CDoc {
        _id: 0,
        k,
        t: t.map(|s| s.to_string()),
        a,
        b: Some(val as u64),
        g: g_of(val),
        h: h_of(val),
        v: vec![bf16::from_f32(val as f32), bf16::from_f32(1.0)],
    }
}

pub fn update_fields(val: usize) -> BTreeMap<String, Fv> {
    let (k, t, a) = VALS[val - 1];
    BTreeMap::from([
        ("k".to_string(), k.map(Fv::U64).unwrap_or(Fv::Null)),
        (
            "t".to_string(),
            t.map(|s| Fv::Text(s.to_string())).unwrap_or(Fv::Null),
        ),
        ("a".to_string(), a.map(Fv::U64).unwrap_or(Fv::Null)),
        ("b".to_string(), Fv::U64(val as u64)),
        ("g".to_string(), g_fv(val)),
        ("h".to_string(), h_fv(val)),
        (
            "v".to_string(),
            Fv::Vector(vec![bf16::from_f32(val as f32), bf16::from_f32(1.0)]),
        ),
    ])
}

/// The fields an update to value `val` sends.  Sequential drivers (VERIF_PARTIAL_UPDATE=1) send only the
/// fields that DIFFER from the stored document - an update that touches a subset of the fields, possibly a
/// subset of the member fields of a multi-field index; concurrent drivers always send the full image (a
/// diff against a stale read would compose a document outside the value table).
pub async fn fields_for_update(col: &Collection, id: u64, val: usize) -> BTreeMap<String, Fv> {
    let all = update_fields(val);
    if std::env::var("VERIF_PARTIAL_UPDATE").map(|v| v == "1").unwrap_or(false)
        && let Ok(d) = col.get(id).await
        && let Ok(cur) = d.try_into::<CDoc>()
    {
        let old = val_of(&cur);
        if old != 0 {
            let before = update_fields(old);
            let changed: BTreeMap<String, Fv> = all.iter().filter(|(k, v)| before.get(*k) != Some(*v)).map(|(k, v)| (k.clone(), v.clone())).collect();
            if !changed.is_empty() {
                return changed;
            }
        }
    }
    all
}

/// value of a concrete document: exact match on (k,t,a,b,v) else 0 = "not a table value"
pub fn val_of(doc: &CDoc) -> usize {
    for (i, (k, t, a)) in VALS.iter().enumerate() {
        if doc.k == *k
            && doc.t.as_deref() == *t
            && doc.a == *a
            && doc.b == Some((i + 1) as u64)
            && doc.g == g_of(i + 1)
            && doc.h == h_of(i + 1)
            && doc.v == vec![bf16::from_f32((i + 1) as f32), bf16::from_f32(1.0)]
        {
            return i + 1;
        }
    }
    0
}

pub fn index_kinds() -> Value {
    // "c": the multi-field (virtual) B-tree index over (a, b) - always unique in the code
    json!({"k": "btu", "t": "bm", "v": "hn", "a": "bt", "b": "bt", "c": "btu", "g": "bt", "h": "btu"})
}

/// Terms[index][val-1] as JSON
pub fn index_terms() -> Value {
    let mut k = Vec::new();
    let mut t = Vec::new();
    let mut a = Vec::new();
    let mut b = Vec::new();
    let mut v = Vec::new();
    let mut c = Vec::new();
    let mut g = Vec::new();
    let mut h = Vec::new();
    for (i, (kk, tt, aa)) in VALS.iter().enumerate() {
        // every (a, b) pair of the table is distinct (b is the value number): the composite key of value n is n
        c.push(json!(vec![(i + 1) as u64]));
        g.push(json!(g_of(i + 1).unwrap_or_default()));
        h.push(json!(h_of(i + 1).unwrap_or_default()));
        k.push(json!(kk.map(|x| vec![x]).unwrap_or_default()));
        t.push(json!(tokens_of(*tt)));
        a.push(json!(aa.map(|x| vec![x]).unwrap_or_default()));
        b.push(json!(vec![(i + 1) as u64]));
        v.push(json!(Vec::<u64>::new()));
    }
    json!({"k": k, "t": t, "a": a, "b": b, "v": v, "c": c, "g": g, "h": h})
}

pub fn db_config() -> DBConfig {
    DBConfig {
        name: "db".into(),
        description: "verif".into(),
        storage: StorageConfig {
            compress_level: 0,
            ..Default::default()
        },
        lock: None,
    }
}

pub const COL: &str = "c";
pub const PREFIX: &str = "db/c/";

pub async fn create_index(c: &mut Collection, name: &str) -> Result<(), DBError> {
    match name {
        "k" => c.create_btree_index_nx(&["k"]).await,
        "a" => c.create_btree_index_nx(&["a"]).await,
        "b" => c.create_btree_index_nx(&["b"]).await,
        "c" => c.create_btree_index_nx(&["a", "b"]).await,
        "g" => c.create_btree_index_nx(&["g"]).await,
        "h" => c.create_btree_index_nx(&["h"]).await,
        "t" => c.create_bm25_index_nx(&["t"]).await,
        "v" => {
            c.create_hnsw_index_nx(
                "v",
                HnswConfig {
                    dimension: 2,
                    ..Default::default()
                },
            )
            .await
        }
        other => panic!("unknown index {other}"),
    }
}

pub async fn remove_index(c: &mut Collection, name: &str) -> Result<bool, DBError> {
    match name {
        "k" | "a" | "b" | "g" | "h" => c.remove_btree_index(&[name]).await,
        "c" => c.remove_btree_index(&["a", "b"]).await,
        "t" => c.remove_bm25_index(&["t"]).await,
        "v" => c.remove_hnsw_index("v").await,
        other => panic!("unknown index {other}"),
    }
}

#[derive(Deserialize)]
struct IntentMirror {
    sequence: u64,
    document_id: u64,
    previous: Option<DocumentOwned>,
    proposed: Option<DocumentOwned>,
}

fn val_of_owned(doc: DocumentOwned) -> usize {
    let schema = Arc::new(CDoc::schema().unwrap());
    match Document::try_from_doc(schema, doc) {
        Ok(d) => match d.try_into::<CDoc>() {
            Ok(c) => val_of(&c),
            Err(_) => 0,
        },
        Err(_) => 0,
    }
}

/// Maps intent sequence numbers (wall-clock derived, > 2^31) to small integers that preserve
/// order and equality: seq - (first seq seen) + 1.
#[derive(Default)]
pub struct SeqMap {
    base: Option<u64>,
}
impl SeqMap {
    pub fn ord(&mut self, seq: u64) -> u64 {
        let base = *self.base.get_or_insert(seq.saturating_sub(1000));
        seq.saturating_sub(base)
    }
}

/// Classifies one backend mutation under the collection prefix and decodes the
/// abstract content. Returns None for objects outside the collection.
pub fn classify(e: &Event, seqs: &mut SeqMap) -> Option<Value> {
    let rel = e.path.strip_prefix(PREFIX)?;
    let kind = match e.op {
        Op::Put => "put",
        Op::Delete => "delete",
        Op::Get => "get",
        Op::List => "list",
        _ => "other",
    };
    // "pk": the call arrived at the store and is parked (scheduler mode); "be": a mutation was
    // executed; "rd": a read was executed
    let e_kind = if e.res == "parked" {
        "pk"
    } else if e.op.is_mutation() {
        "be"
    } else {
        "rd"
    };
    let mut ev = json!({"e": e_kind, "kind": kind, "mode": e.mode, "res": e.res, "p": e.proc_, "path": rel});
    let o = ev.as_object_mut().unwrap();
    let payload = e.payload.as_deref();
    if let Some(idpart) = rel.strip_prefix("data/") {
        let id: u64 = idpart.trim_end_matches(".cbor").parse().ok()?;
        o.insert("cls".into(), json!("doc"));
        o.insert("id".into(), json!(id));
        let val = match (kind, payload) {
            ("put", Some(p)) => cbor2::from_slice::<DocumentOwned>(p)
                .map(val_of_owned)
                .unwrap_or(0),
            _ => 0,
        };
        o.insert("val".into(), json!(val));
    } else if let Some(sp) = rel.strip_prefix("mutation_intents/") {
        o.insert("cls".into(), json!("intent"));
        let raw: u64 = sp.trim_end_matches(".cbor").parse().ok()?;
        o.insert("seq".into(), json!(seqs.ord(raw)));
        if kind == "put"
            && let Some(p) = payload
            && let Ok(it) = cbor2::from_slice::<IntentMirror>(p)
        {
            debug_assert_eq!(it.sequence, raw);
            o.insert("id".into(), json!(it.document_id));
            o.insert("prev".into(), json!(it.previous.map(val_of_owned).unwrap_or(0)));
            o.insert("post".into(), json!(it.proposed.map(val_of_owned).unwrap_or(0)));
        }
    } else if rel == "alloc_watermark.cbor" {
        o.insert("cls".into(), json!("wm"));
        let v = payload
            .and_then(|p| cbor2::from_slice::<u64>(p).ok())
            .unwrap_or(0);
        o.insert("val".into(), json!(v));
    } else if rel == "meta.cbor" {
        o.insert("cls".into(), json!("col_meta"));
        if let Some(p) = payload
            && let Ok(m) = cbor2::from_slice::<CollectionMetadata>(p)
        {
            // the multi-field index (a, b) is called "a-b" by the code and "c" by the specification
            let mut idx: Vec<String> = m.btree_indexes.keys().map(|n| if n == "a-b" { "c".to_string() } else { n.clone() }).collect();
            idx.extend(m.bm25_indexes.keys().cloned());
            idx.extend(m.hnsw_indexes.keys().cloned());
            idx.sort();
            o.insert("maxid".into(), json!(m.stats.max_document_id));
            o.insert("idx".into(), json!(idx));
            let ext = match m.extensions.get("x") {
                Some(Fv::U64(n)) => *n,
                _ => 0,
            };
            o.insert("ext".into(), json!(ext));
        }
    } else if rel == "ids.cbor" {
        o.insert("cls".into(), json!("col_ids"));
        if let Some(p) = payload
            && let Ok(bytes) = cbor2::from_slice::<serde_bytes::ByteBuf>(p)
        {
            let ids: Vec<u64> = croaring::Treemap::try_deserialize::<croaring::Portable>(&bytes)
                .map(|t| t.iter().collect())
                .unwrap_or_default();
            o.insert("ids".into(), json!(ids));
        }
    } else if rel == "storage_meta.cbor" {
        o.insert("cls".into(), json!("cp"));
        if let Some(p) = payload
            && let Ok(m) = cbor2::from_slice::<StorageMetadata>(p)
        {
            o.insert("cp".into(), json!(m.stats.check_point));
        }
    } else if let Some(r) = rel
        .strip_prefix("btree_indexes/")
        .or_else(|| rel.strip_prefix("bm25_indexes/"))
    {
        let (name, obj) = r.split_once('/')?;
        o.insert("idx".into(), json!(if name == "a-b" { "c" } else { name }));
        let cls = if obj == "meta.cbor" && kind == "put" {
            if e.mode == "update" { "idx_commit" } else { "idx_init" }
        } else {
            "idx_obj"
        };
        o.insert("cls".into(), json!(cls));
    } else if let Some(r) = rel.strip_prefix("hnsw_indexes/") {
        let (name, obj) = r.split_once('/')?;
        o.insert("idx".into(), json!(name));
        // node blobs n_<id>.cbor: the id, so that the deletion of a LIVE node's blob can be refused
        if let Some(id) = obj.strip_prefix("n_").and_then(|f| f.strip_suffix(".cbor")).and_then(|f| f.parse::<u64>().ok()) {
            o.insert("node".into(), json!(id));
        }
        let cls = if obj == "ids.cbor" && kind == "put" {
            if e.mode == "update" { "idx_commit" } else { "idx_init" }
        } else {
            "idx_obj"
        };
        o.insert("cls".into(), json!(cls));
    } else {
        o.insert("cls".into(), json!("other"));
    }
    Some(ev)
}

/// Full projected state of a collection through public APIs only.
pub async fn observe(col: &Collection, max_id: u64) -> Value {
    observe_with(col, max_id).await
}

async fn observe_with(col: &Collection, max_id: u64) -> Value {
    let ids = col.ids();
    let mut docs = Vec::new();
    for id in 1..=max_id {
        match col.get(id).await {
            Ok(d) => {
                let v = d.try_into::<CDoc>().map(|c| val_of(&c)).unwrap_or(0);
                docs.push(json!([id, v]));
            }
            Err(DBError::NotFound { .. }) => {}
            Err(e) => docs.push(json!([id, format!("error: {e}")])),
        }
    }
    let mut idx = serde_json::Map::new();
    for name in ["k", "a", "b", "g", "h"] {
        if col.get_btree_index(&[name]).is_ok() {
            let mut pairs = Vec::new();
            for key in 0..=9u64 {
                if let Ok(got) = col
                    .query_all_ids(Filter::Field((
                        name.to_string(),
                        RangeQuery::Eq(Fv::U64(key)),
                    )))
                    .await
                {
                    for id in got {
                        pairs.push(json!([id, key]));
                    }
                }
            }
            idx.insert(name.to_string(), json!(pairs));
        }
    }
    if col.get_btree_index(&["a", "b"]).is_ok() {
        // the multi-field index: one Eq lookup per (a, b) pair of the value table
        let mut pairs = Vec::new();
        for (i, (_, _, aa)) in VALS.iter().enumerate() {
            let a = aa.map(Fv::U64);
            let b = Fv::U64((i + 1) as u64);
            let key = anda_db::index::virtual_field_value(&[a.as_ref(), Some(&b)]).expect("composite key");
            if let Ok(got) = col.query_all_ids(Filter::Field(("a-b".to_string(), RangeQuery::Eq(key)))).await {
                for id in got {
                    pairs.push(json!([id, i + 1]));
                }
            }
        }
        idx.insert("c".to_string(), json!(pairs));
    }
    if let Ok(view) = col.get_bm25_index(&["t"]) {
        let mut pairs = Vec::new();
        for (ti, tok) in TOKENS.iter().enumerate() {
            let mut got: Vec<u64> = view.search(tok, 1000, None).into_iter().map(|r| r.0).collect();
            got.sort();
            for id in got {
                pairs.push(json!([id, ti + 1]));
            }
        }
        idx.insert("t".to_string(), json!(pairs));
    }
    if let Ok(view) = col.get_hnsw_index("v") {
        let n = view.stats().num_elements;
        let mut got: Vec<u64> = view
            .search(&[0.0, 1.0], (n as usize + 4).max(16))
            .into_iter()
            .map(|r| r.0)
            .collect();
        got.sort();
        got.dedup();
        let pairs: Vec<Value> = got.iter().map(|id| json!([id, 0])).collect();
        idx.insert("v".to_string(), json!(pairs));
        idx.insert("v_n".to_string(), json!(n));
    }
    // search_ids through the collection (vector) must only return live documents
    let via_search: Vec<u64> = match col
        .search_ids(Query {
            search: Some(Search {
                vector: Some(vec![0.0, 1.0]),
                ..Default::default()
            }),
            filter: None,
            limit: Some(1000),
        })
        .await
    {
        Ok(mut v) => {
            v.sort();
            v
        }
        Err(_) => vec![],
    };
    let ext = match col.get_extension("x") {
        Some(Fv::U64(n)) => n,
        _ => 0,
    };
    json!({
        "e": "obs",
        "ids": ids,
        "len": col.len(),
        "docs": docs,
        "idx": Value::Object(idx),
        "vsearch": via_search,
        "ext": ext,
        "maxid": col.max_document_id(),
        "state": format!("{:?}", col.state()),
    })
}

/// Observation without any document read (keeps the storage cache cold).
pub async fn observe_light(col: &Collection) -> Value {
    let full = observe_with(col, 0).await;
    let mut o = json!({"e": "obs", "idx": full["idx"].clone(), "vsearch": full["vsearch"].clone()});
    o["ids"] = json!(col.ids());
    o["len"] = json!(col.len());
    o["maxid"] = json!(col.max_document_id());
    o["ext"] = json!(match col.get_extension("x") {
        Some(Fv::U64(n)) => n,
        _ => 0,
    });
    o["state"] = json!(format!("{:?}", col.state()));
    o
}

/// Shared trace writer: NDJSON lines + incremental draining of backend events.
#[derive(Clone)]
pub struct Tracer {
    pub handle: TraceHandle,
    inner: Arc<std::sync::Mutex<TracerInner>>,
}

#[derive(Default)]
struct TracerInner {
    lines: Vec<String>,
    seqs: SeqMap,
    drained: usize,
}

impl Tracer {
    pub fn new(handle: TraceHandle) -> Self {
        Tracer {
            handle,
            inner: Arc::new(std::sync::Mutex::new(TracerInner::default())),
        }
    }
    /// Moves backend events recorded since the last drain into the trace, then appends `v`.
    pub fn emit(&self, v: Value) {
        self.drain();
        self.inner.lock().unwrap().lines.push(v.to_string());
    }
    pub fn drain(&self) {
        let evs = self.handle.events();
        let mut g = self.inner.lock().unwrap();
        let from = g.drained.min(evs.len());
        for e in &evs[from..] {
            if e.res == "poweroff" {
                continue;
            }
            if let Some(v) = classify(e, &mut g.seqs) {
                g.lines.push(v.to_string());
            }
        }
        g.drained = evs.len();
    }
    /// Forget the events recorded so far (setup phase).
    pub fn skip_recorded(&self) {
        let n = self.handle.events().len();
        self.inner.lock().unwrap().drained = n;
    }
    pub fn take_lines(&self) -> Vec<String> {
        self.drain();
        std::mem::take(&mut self.inner.lock().unwrap().lines)
    }
    pub fn line_count(&self) -> usize {
        self.inner.lock().unwrap().lines.len()
    }
}

pub async fn connect(store: Arc<TraceStore>) -> Result<AndaDB, DBError> {
    AndaDB::connect(store, db_config()).await
}

pub fn col_config() -> CollectionConfig {
    CollectionConfig {
        name: COL.into(),
        description: "verif collection".into(),
    }
}

pub fn err_class(e: &DBError) -> &'static str {
    match e {
        DBError::AlreadyExists { .. } => "exists",
        DBError::NotFound { .. } => "notfound",
        DBError::Schema { .. } => "schema",
        DBError::Index { .. } => "index",
        DBError::Storage { .. } => "storage",
        _ => "other",
    }
}

/// Executes one abstract operation on a collection handle and returns the `ret` event.
pub async fn exec_op(col: &Collection, op: &Value) -> Value {
    let name = op["op"].as_str().unwrap();
    let mut ret = json!({"e": "ret", "op": name});
    let fail = |ret: &mut Value, e: &DBError| {
        ret["ok"] = json!(false);
        ret["err"] = json!(err_class(e));
        ret["state"] = json!(e.collection_state().map(|s| format!("{s:?}")).unwrap_or_default());
    };
    match name {
        "add" => match col.add_from(&mk_doc(op["val"].as_u64().unwrap() as usize)).await {
            Ok(id) => {
                ret["ok"] = json!(true);
                ret["id"] = json!(id);
            }
            Err(e) => fail(&mut ret, &e),
        },
        "update" => match col
            .update(
                op["id"].as_u64().unwrap(),
                fields_for_update(col, op["id"].as_u64().unwrap(), op["val"].as_u64().unwrap() as usize).await,
            )
            .await
        {
            Ok(_) => ret["ok"] = json!(true),
            Err(e) => fail(&mut ret, &e),
        },
        "remove" => match col.remove(op["id"].as_u64().unwrap()).await {
            Ok(d) => {
                ret["ok"] = json!(true);
                ret["found"] = json!(d.is_some());
            }
            Err(e) => fail(&mut ret, &e),
        },
        "flush" => match col.flush(anda_db::unix_ms()).await {
            Ok(_) => ret["ok"] = json!(true),
            Err(e) => fail(&mut ret, &e),
        },
        "ext" => {
            let x = op["x"].as_u64().unwrap();
            let r = if x == 0 {
                col.remove_extension("x").await.map(|_| ())
            } else {
                col.save_extension("x".into(), Fv::U64(x)).await
            };
            match r {
                Ok(_) => ret["ok"] = json!(true),
                Err(e) => fail(&mut ret, &e),
            }
        }
        "compact" => {
            let idx = op["idx"].as_str().unwrap();
            let r = if idx == "t" {
                col.compact_bm25_index(&["t"]).await
            } else {
                col.compact_btree_index(&[idx]).await
            };
            match r {
                Ok(_) => ret["ok"] = json!(true),
                Err(e) => fail(&mut ret, &e),
            }
        }
        "reconcile" => match col.reconcile_storage().await {
            Ok((a, b)) => {
                ret["ok"] = json!(true);
                ret["recovered"] = json!(a);
                ret["dropped"] = json!(b);
            }
            Err(e) => fail(&mut ret, &e),
        },
        "get" => {
            let id = op["id"].as_u64().unwrap();
            match col.get(id).await {
                Ok(d) => {
                    ret["ok"] = json!(true);
                    ret["val"] = json!(d.try_into::<CDoc>().map(|c| val_of(&c)).unwrap_or(0));
                }
                Err(e) => fail(&mut ret, &e),
            }
        }
        "close" => match col.close().await {
            Ok(_) => ret["ok"] = json!(true),
            Err(e) => fail(&mut ret, &e),
        },
        other => panic!("unknown op {other}"),
    }
    ret
}
