//! Shared harness pieces.
