//! Shared harness pieces: TraceStore (recording / fault-injecting / schedulable
//! object store), NDJSON helpers.
pub mod tracestore;
pub mod coll;
pub mod nexus;
pub mod sched;
pub mod tsched;
