//! Controlled scheduler for real OS threads that yield at `anda_db_utils::verif::point` calls.
//!
//! Exactly one managed thread runs at a time.  A thread parks at every instrumented yield point and
//! at every call boundary; the scheduler (the main thread) picks which parked thread continues,
//! following a choice sequence, so that a stateless DFS can enumerate all interleavings at the
//! yield points.  A thread that does not reach its next point within `block_ms` is considered
//! blocked on a real lock (e.g. the mutation gate held by a parked thread): the scheduler then lets
//! another thread run and the blocked one parks by itself once it gets through.
use serde_json::{Value, json};
use std::cell::RefCell;
use std::sync::{Arc, Condvar, Mutex};
use std::time::{Duration, Instant};

#[derive(Clone, Debug, PartialEq)]
pub enum Status {
    /// parked; `mid` = inside a call (at an internal yield point)
    Parked { at: &'static str, mid: bool, next_exclusive: bool },
    /// given the turn, not yet woken up
    Granted,
    Running,
    Blocked,
    Done,
}

pub struct Inner {
    pub turn: Option<usize>,
    pub status: Vec<Status>,
    pub log: Vec<Value>,
}

pub struct Sched {
    pub inner: Mutex<Inner>,
    pub cv: Condvar,
}

pub type Observer = Arc<dyn Fn() -> Value + Send + Sync>;

thread_local! {
    static ME: RefCell<Option<(usize, Arc<Sched>, Observer)>> = const { RefCell::new(None) };
}

impl Sched {
    pub fn new(n: usize) -> Arc<Sched> {
        Arc::new(Sched {
            inner: Mutex::new(Inner {
                turn: None,
                status: vec![Status::Running; n],
                log: Vec::new(),
            }),
            cv: Condvar::new(),
        })
    }

    /// Registers the calling thread as managed thread `tid`.
    pub fn enter(self: &Arc<Self>, tid: usize, obs: Observer) {
        ME.with(|m| *m.borrow_mut() = Some((tid, self.clone(), obs)));
    }

    pub fn log(&self, v: Value) {
        self.inner.lock().unwrap().log.push(v);
    }

    /// Parks the calling managed thread until the scheduler gives it the turn again.
    pub fn park(&self, tid: usize, at: &'static str, mid: bool, next_exclusive: bool) {
        let mut g = self.inner.lock().unwrap();
        g.status[tid] = Status::Parked { at, mid, next_exclusive };
        if g.turn == Some(tid) {
            g.turn = None;
        }
        self.cv.notify_all();
        while g.turn != Some(tid) {
            g = self.cv.wait(g).unwrap();
        }
        g.status[tid] = Status::Running;
        self.cv.notify_all();
    }

    pub fn done(&self, tid: usize) {
        let mut g = self.inner.lock().unwrap();
        g.status[tid] = Status::Done;
        if g.turn == Some(tid) {
            g.turn = None;
        }
        self.cv.notify_all();
    }
}

/// The process-wide hook body: called from instrumented code.
pub fn on_point(name: &'static str) {
    let me = ME.with(|m| m.borrow().as_ref().map(|(t, s, o)| (*t, s.clone(), o.clone())));
    if let Some((tid, sched, obs)) = me {
        let st = obs();
        sched.log(json!({"e": "pt", "t": tid, "pt": name, "st": st}));
        sched.park(tid, name, true, false);
    }
}

pub fn install_hook() {
    anda_db_utils::verif::set_hook(Some(Arc::new(on_point)));
}

pub struct RunResult {
    pub taken: Vec<usize>,
    pub counts: Vec<usize>,
    pub deadlock: bool,
    pub blocked_seen: usize,
}

/// Drives the managed threads to completion following `prefix` (then always the first enabled
/// thread).  `respect_gate`: a thread whose next call is exclusive (compaction) only starts when no
/// other thread is inside a call, and runs to the end of that call without interleaving.
pub fn drive(sched: &Arc<Sched>, prefix: &[usize], respect_gate: bool, block_ms: u64) -> RunResult {
    let mut taken = Vec::new();
    let mut counts = Vec::new();
    let mut blocked_seen = 0;
    let mut exclusive_running: Option<usize> = None;
    let started = Instant::now();
    loop {
        let mut g = sched.inner.lock().unwrap();
        // wait until nobody is running (or the runner is deemed blocked)
        let deadline = Instant::now() + Duration::from_millis(block_ms);
        loop {
            let running: Vec<usize> = (0..g.status.len()).filter(|i| g.status[*i] == Status::Running).collect();
            let granted = g.status.iter().any(|s| *s == Status::Granted);
            if running.is_empty() && !granted {
                break;
            }
            let now = Instant::now();
            if now >= deadline && !granted {
                for r in running {
                    g.status[r] = Status::Blocked;
                    blocked_seen += 1;
                }
                break;
            }
            let wait = if now >= deadline { Duration::from_millis(5) } else { deadline - now };
            let (ng, _) = sched.cv.wait_timeout(g, wait).unwrap();
            g = ng;
        }
        if g.status.iter().all(|s| *s == Status::Done) {
            return RunResult { taken, counts, deadlock: false, blocked_seen };
        }
        let any_mid = |g: &Inner, except: usize| {
            (0..g.status.len()).any(|i| i != except && matches!(g.status[i], Status::Parked { mid: true, .. } | Status::Blocked))
        };
        if let Some(x) = exclusive_running
            && !matches!(g.status[x], Status::Parked { mid: true, .. })
        {
            exclusive_running = None;
        }
        let mut enabled: Vec<usize> = Vec::new();
        for i in 0..g.status.len() {
            if let Status::Parked { mid, next_exclusive, .. } = g.status[i] {
                if respect_gate {
                    if let Some(x) = exclusive_running {
                        if x != i {
                            continue;
                        }
                    } else if !mid && next_exclusive && any_mid(&g, i) {
                        continue;
                    }
                }
                enabled.push(i);
            }
        }
        if enabled.is_empty() {
            // only blocked threads are left: wait for one of them to get through
            if started.elapsed() > Duration::from_secs(20) {
                eprintln!("tsched: deadlock, statuses {:?} turn {:?}", g.status, g.turn);
                return RunResult { taken, counts, deadlock: true, blocked_seen };
            }
            let (ng, _) = sched.cv.wait_timeout(g, Duration::from_millis(50)).unwrap();
            drop(ng);
            continue;
        }
        let d = taken.len();
        let c = if d < prefix.len() { prefix[d].min(enabled.len() - 1) } else { 0 };
        taken.push(c);
        counts.push(enabled.len());
        let t = enabled[c];
        if respect_gate
            && let Status::Parked { mid: false, next_exclusive: true, .. } = g.status[t]
        {
            exclusive_running = Some(t);
        }
        g.status[t] = Status::Granted;
        g.turn = Some(t);
        sched.cv.notify_all();
    }
}
