fn main() { println!("ok"); }
