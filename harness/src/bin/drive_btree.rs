//! C10 driver: the real `BTreeIndex<u64, String>` with the smallest bucket size.
//!
//!   drive_btree hist  <workloads.jsonl> <trace.ndjson>   histories + every flush prefix  (-> BTreeTrace.tla)
//!   drive_btree query <cases.jsonl>                      TLC-enumerated query cases       (<- MC_BTreeQ)
//!
//! `hist`: every call is logged with its return value and the projected state (point queries, key
//! listing, bucket layout through the `verif` hook); every flush callback is logged with the DECODED
//! bytes it was handed, and after every durable write a cold index is loaded from the backend and
//! logged as well.  Crashes replace the live index by such a cold load.
use anda_db_btree::{BTreeConfig, BTreeIndex, BTreeMetadata, BucketObject, RangeQuery};
use serde::Deserialize;
use serde_json::{Value, json};
use std::cell::RefCell;
use std::collections::{BTreeMap, BTreeSet, HashMap};
use std::io::{BufRead, Write};
use std::rc::Rc;
use std::sync::Arc;

type Index = BTreeIndex<u64, String>;

#[derive(Deserialize)]
struct BucketWire {
    p: HashMap<String, (u32, u64, Vec<u64>)>,
}
#[derive(Deserialize)]
struct MetaWire {
    metadata: BTreeMetadata,
}

#[derive(Default, Clone)]
struct Durable {
    objects: BTreeMap<(u32, u64), Vec<u8>>,
    meta: Option<Vec<u8>>,
}

struct Ctx {
    nk: usize,
    long_keys: bool,
}
impl Ctx {
    fn key(&self, k: usize) -> String {
        if self.long_keys {
            format!("key-{:02}-padding", k)
        } else {
            SHORT_KEYS[k].to_string()
        }
    }
    fn key_no(&self, s: &str) -> usize {
        (0..=self.nk + 1).find(|k| self.key(*k) == s).expect("known key")
    }
}
// order-preserving table used by the query cases: index 0..=4
const SHORT_KEYS: [&str; 7] = ["a", "ab", "abc", "b", "ba", "c", "d"];
const PREFIXES: [&str; 8] = ["", "a", "ab", "abc", "abcd", "b", "c", "ac"];

fn new_index(dup: bool) -> Index {
    Index::new(
        "t".to_string(),
        Some(BTreeConfig {
            bucket_overload_size: 64,
            allow_duplicates: dup,
        }),
    )
}

async fn load(d: &Durable, dup: bool) -> Result<Index, String> {
    match &d.meta {
        None => Ok(new_index(dup)),
        Some(m) => Index::load_all(&m[..], async |o: BucketObject| {
            Ok(d.objects.get(&(o.bucket_id, o.generation)).cloned())
        })
        .await
        .map_err(|e| format!("{e:?}")),
    }
}

/// Projected state of an index: 1-based arrays by key number.
fn observe(cx: &Ctx, idx: &Index) -> Value {
    let keys: Vec<usize> = idx.keys(None, None).iter().map(|s| cx.key_no(s)).collect();
    let mut post = Vec::new();
    for k in 1..=cx.nk {
        let mut ids = idx
            .query_with(&cx.key(k), |ids| Some(ids.clone()))
            .unwrap_or_default();
        ids.sort();
        post.push(ids);
    }
    let (owners, buckets) = idx.verif_layout();
    let mut home = vec![-1i64; cx.nk];
    for (k, b) in owners {
        home[cx.key_no(&k) - 1] = b as i64;
    }
    let meta = idx.metadata();
    let existing: BTreeSet<u32> = buckets.iter().map(|b| b.0).collect();
    let mut dirty: BTreeSet<u32> = buckets.iter().filter(|b| b.1).map(|b| b.0).collect();
    // buckets the in-memory manifest still names but that no longer exist: the next flush drops them
    let gone: Vec<u32> = meta
        .buckets
        .keys()
        .filter(|b| !existing.contains(b))
        .cloned()
        .collect();
    dirty.extend(gone.iter().cloned());
    let lst: Vec<Value> = buckets
        .iter()
        .map(|(b, _, ks)| {
            let mut ks: Vec<usize> = ks.iter().map(|s| cx.key_no(s)).collect();
            ks.sort();
            json!([b, ks])
        })
        .collect();
    let man: Vec<Value> = meta.buckets.iter().map(|(b, g)| json!([b, g])).collect();
    json!({"keys": keys, "post": post, "home": home, "dirty": dirty, "gone": gone, "lst": lst,
           "man": man, "ver": meta.stats.version, "len": idx.len()})
}

struct Log {
    ev: Vec<Value>,
    maxb: u32,
    maxgen: u64,
}
impl Log {
    fn push(&mut self, v: Value) {
        if let Some(st) = v.get("st") {
            for b in st["lst"].as_array().unwrap() {
                self.maxb = self.maxb.max(b[0].as_u64().unwrap() as u32);
            }
            for b in st["man"].as_array().unwrap() {
                self.maxb = self.maxb.max(b[0].as_u64().unwrap() as u32);
            }
            self.maxgen = self.maxgen.max(st["ver"].as_u64().unwrap());
        }
        if let Some(g) = v.get("g").and_then(|g| g.as_u64()) {
            self.maxgen = self.maxgen.max(g);
        }
        self.ev.push(v);
    }
}

fn ks_of(v: &Value) -> Vec<usize> {
    v.as_array()
        .map(|a| a.iter().map(|x| x.as_u64().unwrap() as usize).collect())
        .unwrap_or_default()
}

#[derive(Clone, Copy, PartialEq)]
enum Fault {
    None,
    FailBefore(usize),
    FailAfter(usize),
    CrashBefore(usize),
    CrashAfter(usize),
}

async fn run_history(cx: &Ctx, w: &Value, log: &mut Log) {
    let dup = w["dup"].as_bool().unwrap_or(true);
    log.push(json!({"e": "reset", "tag": w["name"], "uniq": !dup}));
    let durable = Rc::new(RefCell::new(Durable::default()));
    let mut idx = new_index(dup);
    let mut now = 1u64;
    for op in w["ops"].as_array().unwrap() {
        now += 1;
        let name = op["op"].as_str().unwrap();
        let id = op["id"].as_u64().unwrap_or(0);
        match name {
            "insert" => {
                let k = op["k"].as_u64().unwrap() as usize;
                let ret = match idx.insert(id, cx.key(k), now) {
                    Ok(true) => 1,
                    Ok(false) => 0,
                    Err(_) => -1,
                };
                log.push(json!({"e": "op", "op": name, "id": id, "k": k, "ret": ret, "st": observe(cx, &idx)}));
            }
            "remove" => {
                let k = op["k"].as_u64().unwrap() as usize;
                let ret = idx.remove(id, cx.key(k), now) as i64;
                log.push(json!({"e": "op", "op": name, "id": id, "k": k, "ret": ret, "st": observe(cx, &idx)}));
            }
            "insert_array" => {
                let ks = ks_of(&op["ks"]);
                let ret = match idx.insert_array(id, ks.iter().map(|k| cx.key(*k)).collect(), now) {
                    Ok(n) => n as i64,
                    Err(_) => -1,
                };
                log.push(json!({"e": "op", "op": name, "id": id, "ks": ks, "ret": ret, "st": observe(cx, &idx)}));
            }
            "remove_array" => {
                let ks = ks_of(&op["ks"]);
                let ret = idx.remove_array(id, ks.iter().map(|k| cx.key(*k)).collect(), now) as i64;
                log.push(json!({"e": "op", "op": name, "id": id, "ks": ks, "ret": ret, "st": observe(cx, &idx)}));
            }
            "batch_update" => {
                let old = ks_of(&op["old"]);
                let new = ks_of(&op["new"]);
                let ret = match idx.batch_update(
                    id,
                    old.iter().map(|k| cx.key(*k)).collect(),
                    new.iter().map(|k| cx.key(*k)).collect(),
                    now,
                ) {
                    Ok((r, i)) => (100 * r + i) as i64,
                    Err(_) => -1,
                };
                log.push(json!({"e": "op", "op": name, "id": id, "old": old, "new": new, "ret": ret,
                                "st": observe(cx, &idx)}));
            }
            "compact" => {
                idx.compact_buckets();
                log.push(json!({"e": "op", "op": name, "id": 0, "ret": 0, "st": observe(cx, &idx)}));
            }
            "reload" => {
                let cold = load(&durable.borrow(), dup).await.expect("load");
                idx = cold;
                log.push(json!({"e": "crash", "st": observe(cx, &idx)}));
            }
            "legacy" => {
                // Rewrite the durable state as a pre-manifest release left it: every bucket object un-suffixed
                // (generation 0), metadata without a manifest; then restart from it.  Only from a clean, fully
                // flushed state (the caller puts a flush in front).
                let converted = {
                    let d = durable.borrow();
                    match &d.meta {
                        None => None,
                        Some(mbytes) => {
                            #[derive(serde::Serialize)]
                            struct MetaOut<'a> {
                                metadata: &'a BTreeMetadata,
                            }
                            let mut m: MetaWire = cbor2::from_reader(&mbytes[..]).expect("metadata decodes");
                            let man = std::mem::take(&mut m.metadata.buckets);
                            if man.is_empty() {
                                // already a legacy layout (or nothing was ever written): nothing to convert
                                continue;
                            }
                            let mut objects = BTreeMap::new();
                            for (b, g) in &man {
                                if let Some(o) = d.objects.get(&(*b, *g)) {
                                    objects.insert((*b, 0u64), o.clone());
                                }
                            }
                            let mut buf = Vec::new();
                            cbor2::to_writer(&MetaOut { metadata: &m.metadata }, &mut buf).expect("metadata encodes");
                            Some(Durable { objects, meta: Some(buf) })
                        }
                    }
                };
                if let Some(nd) = converted {
                    *durable.borrow_mut() = nd;
                    idx = load(&durable.borrow(), dup).await.expect("load");
                    log.push(json!({"e": "legacy", "st": observe(cx, &idx)}));
                }
            }
            "flush" => {
                let at = op["at"].as_u64().unwrap_or(0) as usize;
                let fault = match op["mode"].as_str().unwrap_or("clean") {
                    "fail_before" => Fault::FailBefore(at),
                    "fail_after" => Fault::FailAfter(at),
                    "crash_before" => Fault::CrashBefore(at),
                    "crash_after" => Fault::CrashAfter(at),
                    _ => Fault::None,
                };
                let deletes = op["deletes"].as_u64().unwrap_or(u64::MAX) as usize; // how many obsolete objects get deleted
                let crash_in_deletes = op["crash_in_deletes"].as_bool().unwrap_or(false);
                let pre = observe(cx, &idx);
                let drop = pre["gone"].clone();
                
                let evs: Rc<RefCell<Vec<Value>>> = Rc::new(RefCell::new(Vec::new()));
                let pos = Rc::new(RefCell::new(0usize));
                let crashed = Rc::new(RefCell::new(false));
                let gen_seen: Rc<RefCell<Option<u64>>> = Rc::new(RefCell::new(None));
                let outcome = {
                    let (d1, e1, p1, c1, g1) = (durable.clone(), evs.clone(), pos.clone(), crashed.clone(), gen_seen.clone());
                    let (d2, e2, p2, c2, g2) = (durable.clone(), evs.clone(), pos.clone(), crashed.clone(), gen_seen.clone());
                    let nk = cx.nk;
                    let cxl = Ctx { nk, long_keys: cx.long_keys };
                    let cxm = Ctx { nk, long_keys: cx.long_keys };
                    idx.flush_owned_with(
                        now,
                        move |data: Vec<u8>| async move {
                            let i = *p2.borrow();
                            *p2.borrow_mut() += 1;
                            let m: MetaWire = cbor2::from_reader(&data[..]).expect("metadata decodes");
                            g2.borrow_mut().get_or_insert(m.metadata.stats.version);
                            if fault == Fault::FailBefore(i) {
                                return Err("injected".into());
                            }
                            if fault == Fault::CrashBefore(i) {
                                *c2.borrow_mut() = true;
                                return Err("crash".into());
                            }
                            d2.borrow_mut().meta = Some(data);
                            let man: Vec<Value> = m.metadata.buckets.iter().map(|(b, g)| json!([b, g])).collect();
                            e2.borrow_mut().push(json!({"e": "commit", "man": man, "g": m.metadata.stats.version}));
                            let cold = load(&d2.borrow(), dup).await;
                            e2.borrow_mut().push(match cold {
                                Ok(c) => json!({"e": "load", "ok": true, "st": observe(&cxm, &c)}),
                                Err(e) => json!({"e": "load", "ok": false, "err": e}),
                            });
                            if fault == Fault::CrashAfter(i) {
                                *c2.borrow_mut() = true;
                                return Err("crash".into());
                            }
                            Ok(())
                        },
                        move |o: BucketObject, data: Vec<u8>| {
                            let (d1, e1, p1, c1, g1) = (d1.clone(), e1.clone(), p1.clone(), c1.clone(), g1.clone());
                            let cxl = Ctx { nk: cxl.nk, long_keys: cxl.long_keys };
                            async move {
                                let i = *p1.borrow();
                                *p1.borrow_mut() += 1;
                                g1.borrow_mut().get_or_insert(o.generation);
                                if fault == Fault::FailBefore(i) {
                                    return Err("injected".into());
                                }
                                if fault == Fault::CrashBefore(i) {
                                    *c1.borrow_mut() = true;
                                    return Err("crash".into());
                                }
                                let bw: BucketWire = cbor2::from_reader(&data[..]).expect("bucket decodes");
                                let mut content = vec![Vec::<u64>::new(); cxl.nk];
                                let mut stale = Vec::new();
                                for (k, (b, _, ids)) in bw.p {
                                    let mut ids = ids;
                                    ids.sort();
                                    if b != o.bucket_id {
                                        stale.push(cxl.key_no(&k));
                                    }
                                    content[cxl.key_no(&k) - 1] = ids;
                                }
                                d1.borrow_mut().objects.insert((o.bucket_id, o.generation), data);
                                e1.borrow_mut().push(json!({"e": "write", "b": o.bucket_id, "g": o.generation,
                                                            "content": content, "foreign": stale}));
                                let cold = load(&d1.borrow(), dup).await;
                                e1.borrow_mut().push(match cold {
                                    Ok(c) => json!({"e": "load", "ok": true, "st": observe(&cxl, &c)}),
                                    Err(e) => json!({"e": "load", "ok": false, "err": e}),
                                });
                                if fault == Fault::FailAfter(i) {
                                    return Err("injected".into());
                                }
                                if fault == Fault::CrashAfter(i) {
                                    *c1.borrow_mut() = true;
                                    return Err("crash".into());
                                }
                                Ok(())
                            }
                        },
                    )
                    .await
                };
                let called = *pos.borrow() > 0;
                if called {
                    let g = gen_seen.borrow().expect("generation seen");
                    log.push(json!({"e": "snap", "g": g, "drop": drop}));
                }
                for e in evs.borrow_mut().drain(..) {
                    log.push(e);
                }
                if *crashed.borrow() {
                    idx = load(&durable.borrow(), dup).await.expect("load");
                    log.push(json!({"e": "crash", "st": observe(cx, &idx)}));
                    continue;
                }
                match outcome {
                    Ok(o) if !o.saved => log.push(json!({"e": "fnoop"})),
                    Ok(o) => {
                        let obs: Vec<Value> = o.obsolete.iter().map(|x| json!([x.bucket_id, x.generation])).collect();
                        log.push(json!({"e": "fret", "obsolete": obs, "st": observe(cx, &idx)}));
                        let mut crashed_here = false;
                        for (j, x) in o.obsolete.iter().enumerate() {
                            if j >= deletes {
                                crashed_here = crash_in_deletes;
                                break;
                            }
                            durable.borrow_mut().objects.remove(&(x.bucket_id, x.generation));
                            log.push(json!({"e": "delete", "b": x.bucket_id, "g": x.generation}));
                            let cold = load(&durable.borrow(), dup).await;
                            log.push(match cold {
                                Ok(c) => json!({"e": "load", "ok": true, "st": observe(cx, &c)}),
                                Err(e) => json!({"e": "load", "ok": false, "err": e}),
                            });
                        }
                        if crashed_here {
                            idx = load(&durable.borrow(), dup).await.expect("load");
                            log.push(json!({"e": "crash", "st": observe(cx, &idx)}));
                        } else {
                            log.push(json!({"e": "fend"}));
                        }
                    }
                    Err(_) => {
                        if called {
                            log.push(json!({"e": "ffail", "st": observe(cx, &idx)}));
                        } else {
                            log.push(json!({"e": "ferr_nocall"}));
                        }
                    }
                }
            }
            other => panic!("unknown op {other}"),
        }
    }
}

// ---------------------------------------------------------------------------------------------
// query cases

fn rq(cx: &Ctx, v: &Value) -> RangeQuery<String> {
    let tag = v[0].as_str().unwrap();
    let key = |x: &Value| cx.key(x.as_u64().unwrap() as usize);
    match tag {
        "eq" => RangeQuery::Eq(key(&v[1])),
        "gt" => RangeQuery::Gt(key(&v[1])),
        "ge" => RangeQuery::Ge(key(&v[1])),
        "lt" => RangeQuery::Lt(key(&v[1])),
        "le" => RangeQuery::Le(key(&v[1])),
        "between" => RangeQuery::Between(key(&v[1]), key(&v[2])),
        "include" => RangeQuery::Include(v[1].as_array().unwrap().iter().map(key).collect()),
        "and" => RangeQuery::And(v[1].as_array().unwrap().iter().map(|q| Box::new(rq(cx, q))).collect()),
        "or" => RangeQuery::Or(v[1].as_array().unwrap().iter().map(|q| Box::new(rq(cx, q))).collect()),
        "not" => RangeQuery::Not(Box::new(rq(cx, &v[1]))),
        t => panic!("tag {t}"),
    }
}

/// Runs `q` allowing `stop` callback invocations; returns [[key, [ids]], ..] in output order.
fn run_rq(cx: &Ctx, idx: &Index, q: &Value, rev: bool, stop: usize) -> Vec<(usize, Vec<u64>)> {
    let mut calls = 0usize;
    let f = |k: &String, ids: &Vec<u64>| {
        calls += 1;
        let mut ids = ids.clone();
        ids.sort();
        (calls < stop, vec![(cx.key_no(k), ids)])
    };
    if rev {
        idx.range_query_rev_with(rq(cx, q), f)
    } else {
        idx.range_query_with(rq(cx, q), f)
    }
}

async fn variants(cx: &Ctx, pop: &[Vec<u64>], seed: u64) -> Vec<(&'static str, Index)> {
    // build by a history that also inserts and removes extra pairs, in a seed-dependent order
    let mut pairs: Vec<(u64, usize)> = Vec::new();
    for (k, ids) in pop.iter().enumerate() {
        for id in ids {
            pairs.push((*id, k));
        }
    }
    let n = pairs.len().max(1);
    pairs.rotate_left((seed as usize) % n);
    let build = || {
        let idx = new_index(true);
        let mut now = 1;
        for k in 0..pop.len() {
            idx.insert(99, cx.key(k), now).unwrap();
            now += 1;
        }
        for (id, k) in &pairs {
            idx.insert(*id, cx.key(*k), now).unwrap();
            now += 1;
        }
        for k in 0..pop.len() {
            assert!(idx.remove(99, cx.key(k), now));
            now += 1;
        }
        idx
    };
    let live = build();
    let compacted = build();
    compacted.compact_buckets();
    let d = Rc::new(RefCell::new(Durable::default()));
    let src = build();
    {
        let (d1, d2) = (d.clone(), d.clone());
        src.flush_owned_with(
            7,
            move |data: Vec<u8>| async move {
                d1.borrow_mut().meta = Some(data);
                Ok(())
            },
            move |o: BucketObject, data: Vec<u8>| {
                let d2 = d2.clone();
                async move {
                    d2.borrow_mut().objects.insert((o.bucket_id, o.generation), data);
                    Ok(())
                }
            },
        )
        .await
        .expect("flush");
    }
    let loaded = load(&d.borrow(), true).await.expect("load");
    vec![("live", live), ("compacted", compacted), ("loaded", loaded)]
}

async fn run_queries(path: &str) {
    let cx = Ctx { nk: 5, long_keys: false };
    let f = std::io::BufReader::new(std::fs::File::open(path).unwrap());
    let mut npop = 0u64;
    let mut ncase = 0u64;
    let mut ncheck = 0u64;
    let mut bad = 0u64;
    let out = std::io::stdout();
    let mut cur_pop: Option<(Value, Vec<(&'static str, Index)>)> = None;
    for line in f.lines() {
        let line = line.unwrap();
        if line.trim().is_empty() {
            continue;
        }
        let c: Value = serde_json::from_str(&line).unwrap();
        // pop: 1-based array over key numbers 0..4 -> ids
        if cur_pop.as_ref().map(|p| p.0 != c["pop"]).unwrap_or(true) {
            let pop: Vec<Vec<u64>> = c["pop"]
                .as_array()
                .unwrap()
                .iter()
                .map(|ids| ids.as_array().unwrap().iter().map(|x| x.as_u64().unwrap()).collect())
                .collect();
            npop += 1;
            cur_pop = Some((c["pop"].clone(), variants(&cx, &pop, npop).await));
        }
        let (popv, idxs) = cur_pop.as_ref().unwrap();
        let ids_of = |k: usize| -> Vec<u64> {
            let mut v: Vec<u64> = popv[k].as_array().unwrap().iter().map(|x| x.as_u64().unwrap()).collect();
            v.sort();
            v
        };
        ncase += 1;
        let mut report = |what: String, variant: &str, got: Value, want: Value| {
            bad += 1;
            if bad <= 20 {
                writeln!(out.lock(), "{}", json!({"mismatch": what, "variant": variant, "case": c, "got": got, "want": want})).unwrap();
            }
        };
        for (vname, idx) in idxs {
            match c["kind"].as_str().unwrap() {
                "range" => {
                    for (dir, rev) in [("fwd", false), ("rev", true)] {
                        let exp = c[dir].as_array().unwrap();
                        for (si, want_keys) in exp.iter().enumerate() {
                            let stop = si + 1;
                            let got = run_rq(&cx, idx, &c["q"], rev, stop);
                            let want: Vec<(usize, Vec<u64>)> = want_keys
                                .as_array()
                                .unwrap()
                                .iter()
                                .map(|k| (k.as_u64().unwrap() as usize, ids_of(k.as_u64().unwrap() as usize)))
                                .collect();
                            ncheck += 1;
                            if got != want {
                                report(format!("range {dir} stop={stop}"), vname, json!(got), json!(want));
                            }
                        }
                    }
                }
                "prefix" => {
                    let p = PREFIXES[c["p"].as_u64().unwrap() as usize - 1];
                    for (si, want_keys) in c["fwd"].as_array().unwrap().iter().enumerate() {
                        let stop = si + 1;
                        let mut calls = 0;
                        let got: Vec<usize> = idx.prefix_query_with(p, |k, _ids| {
                            calls += 1;
                            (calls < stop, Some(cx.key_no(k)))
                        });
                        let want: Vec<usize> = want_keys.as_array().unwrap().iter().map(|k| k.as_u64().unwrap() as usize).collect();
                        ncheck += 1;
                        if got != want {
                            report(format!("prefix stop={stop}"), vname, json!(got), json!(want));
                        }
                    }
                }
                "keysall" => {
                    for page in c["pages"].as_array().unwrap() {
                        let cursor = page[0].as_i64().unwrap();
                        let limit = page[1].as_i64().unwrap();
                        let got: Vec<usize> = idx
                            .keys(
                                if cursor < 0 { None } else { Some(cx.key(cursor as usize)) },
                                if limit < 0 { None } else { Some(limit as usize) },
                            )
                            .iter()
                            .map(|k| cx.key_no(k))
                            .collect();
                        let want: Vec<usize> = page[2].as_array().unwrap().iter().map(|k| k.as_u64().unwrap() as usize).collect();
                        ncheck += 1;
                        if got != want {
                            report(format!("keys cursor={cursor} limit={limit}"), vname, json!(got), json!(want));
                        }
                    }
                }
                k => panic!("kind {k}"),
            }
        }
    }
    println!("{}", json!({"summary": true, "pops": npop, "cases": ncase, "checks": ncheck, "mismatches": bad}));
}

// ---------------------------------------------------------------------------------------------
// thread-level schedule exploration (-> BTreeConcTrace.tla)

fn observe_conc(cx: &Ctx, idx: &Index) -> Value {
    let (owners, buckets) = idx.verif_layout();
    let mut post = vec![json!([-1, []]); cx.nk];
    let mut has = Vec::new();
    for (k, b) in owners {
        let kn = cx.key_no(&k);
        let mut ids = idx.query_with(&k, |ids| Some(ids.clone())).unwrap_or_default();
        ids.sort();
        post[kn - 1] = json!([b, ids]);
        has.push(kn);
    }
    has.sort();
    let bt: Vec<usize> = idx.keys(None, None).iter().map(|s| cx.key_no(s)).collect();
    let mut bex: Vec<u32> = buckets.iter().map(|b| b.0).collect();
    bex.sort();
    let mut dirty: Vec<u32> = buckets.iter().filter(|b| b.1).map(|b| b.0).collect();
    dirty.sort();
    let mut lst: Vec<(u32, Vec<usize>)> = buckets
        .iter()
        .map(|(b, _, ks)| {
            let mut ks: Vec<usize> = ks.iter().map(|s| cx.key_no(s)).collect();
            ks.sort();
            (*b, ks)
        })
        .collect();
    lst.sort();
    json!({"has": has, "post": post, "bt": bt, "bex": bex, "dirty": dirty, "lst": lst,
           "maxb": idx.stats().max_bucket_id})
}

fn apply_plain(cx: &Ctx, idx: &Index, op: &Value, now: u64) -> i64 {
    let id = op["id"].as_u64().unwrap_or(0);
    match op["op"].as_str().unwrap() {
        "insert" => match idx.insert(id, cx.key(op["k"].as_u64().unwrap() as usize), now) {
            Ok(true) => 1,
            Ok(false) => 0,
            Err(_) => -1,
        },
        "remove" => idx.remove(id, cx.key(op["k"].as_u64().unwrap() as usize), now) as i64,
        "insert_array" => match idx.insert_array(id, ks_of(&op["ks"]).iter().map(|k| cx.key(*k)).collect(), now) {
            Ok(n) => n as i64,
            Err(_) => -1,
        },
        "remove_array" => idx.remove_array(id, ks_of(&op["ks"]).iter().map(|k| cx.key(*k)).collect(), now) as i64,
        "compact" => {
            idx.compact_buckets();
            0
        }
        o => panic!("op {o}"),
    }
}

async fn flush_to(idx: &Index, d: &Rc<RefCell<Durable>>) -> Vec<(u32, Vec<(String, Vec<u64>)>)> {
    let (d1, d2) = (d.clone(), d.clone());
    let written: Rc<RefCell<Vec<(u32, Vec<(String, Vec<u64>)>)>>> = Rc::new(RefCell::new(Vec::new()));
    let w2 = written.clone();
    let out = idx
        .flush_owned_with(
            9,
            move |data: Vec<u8>| async move {
                d1.borrow_mut().meta = Some(data);
                Ok(())
            },
            move |o: BucketObject, data: Vec<u8>| {
                let d2 = d2.clone();
                let w2 = w2.clone();
                async move {
                    let bw: BucketWire = cbor2::from_reader(&data[..]).expect("bucket decodes");
                    w2.borrow_mut().push((o.bucket_id, bw.p.into_iter().map(|(k, v)| (k, v.2)).collect()));
                    d2.borrow_mut().objects.insert((o.bucket_id, o.generation), data);
                    Ok(())
                }
            },
        )
        .await
        .expect("flush");
    for x in out.obsolete {
        d.borrow_mut().objects.remove(&(x.bucket_id, x.generation));
    }
    written.take()
}

struct ConcStats {
    schedules: u64,
    events: u64,
    blocked: u64,
    deadlocks: u64,
    migrations: u64,
    final_mismatch: Vec<Value>,
}

fn run_conc_scenario(
    rt: &tokio::runtime::Runtime,
    sc: &Value,
    out: &mut impl Write,
    hdr: &mut (usize, u64, u32),
    stats: &mut ConcStats,
) {
    use verif_harness::tsched::{self, Sched};
    let nk = sc["nk"].as_u64().unwrap() as usize;
    let uniq = sc["uniq"].as_bool().unwrap_or(false);
    let respect_gate = sc["respect_gate"].as_bool().unwrap_or(true);
    let cap = sc["cap"].as_u64().unwrap_or(200);
    let programs: Vec<Vec<Value>> = sc["threads"].as_array().unwrap().iter().map(|p| p.as_array().unwrap().clone()).collect();
    let n = programs.len();
    hdr.0 = hdr.0.max(nk);
    let mut prefix: Vec<usize> = Vec::new();
    let mut explored = 0u64;
    let mut rng_state = 0x9E3779B97F4A7C15u64 ^ (sc["seed"].as_u64().unwrap_or(1));
    loop {
        explored += 1;
        let cx = Arc::new(Ctx { nk, long_keys: true });
        let idx = Arc::new(new_index(!uniq));
        let mut now = 1;
        for op in sc["setup"].as_array().unwrap() {
            now += 1;
            apply_plain(&cx, &idx, op, now);
        }
        let durable = Rc::new(RefCell::new(Durable::default()));
        rt.block_on(flush_to(&idx, &durable));
        let init = observe_conc(&cx, &idx);
        let sched = Sched::new(n);
        sched.log(json!({"e": "reset", "tag": format!("{}#{}", sc["name"].as_str().unwrap(), explored), "uniq": uniq,
                         "gate": respect_gate, "nthreads": n}));
        sched.log(json!({"e": "init", "st": init}));
        let mut handles = Vec::new();
        for (tid, prog) in programs.iter().enumerate() {
            let (sched, idx, cx, prog) = (sched.clone(), idx.clone(), cx.clone(), prog.clone());
            handles.push(std::thread::spawn(move || {
                let (i2, c2) = (idx.clone(), cx.clone());
                sched.enter(tid, Arc::new(move || observe_conc(&c2, &i2)));
                for (i, op) in prog.iter().enumerate() {
                    let excl = op["op"] == "compact";
                    sched.park(tid, "boundary", false, excl);
                    sched.log(json!({"e": "call", "t": tid, "op": op["op"], "id": op["id"].as_u64().unwrap_or(0),
                                     "k": op["k"].as_u64().unwrap_or(0), "ks": ks_of(&op["ks"])}));
                    let r = std::panic::catch_unwind(std::panic::AssertUnwindSafe(|| apply_plain(&cx, &idx, op, 100 + i as u64)));
                    let st = observe_conc(&cx, &idx);
                    match r {
                        Ok(ret) => {
                            sched.log(json!({"e": "seg", "t": tid, "st": st}));
                            sched.log(json!({"e": "ret", "t": tid, "ret": ret}));
                        }
                        Err(_) => sched.log(json!({"e": "panic", "t": tid})),
                    }
                }
                sched.done(tid);
            }));
        }
        let res = tsched::drive(&sched, &prefix, respect_gate, if respect_gate { 10_000 } else { 40 });
        stats.blocked += res.blocked_seen as u64;
        if res.deadlock {
            // a deadlock is data: report it, leave the stuck threads behind and give up on this scenario
            stats.deadlocks += 1;
            std::mem::forget(handles);
            let g = sched.inner.lock().unwrap();
            stats.final_mismatch.push(json!({"scenario": sc["name"], "schedule": res.taken, "deadlock": true,
                                             "log_tail": g.log.iter().rev().take(6).collect::<Vec<_>>()}));
            return;
        }
        for h in handles {
            let _ = h.join();
        }
        // quiescent: what a flush writes and what a cold load returns
        let fin = observe_conc(&cx, &idx);
        rt.block_on(flush_to(&idx, &durable));
        let cold = rt.block_on(load(&durable.borrow(), !uniq)).expect("load");
        let loaded = observe_conc(&cx, &cold);
        let mut g = sched.inner.lock().unwrap();
        g.log.push(json!({"e": "final", "st": fin, "loaded": loaded["post"], "loaded_bt": loaded["bt"],
                          "schedule": res.taken, "deadlock": res.deadlock}));
        for e in g.log.iter() {
            if let Some(st) = e.get("st") {
                hdr.2 = hdr.2.max(st["maxb"].as_u64().unwrap_or(0) as u32);
                for b in st["bex"].as_array().unwrap() {
                    hdr.2 = hdr.2.max(b.as_u64().unwrap() as u32);
                }
            }
            writeln!(out, "{}", e).unwrap();
        }
        stats.events += g.log.len() as u64;
        stats.schedules += 1;
        // direct (harness-level) check as well: memory == reloaded
        let content = |st: &Value| -> Vec<Value> { st["post"].as_array().unwrap().iter().map(|p| p[1].clone()).collect() };
        // scenarios whose calls commute carry the content every schedule must end with
        let unexpected = sc["expect"].as_array().is_some_and(|exp| {
            let got = content(&fin);
            exp.iter().enumerate().any(|(k, ids)| got.get(k) != Some(ids))
        });
        if unexpected && stats.final_mismatch.len() < 5 {
            stats.final_mismatch.push(json!({"scenario": sc["name"], "schedule": res.taken, "memory": fin, "expected": sc["expect"]}));
        }
        // a unique index never lists two owners for one key - in memory or after flush + cold load
        if uniq {
            let two = |st: &Value| content(st).iter().any(|ids| ids.as_array().is_some_and(|a| a.len() > 1));
            if (two(&fin) || two(&loaded)) && stats.final_mismatch.len() < 5 {
                stats.final_mismatch.push(json!({"scenario": sc["name"], "schedule": res.taken, "memory": fin,
                                                 "unique_violated": true}));
            }
        }
        if content(&fin) != content(&loaded) || fin["bt"] != loaded["bt"] {
            if stats.final_mismatch.len() < 5 {
                stats.final_mismatch.push(json!({"scenario": sc["name"], "schedule": res.taken, "memory": fin, "loaded": loaded}));
            }
        }
        drop(g);
        if explored >= cap {
            break;
        }
        // next schedule: DFS while the tree is small, random restarts otherwise
        if sc["random"].as_bool().unwrap_or(false) {
            prefix = (0..64)
                .map(|_| {
                    rng_state ^= rng_state << 13;
                    rng_state ^= rng_state >> 7;
                    rng_state ^= rng_state << 17;
                    (rng_state % 4) as usize
                })
                .collect();
        } else {
            match verif_harness::sched::next_schedule(&res.taken, &res.counts) {
                Some(p) => prefix = p,
                None => break,
            }
        }
    }
    let _ = hdr.1;
}

fn main() {
    let args: Vec<String> = std::env::args().collect();
    let rt = tokio::runtime::Builder::new_current_thread().enable_all().build().unwrap();
    match args[1].as_str() {
        "hist" => {
            let f = std::io::BufReader::new(std::fs::File::open(&args[2]).unwrap());
            let mut log = Log { ev: Vec::new(), maxb: 1, maxgen: 1 };
            let mut nk = 0usize;
            let mut ni = 0u64;
            let mut n = 0;
            let ws: Vec<Value> = f
                .lines()
                .map(|l| l.unwrap())
                .filter(|l| !l.trim().is_empty())
                .map(|l| serde_json::from_str(&l).unwrap())
                .collect();
            for w in &ws {
                nk = nk.max(w["nk"].as_u64().unwrap() as usize);
                ni = ni.max(w["ni"].as_u64().unwrap());
            }
            let cx = Ctx { nk, long_keys: true };
            for w in &ws {
                rt.block_on(run_history(&cx, w, &mut log));
                n += 1;
            }
            let mut out = std::io::BufWriter::new(std::fs::File::create(&args[3]).unwrap());
            writeln!(out, "{}", json!({"e": "hdr", "nk": nk, "ni": ni, "maxb": log.maxb, "maxgen": log.maxgen + 1})).unwrap();
            for e in &log.ev {
                writeln!(out, "{}", e).unwrap();
            }
            println!("{}", json!({"summary": true, "histories": n, "events": log.ev.len()}));
        }
        "query" => rt.block_on(run_queries(&args[2])),
        "conc" => {
            verif_harness::tsched::install_hook();
            let f = std::io::BufReader::new(std::fs::File::open(&args[2]).unwrap());
            let body = format!("{}.body", &args[3]);
            let mut out = std::io::BufWriter::new(std::fs::File::create(&body).unwrap());
            let mut hdr = (0usize, 0u64, 1u32);
            let mut stats = ConcStats { schedules: 0, events: 0, blocked: 0, deadlocks: 0, migrations: 0, final_mismatch: vec![] };
            let mut nthreads = 0;
            let mut uniq_all = false;
            for l in f.lines() {
                let l = l.unwrap();
                if l.trim().is_empty() {
                    continue;
                }
                let sc: Value = serde_json::from_str(&l).unwrap();
                nthreads = nthreads.max(sc["threads"].as_array().unwrap().len());
                uniq_all = sc["uniq"].as_bool().unwrap_or(false);
                run_conc_scenario(&rt, &sc, &mut out, &mut hdr, &mut stats);
            }
            drop(out);
            let mut fin = std::io::BufWriter::new(std::fs::File::create(&args[3]).unwrap());
            writeln!(fin, "{}", json!({"e": "hdr", "nk": hdr.0, "ni": 6, "maxb": hdr.2 + 1, "nthreads": nthreads, "uniq": uniq_all})).unwrap();
            let mut b = std::fs::File::open(&body).unwrap();
            std::io::copy(&mut b, &mut fin).unwrap();
            std::fs::remove_file(&body).unwrap();
            println!("{}", json!({"summary": true, "schedules": stats.schedules, "events": stats.events, "blocked": stats.blocked,
                                  "deadlocks": stats.deadlocks, "migrations": stats.migrations, "final_mismatch": stats.final_mismatch}));
        }
        m => panic!("mode {m}"),
    }
}
