//! C11 driver: the real `BM25Index` with the default tokenizer and tiny buckets.
//!
//!   drive_bm25 hist <workloads.jsonl> <trace.ndjson>     histories, searches, every flush prefix (-> Bm25Trace.tla)
//!   drive_bm25 conc <scenarios.jsonl>                    threads at the yield points; final state only
//!
//! Texts are bags over a vocabulary of NT words; word NT+1.. are never indexed (query-only).
use anda_db_tfs::{BM25Config, BM25Index, BM25Metadata, BM25Params, BucketObject, TokenizerChain, default_tokenizer};
use serde::Deserialize;
use serde_json::{Value, json};
use std::cell::RefCell;
use std::collections::{BTreeMap, BTreeSet, HashMap};
use std::io::{BufRead, Write};
use std::rc::Rc;
use std::sync::Arc;

type Index = BM25Index<TokenizerChain>;

#[derive(Deserialize)]
struct BucketWire {
    p: HashMap<String, (u32, Vec<(u64, usize)>)>,
    d: HashMap<u64, usize>,
}
#[derive(Deserialize)]
struct MetaWire {
    metadata: BM25Metadata,
}

#[derive(Default, Clone)]
struct Durable {
    objects: BTreeMap<(u32, u64), Vec<u8>>,
    meta: Option<Vec<u8>>,
}

#[derive(Clone, Copy)]
struct Ctx {
    nt: usize,
    ni: usize,
}
const LETTERS: [&str; 8] = ["aa", "bb", "cc", "dd", "ee", "ff", "gg", "hh"];
fn word(t: usize) -> String {
    format!("zz{}qqqqqqqq", LETTERS[t - 1])
}
fn word_no(s: &str) -> usize {
    (1..=8).find(|t| word(*t) == s).expect("known word")
}
fn text_of(bag: &[u64]) -> String {
    let mut parts = Vec::new();
    // interleave so that the order of words in the text is not the vocabulary order
    let mut left: Vec<u64> = bag.to_vec();
    loop {
        let mut any = false;
        for (i, n) in left.iter_mut().enumerate().rev() {
            if *n > 0 {
                parts.push(word(i + 1));
                *n -= 1;
                any = true;
            }
        }
        if !any {
            break;
        }
    }
    parts.join(" ")
}

fn new_index() -> Index {
    Index::new(
        "t".to_string(),
        default_tokenizer(),
        Some(BM25Config { bm25: BM25Params::default(), bucket_overload_size: 64 }),
    )
}

async fn load(d: &Durable) -> Result<Index, String> {
    match &d.meta {
        None => Ok(new_index()),
        Some(m) => Index::load_all(default_tokenizer(), &m[..], async |o: BucketObject| {
            Ok(d.objects.get(&(o.bucket_id, o.generation)).cloned())
        })
        .await
        .map_err(|e| format!("{e:?}")),
    }
}

fn observe(cx: &Ctx, idx: &Index) -> (Vec<Vec<u64>>, Vec<usize>, usize) {
    let mut vis = Vec::new();
    for t in 1..=cx.nt {
        let mut ids: Vec<u64> = idx.search(&word(t), 10_000, None).into_iter().map(|x| x.0).collect();
        ids.sort();
        vis.push(ids);
    }
    let dt: Vec<usize> = (1..=cx.ni as u64).map(|i| idx.get_doc_tokens(i).unwrap_or(0)).collect();
    (vis, dt, idx.len())
}

fn render(q: &Value) -> String {
    match q[0].as_str().unwrap() {
        "term" => q[1].as_array().unwrap().iter().map(|t| word(t.as_u64().unwrap() as usize)).collect::<Vec<_>>().join(" "),
        "and" => q[1].as_array().unwrap().iter().map(|x| format!("({})", render(x))).collect::<Vec<_>>().join(" AND "),
        "or" => q[1].as_array().unwrap().iter().map(|x| format!("({})", render(x))).collect::<Vec<_>>().join(" OR "),
        "not" => format!("NOT ({})", render(&q[1])),
        t => panic!("tag {t}"),
    }
}

fn params(pi: u64) -> Option<BM25Params> {
    match pi {
        0 => None,
        1 => Some(BM25Params { k1: 0.0, b: 0.0 }),
        2 => Some(BM25Params { k1: 2.0, b: 1.0 }),
        3 => Some(BM25Params { k1: f32::NAN, b: f32::INFINITY }),
        4 => Some(BM25Params { k1: -3.0, b: -1.0 }),
        5 => Some(BM25Params { k1: f32::MAX, b: 7.5 }),
        _ => Some(BM25Params { k1: f32::NEG_INFINITY, b: f32::NAN }),
    }
}

fn bits(s: f32) -> i64 {
    if s.is_finite() && s >= 0.0 { s.to_bits() as i64 } else { -1 }
}

#[derive(Clone, Copy, PartialEq)]
enum Fault {
    None,
    FailBefore(usize),
    FailAfter(usize),
    CrashBefore(usize),
    CrashAfter(usize),
}

fn ev_load(cx: &Ctx, c: Result<Index, String>) -> Value {
    match c {
        Ok(c) => {
            let (vis, dt, n) = observe(cx, &c);
            json!({"e": "load", "ok": true, "vis": vis, "dt": dt, "n": n})
        }
        Err(e) => json!({"e": "load", "ok": false, "err": e}),
    }
}

fn decode_bucket(data: &[u8]) -> (Vec<(usize, u64, usize)>, HashMap<u64, usize>) {
    let bw: BucketWire = cbor2::from_reader(data).expect("bucket decodes");
    let mut p = Vec::new();
    for (tok, (_b, entries)) in bw.p {
        for (id, tf) in entries {
            p.push((word_no(&tok), id, tf));
        }
    }
    p.sort();
    (p, bw.d)
}

async fn run_history(cx: &Ctx, w: &Value, log: &mut Vec<Value>, maxb: &mut u32) {
    log.push(json!({"e": "reset", "tag": w["name"]}));
    let durable = Rc::new(RefCell::new(Durable::default()));
    let mut idx = new_index();
    let mut now = 1u64;
    let cx = *cx;
    for op in w["ops"].as_array().unwrap() {
        now += 1;
        let name = op["op"].as_str().unwrap();
        let bag: Vec<u64> = op["bag"].as_array().map(|a| a.iter().map(|x| x.as_u64().unwrap()).collect()).unwrap_or_default();
        let id = op["id"].as_u64().unwrap_or(0);
        let with_obs = |mut v: Value, idx: &Index| {
            let (vis, dt, n) = observe(&cx, idx);
            v["vis"] = json!(vis);
            v["dt"] = json!(dt);
            v["n"] = json!(n);
            v
        };
        match name {
            "insert" => {
                let ret = match idx.insert(id, &text_of(&bag), now) {
                    Ok(()) => 0,
                    Err(e) => {
                        let s = format!("{e:?}");
                        if s.contains("AlreadyExists") { -1 } else if s.contains("TokenizeFailed") { -2 } else { -9 }
                    }
                };
                log.push(with_obs(json!({"e": "op", "op": name, "id": id, "bag": bag, "ret": ret}), &idx));
            }
            "remove" => {
                let ret = idx.remove(id, &text_of(&bag), now) as i64;
                log.push(with_obs(json!({"e": "op", "op": name, "id": id, "bag": bag, "ret": ret}), &idx));
            }
            "purge" => {
                let ids: BTreeSet<u64> = op["ids"].as_array().unwrap().iter().map(|x| x.as_u64().unwrap()).collect();
                let ret = idx.purge_ids(&ids, now);
                log.push(with_obs(json!({"e": "op", "op": name, "ids": ids, "ret": ret}), &idx));
            }
            "compact" => {
                idx.compact_buckets();
                log.push(with_obs(json!({"e": "op", "op": name}), &idx));
            }
            "search" => {
                let q = &op["q"];
                let text = render(q);
                let pi = op["pi"].as_u64().unwrap_or(0);
                let n = idx.len();
                let ks: Vec<usize> = op["ks"].as_array().map(|a| a.iter().map(|x| x.as_u64().unwrap() as usize).collect())
                    .unwrap_or_else(|| (1..=n + 1).collect());
                let simple = op["simple"].as_bool().unwrap_or(false);
                for k in ks {
                    for _rep in 0..(if k == 2 { 2 } else { 1 }) {
                        let res = if simple {
                            Ok(idx.search(&text, k, params(pi)))
                        } else {
                            idx.try_search_advanced(&text, k, params(pi))
                        };
                        match res {
                            Ok(r) => {
                                let res: Vec<Value> = r.iter().map(|(id, s)| json!([id, bits(*s)])).collect();
                                log.push(json!({"e": "search", "q": q, "k": k, "pi": pi, "res": res, "text": text}));
                            }
                            Err(e) => log.push(json!({"e": "search_err", "q": q, "err": format!("{e:?}")})),
                        }
                    }
                }
            }
            "reload" => {
                idx = load(&durable.borrow()).await.expect("load");
                let (vis, dt, n) = observe(&cx, &idx);
                log.push(json!({"e": "crash", "vis": vis, "dt": dt, "n": n}));
            }
            "legacy" => {
                // the durable state as a pre-manifest release left it: un-suffixed bucket objects (generation 0),
                // metadata without a manifest; restart from it (the caller puts a clean flush in front)
                let converted = {
                    let d = durable.borrow();
                    match &d.meta {
                        None => None,
                        Some(mbytes) => {
                            #[derive(serde::Serialize)]
                            struct MetaOut<'a> {
                                metadata: &'a BM25Metadata,
                            }
                            let mut m: MetaWire = cbor2::from_reader(&mbytes[..]).expect("metadata decodes");
                            let man = std::mem::take(&mut m.metadata.buckets);
                            if man.is_empty() {
                                None
                            } else {
                                let mut objects = BTreeMap::new();
                                for (b, g) in &man {
                                    if let Some(o) = d.objects.get(&(*b, *g)) {
                                        objects.insert((*b, 0u64), o.clone());
                                    }
                                }
                                let mut buf = Vec::new();
                                cbor2::to_writer(&MetaOut { metadata: &m.metadata }, &mut buf).expect("metadata encodes");
                                Some(Durable { objects, meta: Some(buf) })
                            }
                        }
                    }
                };
                if let Some(nd) = converted {
                    *durable.borrow_mut() = nd;
                    idx = load(&durable.borrow()).await.expect("load");
                    let (vis, dt, n) = observe(&cx, &idx);
                    log.push(json!({"e": "legacy", "vis": vis, "dt": dt, "n": n}));
                }
            }
            "flush" => {
                let at = op["at"].as_u64().unwrap_or(0) as usize;
                let fault = match op["mode"].as_str().unwrap_or("clean") {
                    "fail_before" => Fault::FailBefore(at),
                    "fail_after" => Fault::FailAfter(at),
                    "crash_before" => Fault::CrashBefore(at),
                    "crash_after" => Fault::CrashAfter(at),
                    _ => Fault::None,
                };
                let deletes = op["deletes"].as_u64().unwrap_or(u64::MAX) as usize;
                let crash_in_deletes = op["crash_in_deletes"].as_bool().unwrap_or(false);
                let evs: Rc<RefCell<Vec<Value>>> = Rc::new(RefCell::new(Vec::new()));
                let pos = Rc::new(RefCell::new(0usize));
                let crashed = Rc::new(RefCell::new(false));
                let gen_seen: Rc<RefCell<Option<u64>>> = Rc::new(RefCell::new(None));
                let outcome = {
                    let (d1, e1, p1, c1, g1) = (durable.clone(), evs.clone(), pos.clone(), crashed.clone(), gen_seen.clone());
                    let (d2, e2, p2, c2, g2) = (durable.clone(), evs.clone(), pos.clone(), crashed.clone(), gen_seen.clone());
                    idx.flush_with(
                        now,
                        move |data: Vec<u8>| async move {
                            let i = *p2.borrow();
                            *p2.borrow_mut() += 1;
                            let m: MetaWire = cbor2::from_reader(&data[..]).expect("metadata decodes");
                            g2.borrow_mut().get_or_insert(m.metadata.stats.version);
                            if fault == Fault::FailBefore(i) {
                                return Err("injected".into());
                            }
                            if fault == Fault::CrashBefore(i) {
                                *c2.borrow_mut() = true;
                                return Err("crash".into());
                            }
                            d2.borrow_mut().meta = Some(data);
                            let man: Vec<Value> = m.metadata.buckets.iter().map(|(b, g)| json!([b, g])).collect();
                            e2.borrow_mut().push(json!({"e": "commit", "man": man}));
                            let cold = load(&d2.borrow()).await;
                            e2.borrow_mut().push(ev_load(&cx, cold));
                            if fault == Fault::CrashAfter(i) {
                                *c2.borrow_mut() = true;
                                return Err("crash".into());
                            }
                            Ok(())
                        },
                        move |o: BucketObject, data: Vec<u8>| {
                            let (d1, e1, p1, c1, g1) = (d1.clone(), e1.clone(), p1.clone(), c1.clone(), g1.clone());
                            async move {
                                let i = *p1.borrow();
                                *p1.borrow_mut() += 1;
                                g1.borrow_mut().get_or_insert(o.generation);
                                if fault == Fault::FailBefore(i) {
                                    return Err("injected".into());
                                }
                                if fault == Fault::CrashBefore(i) {
                                    *c1.borrow_mut() = true;
                                    return Err("crash".into());
                                }
                                let (p, d) = decode_bucket(&data);
                                let dv: Vec<usize> = (1..=cx.ni as u64).map(|i| d.get(&i).cloned().unwrap_or(0)).collect();
                                d1.borrow_mut().objects.insert((o.bucket_id, o.generation), data);
                                e1.borrow_mut().push(json!({"e": "write", "b": o.bucket_id, "g": o.generation, "p": p, "d": dv}));
                                let cold = load(&d1.borrow()).await;
                                e1.borrow_mut().push(ev_load(&cx, cold));
                                if fault == Fault::FailAfter(i) {
                                    return Err("injected".into());
                                }
                                if fault == Fault::CrashAfter(i) {
                                    *c1.borrow_mut() = true;
                                    return Err("crash".into());
                                }
                                Ok(())
                            }
                        },
                    )
                    .await
                };
                let called = *pos.borrow() > 0;
                if called {
                    log.push(json!({"e": "snap", "g": gen_seen.borrow().expect("generation seen")}));
                }
                for e in evs.borrow_mut().drain(..) {
                    if e["e"] == "write" {
                        *maxb = (*maxb).max(e["b"].as_u64().unwrap() as u32);
                    }
                    log.push(e);
                }
                if *crashed.borrow() {
                    idx = load(&durable.borrow()).await.expect("load");
                    let (vis, dt, n) = observe(&cx, &idx);
                    log.push(json!({"e": "crash", "vis": vis, "dt": dt, "n": n}));
                    continue;
                }
                match outcome {
                    Ok(o) if !o.saved => log.push(json!({"e": "fnoop"})),
                    Ok(o) => {
                        let obs: Vec<Value> = o.obsolete.iter().map(|x| json!([x.bucket_id, x.generation])).collect();
                        log.push(json!({"e": "fret", "obsolete": obs}));
                        let mut crashed_here = false;
                        for (j, x) in o.obsolete.iter().enumerate() {
                            if j >= deletes {
                                crashed_here = crash_in_deletes;
                                break;
                            }
                            durable.borrow_mut().objects.remove(&(x.bucket_id, x.generation));
                            log.push(json!({"e": "delete", "b": x.bucket_id, "g": x.generation}));
                            let cold = load(&durable.borrow()).await;
                            log.push(ev_load(&cx, cold));
                        }
                        if crashed_here {
                            idx = load(&durable.borrow()).await.expect("load");
                            let (vis, dt, n) = observe(&cx, &idx);
                            log.push(json!({"e": "crash", "vis": vis, "dt": dt, "n": n}));
                        } else {
                            log.push(json!({"e": "fend"}));
                        }
                    }
                    Err(_) => {
                        if called {
                            log.push(json!({"e": "ffail"}));
                        } else {
                            log.push(json!({"e": "ferr_nocall"}));
                        }
                    }
                }
            }
            other => panic!("unknown op {other}"),
        }
    }
}

// ---------------------------------------------------------------------------------------------
// threads at the yield points: the calls are logged in program order (the scenarios are chosen so
// that the calls of different threads commute), then the final observation, a flush and cold loads

fn apply_plain(idx: &Index, op: &Value, now: u64) -> i64 {
    let bag: Vec<u64> = op["bag"].as_array().map(|a| a.iter().map(|x| x.as_u64().unwrap()).collect()).unwrap_or_default();
    let id = op["id"].as_u64().unwrap_or(0);
    match op["op"].as_str().unwrap() {
        "insert" => match idx.insert(id, &text_of(&bag), now) {
            Ok(()) => 0,
            Err(e) => {
                let s = format!("{e:?}");
                if s.contains("AlreadyExists") { -1 } else if s.contains("TokenizeFailed") { -2 } else { -9 }
            }
        },
        "remove" => idx.remove(id, &text_of(&bag), now) as i64,
        "purge" => {
            let ids: BTreeSet<u64> = op["ids"].as_array().unwrap().iter().map(|x| x.as_u64().unwrap()).collect();
            idx.purge_ids(&ids, now) as i64
        }
        "compact" => {
            idx.compact_buckets();
            0
        }
        o => panic!("op {o}"),
    }
}

fn op_event(op: &Value, ret: i64, noobs: bool) -> Value {
    let mut v = json!({"e": "op", "op": op["op"], "ret": ret, "noobs": noobs});
    if !op["id"].is_null() {
        v["id"] = op["id"].clone();
    }
    if !op["bag"].is_null() {
        v["bag"] = op["bag"].clone();
    }
    if !op["ids"].is_null() {
        v["ids"] = op["ids"].clone();
    }
    v
}

fn run_conc_scenario(rt: &tokio::runtime::Runtime, cx: &Ctx, sc: &Value, log: &mut Vec<Value>, maxb: &mut u32, stats: &mut (u64, u64, u64)) {
    use verif_harness::tsched::{self, Sched};
    let respect_gate = sc["respect_gate"].as_bool().unwrap_or(true);
    let cap = sc["cap"].as_u64().unwrap_or(200);
    let programs: Vec<Vec<Value>> = sc["threads"].as_array().unwrap().iter().map(|p| p.as_array().unwrap().clone()).collect();
    let n = programs.len();
    let mut prefix: Vec<usize> = Vec::new();
    let mut explored = 0u64;
    let mut rng_state = 0x9E3779B97F4A7C15u64 ^ (sc["seed"].as_u64().unwrap_or(1));
    let cx = *cx;
    loop {
        explored += 1;
        log.push(json!({"e": "reset", "tag": format!("{}#{}", sc["name"].as_str().unwrap(), explored)}));
        let idx = Arc::new(new_index());
        let mut now = 1;
        for op in sc["setup"].as_array().unwrap() {
            now += 1;
            let ret = apply_plain(&idx, op, now);
            let (vis, dt, nn) = observe(&cx, &idx);
            let mut e = op_event(op, ret, false);
            e["vis"] = json!(vis);
            e["dt"] = json!(dt);
            e["n"] = json!(nn);
            log.push(e);
        }
        let sched = Sched::new(n);
        let rets: Arc<std::sync::Mutex<Vec<Vec<i64>>>> = Arc::new(std::sync::Mutex::new(vec![Vec::new(); n]));
        let mut handles = Vec::new();
        for (tid, prog) in programs.iter().enumerate() {
            let (sched, idx, prog, rets) = (sched.clone(), idx.clone(), prog.clone(), rets.clone());
            handles.push(std::thread::spawn(move || {
                sched.enter(tid, Arc::new(|| json!(null)));
                for (i, op) in prog.iter().enumerate() {
                    let excl = op["op"] == "compact";
                    sched.park(tid, "boundary", false, excl);
                    let r = std::panic::catch_unwind(std::panic::AssertUnwindSafe(|| apply_plain(&idx, op, 100 + i as u64)));
                    rets.lock().unwrap()[tid].push(r.unwrap_or(-99));
                }
                sched.done(tid);
            }));
        }
        let res = tsched::drive(&sched, &prefix, respect_gate, if respect_gate { 10_000 } else { 40 });
        stats.2 += res.blocked_seen as u64;
        if res.deadlock {
            std::mem::forget(handles);
            log.push(json!({"e": "deadlock", "schedule": res.taken}));
            return;
        }
        for h in handles {
            let _ = h.join();
        }
        let rets = rets.lock().unwrap().clone();
        for (tid, prog) in programs.iter().enumerate() {
            for (i, op) in prog.iter().enumerate() {
                log.push(op_event(op, rets[tid][i], true));
            }
        }
        let (vis, dt, nn) = observe(&cx, &idx);
        log.push(json!({"e": "obs", "vis": vis, "dt": dt, "n": nn, "schedule": res.taken}));
        // flush with a cold load after every durable write
        let durable = Rc::new(RefCell::new(Durable::default()));
        let evs: Rc<RefCell<Vec<Value>>> = Rc::new(RefCell::new(Vec::new()));
        let gen_seen: Rc<RefCell<Option<u64>>> = Rc::new(RefCell::new(None));
        let out = {
            let (d1, e1, g1) = (durable.clone(), evs.clone(), gen_seen.clone());
            let (d2, e2, g2) = (durable.clone(), evs.clone(), gen_seen.clone());
            rt.block_on(idx.flush_with(
                9,
                move |data: Vec<u8>| async move {
                    let m: MetaWire = cbor2::from_reader(&data[..]).expect("metadata decodes");
                    g2.borrow_mut().get_or_insert(m.metadata.stats.version);
                    d2.borrow_mut().meta = Some(data);
                    let man: Vec<Value> = m.metadata.buckets.iter().map(|(b, g)| json!([b, g])).collect();
                    e2.borrow_mut().push(json!({"e": "commit", "man": man}));
                    let cold = load(&d2.borrow()).await;
                    e2.borrow_mut().push(ev_load(&cx, cold));
                    Ok(())
                },
                move |o: BucketObject, data: Vec<u8>| {
                    let (d1, e1, g1) = (d1.clone(), e1.clone(), g1.clone());
                    async move {
                        g1.borrow_mut().get_or_insert(o.generation);
                        let (p, d) = decode_bucket(&data);
                        let dv: Vec<usize> = (1..=cx.ni as u64).map(|i| d.get(&i).cloned().unwrap_or(0)).collect();
                        d1.borrow_mut().objects.insert((o.bucket_id, o.generation), data);
                        e1.borrow_mut().push(json!({"e": "write", "b": o.bucket_id, "g": o.generation, "p": p, "d": dv}));
                        Ok(())
                    }
                },
            ))
        };
        if let Some(g) = *gen_seen.borrow() {
            log.push(json!({"e": "snap", "g": g}));
        }
        for e in evs.borrow_mut().drain(..) {
            if e["e"] == "write" {
                *maxb = (*maxb).max(e["b"].as_u64().unwrap() as u32);
            }
            log.push(e);
        }
        match out {
            Ok(o) if o.saved => {
                let obs: Vec<Value> = o.obsolete.iter().map(|x| json!([x.bucket_id, x.generation])).collect();
                log.push(json!({"e": "fret", "obsolete": obs}));
                log.push(json!({"e": "fend"}));
            }
            Ok(_) => log.push(json!({"e": "fnoop"})),
            Err(_) => log.push(json!({"e": "ffail"})),
        }
        stats.0 += 1;
        if explored >= cap {
            break;
        }
        if sc["random"].as_bool().unwrap_or(false) {
            prefix = (0..64)
                .map(|_| {
                    rng_state ^= rng_state << 13;
                    rng_state ^= rng_state >> 7;
                    rng_state ^= rng_state << 17;
                    (rng_state % 4) as usize
                })
                .collect();
        } else {
            match verif_harness::sched::next_schedule(&res.taken, &res.counts) {
                Some(p) => prefix = p,
                None => break,
            }
        }
    }
}

fn main() {
    let args: Vec<String> = std::env::args().collect();
    let rt = tokio::runtime::Builder::new_current_thread().enable_all().build().unwrap();
    match args[1].as_str() {
        "hist" => {
            let f = std::io::BufReader::new(std::fs::File::open(&args[2]).unwrap());
            let ws: Vec<Value> = f.lines().map(|l| l.unwrap()).filter(|l| !l.trim().is_empty())
                .map(|l| serde_json::from_str(&l).unwrap()).collect();
            let mut nt = 0;
            let mut ni = 0;
            for w in &ws {
                nt = nt.max(w["nt"].as_u64().unwrap() as usize);
                ni = ni.max(w["ni"].as_u64().unwrap() as usize);
            }
            let sweep = std::env::var("VERIF_BM25_SWEEP").map(|v| v != "0").unwrap_or(true);
            let cx = Ctx { nt, ni };
            let mut log = Vec::new();
            let mut maxb = 1u32;
            for w in &ws {
                rt.block_on(run_history(&cx, w, &mut log, &mut maxb));
            }
            let mut out = std::io::BufWriter::new(std::fs::File::create(&args[3]).unwrap());
            writeln!(out, "{}", json!({"e": "hdr", "nt": nt, "ni": ni, "maxb": maxb + 1, "sweep": sweep})).unwrap();
            for e in &log {
                writeln!(out, "{}", e).unwrap();
            }
            println!("{}", json!({"summary": true, "histories": ws.len(), "events": log.len(),
                                  "searches": log.iter().filter(|e| e["e"] == "search").count()}));
        }
        "conc" => {
            verif_harness::tsched::install_hook();
            let f = std::io::BufReader::new(std::fs::File::open(&args[2]).unwrap());
            let scs: Vec<Value> = f.lines().map(|l| l.unwrap()).filter(|l| !l.trim().is_empty())
                .map(|l| serde_json::from_str(&l).unwrap()).collect();
            let mut nt = 0;
            let mut ni = 0;
            for w in &scs {
                nt = nt.max(w["nt"].as_u64().unwrap() as usize);
                ni = ni.max(w["ni"].as_u64().unwrap() as usize);
            }
            let cx = Ctx { nt, ni };
            let mut log = Vec::new();
            let mut maxb = 1u32;
            let mut stats = (0u64, 0u64, 0u64);
            for sc in &scs {
                run_conc_scenario(&rt, &cx, sc, &mut log, &mut maxb, &mut stats);
            }
            let mut out = std::io::BufWriter::new(std::fs::File::create(&args[3]).unwrap());
            writeln!(out, "{}", json!({"e": "hdr", "nt": nt, "ni": ni, "maxb": maxb + 1, "sweep": true})).unwrap();
            for e in &log {
                writeln!(out, "{}", e).unwrap();
            }
            println!("{}", json!({"summary": true, "schedules": stats.0, "events": log.len(), "blocked": stats.2,
                                  "deadlocks": log.iter().filter(|e| e["e"] == "deadlock").count()}));
        }
        m => panic!("mode {m}"),
    }
}
