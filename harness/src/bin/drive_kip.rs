//! C15 driver: the real KIP parsers (`anda_kip::parse_kip / parse_kql / parse_kml / parse_meta / parse_json`,
//! `validate_command`, serde of the AST) against the verdicts TLC computed from KipBudget.tla / KipGrammar.tla.
//!
//!   drive_kip run lex  <cases.jsonl>     supervisor: every word of MC_KipBudget, scaled around the limit
//!   drive_kip run tree <cases.jsonl>     supervisor: sentences + token mutations of MC_KipGrammar, then a smoke run
//!   drive_kip worker <mode> <file> <from>   (internal) one child process; a stack overflow kills only the child
//!
//! The driver knows SPELLING only (how a token is written, which whitespace / comments / letter case may vary);
//! which tokens a command consists of, its class, whether it is valid, its nesting depth and what the budget check
//! must say all come from the case file.  Every case runs on a thread with a small fixed stack (C15_STACK_KB,
//! default 512 KiB), every parser call under catch_unwind, every case under a wall-clock bound (C15_CASE_SECS).
//! One JSON line per mismatch, a final {"summary":true,...} line.
use anda_kip::{Command, KipError, KipErrorCode, parse_json, parse_kip, parse_kml, parse_kql, parse_meta, validate_command};
use serde_json::{Value, json};
use std::collections::HashMap;
use std::io::{BufRead, BufReader, Write};
use std::sync::Arc;
use std::time::{Duration, Instant};

const MAX_LEN: usize = 256 * 1024;

// ---------------------------------------------------------------------------------------------------------------
// spelling tables

/// Concrete spelling of the named string literals (the text BETWEEN the quotes, already escaped).
fn string_table() -> HashMap<&'static str, String> {
    let mut m = HashMap::new();
    m.insert("plain", "Drug".to_string());
    m.insert("empty", String::new());
    m.insert("T", "T".to_string());
    m.insert("PURGE", "PURGE".to_string());
    m.insert("purge", "purge".to_string());
    m.insert("escquote", r#"say \"hi\""#.to_string());
    m.insert("trailbs", r#"C:\\"#.to_string());
    m.insert("onlybs", r#"\\"#.to_string());
    m.insert("bsquote", r#"\\\""#.to_string());
    m.insert("opens", "([{".to_string());
    m.insert("closes", ")]}".to_string());
    m.insert("slashes", "http://a/b".to_string());
    m.insert("comment", "// no [".to_string());
    m.insert("escslash", r#"\/"#.to_string());
    m.insert("nlesc", r#"a\nb\tc"#.to_string());
    m.insert("uesc", r#"\u0041\ud83d\ude00"#.to_string());
    m.insert("unicode", "日本語 🦀 é ü\u{a0}\u{2003}".to_string());
    m.insert("keyword", "FIND WHERE LIMIT".to_string());
    m.insert("quotebr", r#"\"[("#.to_string());
    m.insert("huge", "a".repeat(200_000));
    m
}

fn raw_table() -> HashMap<&'static str, &'static str> {
    HashMap::from([
        ("quote", "\""),
        ("bslash", "\\"),
        ("slash", "/"),
        ("dslash", "//"),
        ("nl", "\n"),
        ("lp", "("),
        ("lb", "["),
        ("lc", "{"),
        ("rp", ")"),
        ("rb", "]"),
        ("rc", "}"),
        ("junk", "@"),
        ("semi", ";"),
        ("word", "trailing"),
        ("find", "FIND"),
        ("nul", "\u{0}"),
        ("emoji", "🦀"),
        ("cmt", "// it's \"quoted [ {\n"),
        ("strfrag", "\"[\\\""),
    ])
}

fn number_table() -> HashMap<&'static str, &'static str> {
    HashMap::from([
        ("0", "0"),
        ("1", "1"),
        ("2", "2"),
        ("3", "3"),
        ("5", "5"),
        ("42", "42"),
        ("-7", "-7"),
        ("0.5", "0.5"),
        ("1e3", "1e3"),
        ("-0", "-0"),
        ("u64max", "18446744073709551615"),
        ("i64min", "-9223372036854775808"),
        ("2.5E-3", "2.5E-3"),
        ("1.0", "1.0"),
        ("1.5e300", "1.5e300"),
    ])
}

/// The scanner symbol of a character (KipBudget.tla's alphabet); runs of "x" collapse.
fn sym(c: char) -> &'static str {
    match c {
        '(' => "lp",
        '[' => "lb",
        '{' => "lc",
        ')' => "rp",
        ']' => "rb",
        '}' => "rc",
        '"' => "q",
        '\\' => "bs",
        '/' => "sl",
        '\n' => "nl",
        _ => "x",
    }
}
fn abstraction(text: &str) -> Vec<&'static str> {
    let mut out: Vec<&'static str> = Vec::new();
    for c in text.chars() {
        let s = sym(c);
        if s == "x" && out.last() == Some(&"x") {
            continue;
        }
        out.push(s);
    }
    out
}

struct Tables {
    strs: HashMap<&'static str, String>,
    raws: HashMap<&'static str, &'static str>,
    nums: HashMap<&'static str, &'static str>,
}

impl Tables {
    fn new() -> Self {
        Tables {
            strs: string_table(),
            raws: raw_table(),
            nums: number_table(),
        }
    }
    /// Refuse to run unless every spelling has exactly the lexical content the specification assumes.
    fn check_against(&self, table: &Value) -> Result<(), String> {
        for (kind, names) in [("str", table["str"].as_object()), ("raw", table["raw"].as_object())] {
            let names = names.ok_or("TABLE line has no str/raw object")?;
            for (name, body) in names {
                let want: Vec<String> = body.as_array().unwrap().iter().map(|s| s.as_str().unwrap().to_string()).collect();
                let text: String = if kind == "str" {
                    self.strs.get(name.as_str()).ok_or(format!("no spelling for string {name}"))?.clone()
                } else {
                    self.raws.get(name.as_str()).ok_or(format!("no spelling for raw {name}"))?.to_string()
                };
                let got: Vec<String> = abstraction(&text).into_iter().map(String::from).collect();
                if got != want {
                    return Err(format!("spelling of {kind} {name} abstracts to {got:?}, the specification says {want:?}"));
                }
            }
        }
        Ok(())
    }
}

// ---------------------------------------------------------------------------------------------------------------
// tokens -> text

#[derive(Clone, Copy, PartialEq, Debug)]
enum Variant {
    Canon,
    Lower,
    Mixed,
    Spaced,
    Comments,
    Tight,
    Edges,
}
const VARIANTS: [Variant; 6] = [Variant::Lower, Variant::Mixed, Variant::Spaced, Variant::Comments, Variant::Tight, Variant::Edges];

fn flip_case(s: &str) -> String {
    s.chars()
        .map(|c| if c.is_ascii_lowercase() { c.to_ascii_uppercase() } else if c.is_ascii_uppercase() { c.to_ascii_lowercase() } else { c })
        .collect()
}
fn mixed_case(s: &str, salt: usize) -> String {
    s.chars()
        .enumerate()
        .map(|(i, c)| if (i + salt) % 2 == 0 { c.to_ascii_lowercase() } else { c.to_ascii_uppercase() })
        .collect()
}

const COMMENT_BODIES: [&str; 12] = [
    " plain",
    " \"",
    " [({",
    " )]}",
    " \\",
    "// nested",
    " FIND WHERE }",
    " 日本語 🦀",
    " \"unterminated [",
    " \\\"",
    "",
    " /* not a block */ '",
];
const SPACES: [&str; 7] = ["  ", "\n", "\t", "\r\n", " \n  ", "\n\n", " \t "];

fn tok_text(t: &Tables, tok: &Value, v: Variant, salt: usize) -> Result<String, String> {
    let class = tok[0].as_str().ok_or("token without class")?;
    let word = |s: &str| match v {
        Variant::Lower => s.to_ascii_lowercase(),
        Variant::Mixed => mixed_case(s, salt),
        _ => s.to_string(),
    };
    Ok(match class {
        "kw" | "fn" => word(tok[1].as_str().unwrap()),
        "id" | "idg" | "p" | "pg" | "lit" => tok[1].as_str().unwrap().to_string(),
        "var" => format!("?{}", tok[1].as_str().unwrap()),
        "par" => format!(":{}", tok[1].as_str().unwrap()),
        "str" => format!("\"{}\"", t.strs.get(tok[1].as_str().unwrap()).ok_or("unknown string name")?),
        "num" => t.nums.get(tok[1].as_str().unwrap()).ok_or(format!("unknown number name {}", tok[1]))?.to_string(),
        "raw" => t.raws.get(tok[1].as_str().unwrap()).ok_or("unknown raw name")?.to_string(),
        "run" => tok_text(t, &tok[2], v, salt)?.repeat(tok[1].as_u64().unwrap() as usize),
        "rung" => {
            let mut one = String::new();
            for g in tok[2].as_array().unwrap() {
                one.push_str(&tok_text(t, g, v, salt)?);
                one.push(' ');
            }
            let mut s = one.repeat(tok[1].as_u64().unwrap() as usize);
            s.pop();
            s
        }
        "flip" => flip_case(&tok_text(t, &tok[1], Variant::Canon, salt)?),
        "pad" => "\u{1}PAD\u{1}".to_string(),
        other => return Err(format!("unknown token class {other}")),
    })
}

fn is_glued(tok: &Value) -> bool {
    matches!(tok[0].as_str(), Some("pg") | Some("idg"))
}
fn is_punct(tok: &Value) -> bool {
    match tok[0].as_str() {
        Some("p") | Some("pg") => true,
        Some("run") => is_punct(&tok[2]),
        _ => false,
    }
}

fn render(t: &Tables, toks: &[Value], v: Variant, salt: usize) -> Result<String, String> {
    let mut out = String::new();
    if v == Variant::Comments {
        out.push_str("// leading \"comment [\n");
    }
    if v == Variant::Edges {
        out.push_str(" \n// lead\n\t");
    }
    if v == Variant::Spaced {
        out.push_str("\n  ");
    }
    for (i, tok) in toks.iter().enumerate() {
        if i > 0 && !is_glued(tok) {
            match v {
                Variant::Canon | Variant::Lower | Variant::Mixed | Variant::Edges => out.push(' '),
                Variant::Spaced => out.push_str(SPACES[(i + salt) % SPACES.len()]),
                Variant::Comments => {
                    out.push_str(if (i + salt) % 3 == 0 { " //" } else { "//" });
                    out.push_str(COMMENT_BODIES[(i + salt) % COMMENT_BODIES.len()]);
                    out.push('\n');
                }
                Variant::Tight => {
                    if !(is_punct(tok) || is_punct(&toks[i - 1])) {
                        out.push(' ');
                    }
                }
            }
        }
        out.push_str(&tok_text(t, tok, v, salt + i)?);
    }
    match v {
        Variant::Comments => out.push_str(" // trailing ] \" without newline"),
        Variant::Edges => out.push_str("\n\n// done }"),
        Variant::Spaced => out.push_str(" \t\n"),
        _ => {}
    }
    // padding: fill to exactly the requested number of bytes
    if let Some(pad) = toks.iter().find(|x| x[0] == "pad") {
        let total = pad[2].as_u64().unwrap() as usize;
        let kind = pad[1].as_str().unwrap();
        let marker = "\u{1}PAD\u{1}";
        let rest = out.len() - marker.len();
        if total < rest + 8 {
            return Err("pad target smaller than the sentence".into());
        }
        let need = total - rest;
        let fill = match kind {
            "space" => {
                let mut s = String::with_capacity(need);
                for i in 0..need {
                    s.push(if i % 61 == 60 { '\n' } else if i % 17 == 16 { '\t' } else { ' ' });
                }
                s
            }
            "comment" => {
                let mut s = String::from("//");
                let body = " [\"{(\\ ";
                while s.len() + 1 < need {
                    let room = need - 1 - s.len();
                    s.push_str(&body[..room.min(body.len())]);
                }
                s.push('\n');
                s
            }
            _ => {
                let line = "// ] \" }\n";
                let mut s = String::new();
                while s.len() + line.len() <= need {
                    s.push_str(line);
                }
                while s.len() < need {
                    s.push(' ');
                }
                s
            }
        };
        out = out.replacen(marker, &fill, 1);
        if out.len() != total {
            return Err(format!("padding produced {} bytes, wanted {total}", out.len()));
        }
    }
    Ok(out)
}

// ---------------------------------------------------------------------------------------------------------------
// observing the parsers

#[derive(Clone, Debug)]
enum Obs {
    Ok(Box<Command>),
    Err(KipErrorCode, String),
    Panic(String),
}
impl Obs {
    fn class(&self) -> &'static str {
        match self {
            Obs::Ok(c) => match **c {
                Command::Kql(_) => "kql",
                Command::Kml(_) => "kml",
                Command::Meta(_) => "meta",
            },
            Obs::Err(KipErrorCode::ResourceExhausted, _) => "refused",
            Obs::Err(..) => "err",
            Obs::Panic(_) => "panic",
        }
    }
    fn same(&self, other: &Obs) -> bool {
        match (self, other) {
            (Obs::Ok(a), Obs::Ok(b)) => a == b,
            (Obs::Err(c1, m1), Obs::Err(c2, m2)) => c1 == c2 && m1 == m2,
            _ => false,
        }
    }
    fn brief(&self) -> String {
        match self {
            Obs::Ok(_) => format!("Ok({})", self.class()),
            Obs::Err(c, m) => format!("Err({}: {})", c.name(), m.chars().take(140).collect::<String>()),
            Obs::Panic(m) => format!("PANIC({})", m.chars().take(200).collect::<String>()),
        }
    }
}

fn panic_text(p: Box<dyn std::any::Any + Send>) -> String {
    if let Some(s) = p.downcast_ref::<&str>() {
        s.to_string()
    } else if let Some(s) = p.downcast_ref::<String>() {
        s.clone()
    } else {
        "non-string panic payload".into()
    }
}

fn guard<T>(f: impl FnOnce() -> Result<T, KipError>, wrap: impl FnOnce(T) -> Command) -> Obs {
    match std::panic::catch_unwind(std::panic::AssertUnwindSafe(f)) {
        Ok(Ok(v)) => Obs::Ok(Box::new(wrap(v))),
        Ok(Err(e)) => Obs::Err(e.code, e.message),
        Err(p) => Obs::Panic(panic_text(p)),
    }
}

struct Four {
    kip: Obs,
    kql: Obs,
    kml: Obs,
    meta: Obs,
}
fn four(text: &str) -> Four {
    Four {
        kip: guard(|| parse_kip(text), |c| c),
        kql: guard(|| parse_kql(text), Command::Kql),
        kml: guard(|| parse_kml(text), Command::Kml),
        meta: guard(|| parse_meta(text), Command::Meta),
    }
}
fn json_class(text: &str) -> &'static str {
    match std::panic::catch_unwind(|| parse_json(text)) {
        Ok(Ok(_)) => "ok",
        Ok(Err(e)) if e.code == KipErrorCode::ResourceExhausted => "refused",
        Ok(Err(_)) => "err",
        Err(_) => "panic",
    }
}

/// KipGrammar.tla `Agree`, applied to observed classes.
fn agree(f: &Four) -> Option<String> {
    let (kip, kql, kml, meta) = (f.kip.class(), f.kql.class(), f.kml.class(), f.meta.class());
    let bad = |why: &str| Some(format!("{why}: parse_kip={kip} parse_kql={kql} parse_kml={kml} parse_meta={meta}"));
    if [kip, kql, kml, meta].contains(&"panic") {
        return bad("panic");
    }
    let r = kip == "refused";
    if (kql == "refused") != r || (kml == "refused") != r || (meta == "refused") != r {
        return bad("the resource refusal is not common to all entry points");
    }
    if (kip == "kql") != (kql == "kql") || (kip == "kml") != (kml == "kml") || (kip == "meta") != (meta == "meta") {
        return bad("the general entry point disagrees with a specific one");
    }
    if let (Obs::Ok(a), Some(b)) = (
        &f.kip,
        match kip {
            "kql" => Some(&f.kql),
            "kml" => Some(&f.kml),
            "meta" => Some(&f.meta),
            _ => None,
        },
    ) {
        if let Obs::Ok(b) = b {
            if a != b {
                return bad("the general and the specific entry point return different trees");
            }
        }
    }
    None
}

/// Re-validation and serde round trip of an accepted tree.  Returns (mismatch kind, detail).
fn accepted_checks(c: &Command) -> Vec<(&'static str, String)> {
    let mut out = Vec::new();
    match std::panic::catch_unwind(|| validate_command(c)) {
        Ok(Ok(())) => {}
        Ok(Err(e)) => out.push(("revalidate", format!("validate_command refuses the parser's own output: {}: {}", e.code.name(), e.message))),
        Err(p) => out.push(("panic", format!("validate_command panicked: {}", panic_text(p)))),
    }
    match std::panic::catch_unwind(|| serde_json::to_string(c)) {
        Ok(Ok(js)) => match std::panic::catch_unwind(|| serde_json::from_str::<Command>(&js)) {
            Ok(Ok(back)) => {
                if &back != c {
                    out.push(("roundtrip", format!("decode(encode(tree)) differs from tree; json = {}", js.chars().take(400).collect::<String>())));
                }
            }
            Ok(Err(e)) => {
                let msg = e.to_string();
                let kind = if msg.contains("recursion limit") { "roundtrip_recursion_limit" } else { "roundtrip" };
                out.push((kind, format!("the encoded tree does not decode: {msg} (json {} bytes)", js.len())));
            }
            Err(p) => out.push(("panic", format!("serde decode panicked: {}", panic_text(p)))),
        },
        Ok(Err(e)) => out.push(("roundtrip", format!("the tree does not encode: {e}"))),
        Err(p) => out.push(("panic", format!("serde encode panicked: {}", panic_text(p)))),
    }
    out
}

// ---------------------------------------------------------------------------------------------------------------
// case evaluation

struct Ctx {
    tables: Tables,
    /// token lists of the tree cases by id (bases of the mutations)
    bases: HashMap<u64, Vec<Value>>,
}

#[derive(Default)]
struct CaseOut {
    mismatches: Vec<Value>,
    parses: u64,
    texts: u64,
    accepted: u64,
    variants: u64,
    max_ms: u128,
}
impl CaseOut {
    fn push(&mut self, kind: &str, case: &Value, variant: &str, text: &str, detail: String) {
        self.mismatches.push(json!({
            "mismatch": kind, "case": case, "variant": variant,
            "text": text.chars().take(500).collect::<String>(), "text_len": text.len(), "detail": detail,
        }));
    }
}

fn shape_of(c: &Command) -> Vec<String> {
    let v = serde_json::to_value(c).unwrap_or(Value::Null);
    let names = |arr: &Value| -> Vec<String> {
        arr.as_array()
            .map(|a| {
                a.iter()
                    .map(|x| match x {
                        Value::String(s) => s.clone(),
                        Value::Object(o) => o.keys().next().cloned().unwrap_or_default(),
                        _ => "?".into(),
                    })
                    .collect()
            })
            .unwrap_or_default()
    };
    match c {
        Command::Kql(_) => {
            let mut s = vec!["Kql".to_string()];
            s.extend(names(&v["Kql"]["where_clauses"]));
            s
        }
        Command::Kml(k) => {
            let mut s = vec!["Kml".to_string(), if k.explicit_transaction { "explicit" } else { "single" }.to_string()];
            s.extend(names(&v["Kml"]["clauses"]));
            s
        }
        Command::Meta(_) => {
            let inner = &v["Meta"];
            let (name, body) = match inner {
                Value::String(s) => (s.clone(), Value::Null),
                Value::Object(o) => o.iter().next().map(|(k, b)| (k.clone(), b.clone())).unwrap_or_default(),
                _ => ("?".into(), Value::Null),
            };
            let mut s = vec!["Meta".to_string(), name];
            s.extend(names(&body["where_clauses"]));
            s
        }
    }
}

/// A sentence with a verdict from KipGrammar.tla.
fn check_tree(cx: &Ctx, case: &Value, out: &mut CaseOut) -> Result<(), String> {
    let toks = case["toks"].as_array().ok_or("case without toks")?;
    let id = json!({"id": case["id"], "fam": case["fam"], "verdict": case["verdict"], "peak": case["peak"]});
    let salt = case["id"].as_u64().unwrap_or(0) as usize;
    let text = render(&cx.tables, toks, Variant::Canon, salt)?;
    let has_pad = toks.iter().any(|x| x[0] == "pad");
    if !has_pad && text.len() > MAX_LEN {
        return Err(format!("case {} renders to {} bytes: the specification assumed it is within the length limit", case["id"], text.len()));
    }
    let verdict = case["verdict"].as_str().unwrap_or("");
    let t0 = Instant::now();
    let f = four(&text);
    let again = four(&text);
    out.parses += 8;
    out.texts += 1;
    let ms = t0.elapsed().as_millis();
    out.max_ms = out.max_ms.max(ms);
    for (name, a, b) in [("parse_kip", &f.kip, &again.kip), ("parse_kql", &f.kql, &again.kql), ("parse_kml", &f.kml, &again.kml), ("parse_meta", &f.meta, &again.meta)] {
        if !a.same(b) {
            out.push("nondeterministic", &id, "canonical", &text, format!("{name}: {} then {}", a.brief(), b.brief()));
        }
        if let Obs::Panic(m) = a {
            out.push("panic", &id, "canonical", &text, format!("{name} panicked: {m}"));
        }
    }
    // expected classes of the four entry points
    let exp = &case["exp"];
    for (name, key, o) in [("parse_kip", "kip", &f.kip), ("parse_kql", "kql", &f.kql), ("parse_kml", "kml", &f.kml), ("parse_meta", "meta", &f.meta)] {
        let want = exp[key].as_str().unwrap_or("?");
        if o.class() != want {
            let kind = if want == "refused" || o.class() == "refused" { "budget" } else { "class" };
            out.push(kind, &id, "canonical", &text, format!("{name}: the specification says {want}, the parser says {} - {}", o.class(), o.brief()));
        }
    }
    if verdict == "budget" {
        let j = json_class(&text);
        out.parses += 1;
        if j != "refused" {
            out.push("budget", &id, "canonical", &text, format!("parse_json: the specification says refused, the parser says {j}"));
        }
    }
    if let Some(why) = agree(&f) {
        out.push("agreement", &id, "canonical", &text, why);
    }
    // whatever was accepted, by whichever entry point, must re-validate and survive serde
    for (name, o) in [("parse_kip", &f.kip), ("parse_kql", &f.kql), ("parse_kml", &f.kml), ("parse_meta", &f.meta)] {
        if let Obs::Ok(c) = o {
            if name == "parse_kip" || !matches!(f.kip, Obs::Ok(_)) {
                out.accepted += 1;
                for (kind, detail) in accepted_checks(c) {
                    out.push(kind, &id, "canonical", &text, format!("{name}: {detail}"));
                }
            }
        }
    }
    if verdict == "ok" {
        if let Obs::Ok(c) = &f.kip {
            let want: Vec<String> = case["shape"].as_array().unwrap().iter().map(|s| s.as_str().unwrap().to_string()).collect();
            let got = shape_of(c);
            if got != want {
                out.push("shape", &id, "canonical", &text, format!("the specification says {want:?}, the parsed tree shows {got:?}"));
            }
            // metamorphic variants: keyword case, inter-token whitespace, comments
            if !has_pad && text.len() <= 64 * 1024 {
                for v in VARIANTS {
                    let vt = render(&cx.tables, toks, v, salt)?;
                    let o = guard(|| parse_kip(&vt), |c| c);
                    out.parses += 1;
                    out.variants += 1;
                    match &o {
                        Obs::Ok(c2) if c2 == c => {}
                        Obs::Ok(_) => out.push("metamorphic", &id, &format!("{v:?}"), &vt, "parses to a different tree than the canonical spelling".into()),
                        other => out.push("metamorphic", &id, &format!("{v:?}"), &vt, format!("canonical spelling is accepted, this one gives {}", other.brief())),
                    }
                }
            }
        }
    }
    Ok(())
}

fn apply_mutation(base: &[Value], m: &Value) -> Result<Vec<Value>, String> {
    let n = base.len();
    let kind = m[0].as_str().ok_or("mutation without kind")?;
    let i = m[1].as_u64().ok_or("mutation without position")? as usize;
    let mut v: Vec<Value> = base.to_vec();
    match kind {
        "del" => {
            v.remove(i - 1);
        }
        "dup" => v.insert(i, base[i - 1].clone()),
        "swap" => v.swap(i - 1, i),
        "trunc" => v.truncate(i),
        "flip" => v[i - 1] = json!(["flip", base[i - 1]]),
        "ins" => v.insert(i - 1, json!(["raw", m[2]])),
        other => return Err(format!("unknown mutation {other}")),
    }
    let _ = n;
    Ok(v)
}

/// A mutated sentence: the specification decides the budget verdict only.
fn check_mut(cx: &Ctx, case: &Value, out: &mut CaseOut) -> Result<(), String> {
    let base = cx.bases.get(&case["base"].as_u64().unwrap_or(0)).ok_or("mutation of an unknown base")?;
    let toks = apply_mutation(base, &case["m"])?;
    if toks.len() as u64 != case["n"].as_u64().unwrap_or(u64::MAX) {
        return Err(format!("mutation {} of base {} gives {} tokens here, {} in the specification", case["m"], case["base"], toks.len(), case["n"]));
    }
    let text = render(&cx.tables, &toks, Variant::Canon, 0)?;
    let id = json!({"base": case["base"], "m": case["m"], "verdict": case["verdict"], "peak": case["peak"]});
    let t0 = Instant::now();
    let f = four(&text);
    let again = four(&text);
    let j = json_class(&text);
    out.parses += 9;
    out.texts += 1;
    out.max_ms = out.max_ms.max(t0.elapsed().as_millis());
    for (name, a, b) in [("parse_kip", &f.kip, &again.kip), ("parse_kql", &f.kql, &again.kql), ("parse_kml", &f.kml, &again.kml), ("parse_meta", &f.meta, &again.meta)] {
        if !a.same(b) {
            out.push("nondeterministic", &id, "mutated", &text, format!("{name}: {} then {}", a.brief(), b.brief()));
        }
        if let Obs::Panic(m) = a {
            out.push("panic", &id, "mutated", &text, format!("{name} panicked: {m}"));
        }
    }
    let refused = case["verdict"] == "budget";
    for (name, cls) in [("parse_kip", f.kip.class()), ("parse_kql", f.kql.class()), ("parse_kml", f.kml.class()), ("parse_meta", f.meta.class()), ("parse_json", j)] {
        if (cls == "refused") != refused {
            out.push("budget", &id, "mutated", &text, format!("{name}: the specification says {}, the parser says {cls}", if refused { "refused before parsing" } else { "within budget" }));
        }
    }
    if j == "panic" {
        out.push("panic", &id, "mutated", &text, "parse_json panicked".into());
    }
    if let Some(why) = agree(&f) {
        out.push("agreement", &id, "mutated", &text, why);
    }
    for (name, o) in [("parse_kip", &f.kip), ("parse_kql", &f.kql), ("parse_kml", &f.kml), ("parse_meta", &f.meta)] {
        if let Obs::Ok(c) = o {
            if name == "parse_kip" || !matches!(f.kip, Obs::Ok(_)) {
                out.accepted += 1;
                for (kind, detail) in accepted_checks(c) {
                    out.push(kind, &id, "mutated", &text, format!("{name}: {detail}"));
                }
            }
        }
    }
    Ok(())
}

// ---------------------------------------------------------------------------------------------------------------
// lexical words (MC_KipBudget)

const XCHARS: [char; 24] = ['a', 'Z', '0', ' ', '_', ',', ':', '?', 'é', '🦀', '\t', '.', '-', '|', '=', '!', '<', '&', '\'', ';', '@', '\u{0}', '\r', '日'];
const BR_PAIRS: [[(char, char); 2]; 6] = [
    [('(', ')'), ('[', ']')],
    [('(', ')'), ('{', '}')],
    [('[', ']'), ('(', ')')],
    [('[', ']'), ('{', '}')],
    [('{', '}'), ('(', ')')],
    [('{', '}'), ('[', ']')],
];

fn lex_text(alpha: &[String], w: &[u64], k: usize, rep: usize, salt: usize) -> String {
    let pair = BR_PAIRS[salt % 6];
    let mut s = String::new();
    for (i, a) in w[..k].iter().enumerate() {
        match alpha[*a as usize - 1].as_str() {
            "lp" => s.extend(std::iter::repeat_n(pair[0].0, rep)),
            "lb" => s.extend(std::iter::repeat_n(pair[1].0, rep)),
            "rp" => s.extend(std::iter::repeat_n(pair[0].1, rep)),
            "rb" => s.extend(std::iter::repeat_n(pair[1].1, rep)),
            "q" => s.push('"'),
            "bs" => s.push('\\'),
            "sl" => s.push('/'),
            "nl" => s.push('\n'),
            _ => s.push(XCHARS[(salt / 6 + i * 7) % XCHARS.len()]),
        }
    }
    s
}

fn check_lex(alpha: &[String], case: &Value, out: &mut CaseOut) -> Result<(), String> {
    let w: Vec<u64> = case["w"].as_array().ok_or("lex case without w")?.iter().map(|x| x.as_u64().unwrap()).collect();
    let cut: Vec<u64> = case["cut"].as_array().ok_or("lex case without cut")?.iter().map(|x| x.as_u64().unwrap()).collect();
    let n = w.len();
    let salt = w.iter().fold(0usize, |h, x| h.wrapping_mul(31).wrapping_add(*x as usize));
    for k in 1..=n {
        // a proper prefix is exercised once: by the word that continues it with first symbols only
        if k < n && (case["only_full"] == true || w[k..].iter().any(|x| *x != 1)) {
            continue;
        }
        let c = cut[k - 1] as usize;
        let reps: Vec<usize> = if c == 0 { vec![1, 65, 1000] } else { vec![1, c - 1, c, 1000] };
        for rep in reps {
            if rep == 0 {
                continue;
            }
            let refused = c != 0 && rep >= c;
            let text = lex_text(alpha, &w, k, rep, salt);
            let id = json!({"w": w, "prefix": k, "rep": rep, "cut": c});
            let f = four(&text);
            let j = json_class(&text);
            out.parses += 5;
            out.texts += 1;
            for (name, cls) in [("parse_kip", f.kip.class()), ("parse_kql", f.kql.class()), ("parse_kml", f.kml.class()), ("parse_meta", f.meta.class()), ("parse_json", j)] {
                if cls == "panic" {
                    out.push("panic", &id, "lex", &text, format!("{name} panicked"));
                } else if (cls == "refused") != refused {
                    out.push("budget", &id, "lex", &text, format!("{name}: the specification says {}, the parser says {cls}", if refused { "refused before parsing" } else { "within budget" }));
                }
            }
            if let Some(why) = agree(&f) {
                out.push("agreement", &id, "lex", &text, why);
            }
            for o in [&f.kip, &f.kql, &f.kml, &f.meta] {
                if let Obs::Ok(cmd) = o {
                    out.accepted += 1;
                    for (kind, detail) in accepted_checks(cmd) {
                        out.push(kind, &id, "lex", &text, detail);
                    }
                }
            }
        }
    }
    Ok(())
}

// ---------------------------------------------------------------------------------------------------------------
// smoke run: seeded random strings and character-level mutations (a SIDE CHECK: the specification has no verdict
// for these beyond the agreement law; totality on arbitrary Unicode is not decided by the specification)

struct Rng(u64);
impl Rng {
    fn next(&mut self) -> u64 {
        self.0 ^= self.0 << 13;
        self.0 ^= self.0 >> 7;
        self.0 ^= self.0 << 17;
        self.0
    }
    fn below(&mut self, n: usize) -> usize {
        (self.next() % n.max(1) as u64) as usize
    }
}
const SOUP: [&str; 44] = [
    "FIND", "WHERE", "MUTATE", "ASSERT", "DESCRIBE", "FILTER", "NOT", "BELIEF", "SLOT", "UPDATE", "SET", "FIELDS", "EXPORT", "CAPSULE",
    "(", ")", "{", "}", "[", "]", "\"", "\\", "/", "//", "\n", " ", ",", ":", "?x", ":p", "|", "!", "&&", "||", "==", "-", "1e999", "0.5",
    "true", "null", "id", "\u{0}", "🦀", "\u{a0}",
];
fn random_char(r: &mut Rng) -> char {
    loop {
        let c = match r.below(4) {
            0 => r.below(0x80) as u32,
            1 => r.below(0x800) as u32,
            2 => r.below(0x10000) as u32,
            _ => r.below(0x110000) as u32,
        };
        if let Some(ch) = char::from_u32(c) {
            return ch;
        }
    }
}
fn smoke_text(seed: u64, i: u64, sentences: &[String]) -> String {
    let mut r = Rng(seed.wrapping_mul(0x9E3779B97F4A7C15).wrapping_add(i.wrapping_mul(0xD1B54A32D192ED03)) | 1);
    for _ in 0..4 {
        r.next();
    }
    match i % 4 {
        0 => (0..r.below(200)).map(|_| random_char(&mut r)).collect(),
        1 => (0..r.below(60)).map(|_| SOUP[r.below(SOUP.len())]).collect::<Vec<_>>().join(if r.below(2) == 0 { " " } else { "" }),
        2 => {
            let mut chars: Vec<char> = sentences[r.below(sentences.len())].chars().collect();
            for _ in 0..1 + r.below(4) {
                let at = r.below(chars.len() + 1);
                match r.below(5) {
                    0 => {
                        let piece: Vec<char> = SOUP[r.below(SOUP.len())].chars().collect();
                        for (k, c) in piece.into_iter().enumerate() {
                            chars.insert((at + k).min(chars.len()), c);
                        }
                    }
                    1 if at < chars.len() => {
                        chars.remove(at);
                    }
                    2 if at < chars.len() => chars[at] = random_char(&mut r),
                    3 => chars.truncate(at),
                    _ => {
                        let end = (at + r.below(12)).min(chars.len());
                        let slice: Vec<char> = chars[at.min(end)..end].to_vec();
                        for (k, c) in slice.into_iter().enumerate() {
                            chars.insert(at + k, c);
                        }
                    }
                }
            }
            chars.into_iter().collect()
        }
        _ => {
            let a: Vec<char> = sentences[r.below(sentences.len())].chars().collect();
            let b: Vec<char> = sentences[r.below(sentences.len())].chars().collect();
            let (i1, i2) = (r.below(a.len() + 1), r.below(b.len() + 1));
            a[..i1].iter().chain(b[i2..].iter()).collect()
        }
    }
}
fn check_smoke(text: &str, i: u64, out: &mut CaseOut) {
    let id = json!({"smoke": i});
    let f = four(text);
    let again = four(text);
    let j = json_class(text);
    out.parses += 9;
    out.texts += 1;
    for (name, a, b) in [("parse_kip", &f.kip, &again.kip), ("parse_kql", &f.kql, &again.kql), ("parse_kml", &f.kml, &again.kml), ("parse_meta", &f.meta, &again.meta)] {
        if !a.same(b) {
            out.push("nondeterministic", &id, "smoke", text, format!("{name}: {} then {}", a.brief(), b.brief()));
        }
        if let Obs::Panic(m) = a {
            out.push("panic", &id, "smoke", text, format!("{name} panicked: {m}"));
        }
    }
    if j == "panic" {
        out.push("panic", &id, "smoke", text, "parse_json panicked".into());
    }
    if (j == "refused") != (f.kip.class() == "refused") {
        out.push("agreement", &id, "smoke", text, format!("parse_json says {j}, parse_kip says {}", f.kip.class()));
    }
    if let Some(why) = agree(&f) {
        out.push("agreement", &id, "smoke", text, why);
    }
    for (name, o) in [("parse_kip", &f.kip), ("parse_kql", &f.kql), ("parse_kml", &f.kml), ("parse_meta", &f.meta)] {
        if let Obs::Ok(c) = o {
            if name == "parse_kip" || !matches!(f.kip, Obs::Ok(_)) {
                out.accepted += 1;
                for (kind, detail) in accepted_checks(c) {
                    out.push(kind, &id, "smoke", text, format!("{name}: {detail}"));
                }
            }
        }
    }
}

// ---------------------------------------------------------------------------------------------------------------
// worker: one child process over a range of case indices

fn env_num(name: &str, default: u64) -> u64 {
    std::env::var(name).ok().and_then(|s| s.parse().ok()).unwrap_or(default)
}

enum Work {
    Lex { alpha: Vec<String>, cases: Vec<Value>, offset: usize, total: usize },
    Tree { cx: Ctx, cases: Vec<Value> },
    Smoke { seed: u64, n: u64, sentences: Vec<String> },
}
impl Work {
    fn len(&self) -> usize {
        match self {
            Work::Lex { total, .. } => *total,
            Work::Tree { cases, .. } => cases.len(),
            Work::Smoke { n, .. } => *n as usize,
        }
    }
}

fn load(mode: &str, file: &str, from: usize, to: usize) -> Result<Work, String> {
    let f = std::fs::File::open(file).map_err(|e| format!("{file}: {e}"))?;
    let mut lines = BufReader::new(f).lines();
    let header: Value = serde_json::from_str(&lines.next().ok_or("empty case file")?.map_err(|e| e.to_string())?).map_err(|e| e.to_string())?;
    let mut cases = Vec::new();
    let mut total = 0usize;
    for l in lines {
        let l = l.map_err(|e| e.to_string())?;
        if l.trim().is_empty() {
            continue;
        }
        total += 1;
        // the lexical family is large: a worker keeps its own range only
        if mode == "lex" && (total <= from || total > to) {
            continue;
        }
        cases.push(serde_json::from_str::<Value>(&l).map_err(|e| format!("bad case line: {e}"))?);
    }
    match mode {
        "lex" => Ok(Work::Lex {
            alpha: header["alpha"].as_array().ok_or("lex header without alpha")?.iter().map(|s| s.as_str().unwrap().to_string()).collect(),
            cases,
            offset: from,
            total,
        }),
        "tree" | "smoke" => {
            let tables = Tables::new();
            tables.check_against(&header["table"])?;
            let mut bases = HashMap::new();
            for c in &cases {
                if let (Some(id), Some(toks)) = (c["id"].as_u64(), c["toks"].as_array()) {
                    bases.insert(id, toks.clone());
                }
            }
            if mode == "tree" {
                return Ok(Work::Tree { cx: Ctx { tables, bases }, cases });
            }
            let mut sentences = Vec::new();
            for c in &cases {
                if c["verdict"] == "ok" {
                    if let Some(toks) = c["toks"].as_array() {
                        if toks.iter().all(|t| t[0] != "pad" && t[0] != "rung" && t[0] != "run") {
                            let s = render(&tables, toks, Variant::Canon, 0)?;
                            if s.len() < 2000 {
                                sentences.push(s);
                            }
                        }
                    }
                }
            }
            if sentences.is_empty() {
                return Err("no sentences for the smoke run".into());
            }
            Ok(Work::Smoke { seed: header["seed"].as_u64().unwrap_or(1), n: header["smoke_n"].as_u64().unwrap_or(0), sentences })
        }
        other => Err(format!("unknown mode {other}")),
    }
}

fn worker(mode: &str, file: &str, from: usize, to: usize) -> i32 {
    std::panic::set_hook(Box::new(|_| {}));
    let work = match load(mode, file, from, to) {
        Ok(w) => Arc::new(w),
        Err(e) => {
            println!("{}", json!({"tool_error": e}));
            return 2;
        }
    };
    let stack = env_num("C15_STACK_KB", 512) as usize * 1024;
    let secs = env_num("C15_CASE_SECS", 20);
    let batch = if mode == "tree" { 16 } else { 64 };
    let to = to.min(work.len());
    let mut total = CaseOut::default();
    let mut done = 0u64;
    let mut i = from;
    while i < to {
        let end = (i + batch).min(to);
        let (tx, rx) = std::sync::mpsc::channel();
        let w = work.clone();
        let handle = std::thread::Builder::new()
            .stack_size(stack)
            .spawn(move || {
                let mut out = CaseOut::default();
                let stdout = std::io::stdout();
                for k in i..end {
                    {
                        let mut so = stdout.lock();
                        let _ = writeln!(so, "#{k}");
                        let _ = so.flush();
                    }
                    let t0 = Instant::now();
                    let r = match &*w {
                        Work::Lex { alpha, cases, offset, .. } => check_lex(alpha, &cases[k - offset], &mut out),
                        Work::Tree { cx, cases } => {
                            if cases[k].get("toks").is_some() {
                                check_tree(cx, &cases[k], &mut out)
                            } else {
                                check_mut(cx, &cases[k], &mut out)
                            }
                        }
                        Work::Smoke { seed, sentences, .. } => {
                            let text = smoke_text(*seed, k as u64, sentences);
                            check_smoke(&text, k as u64, &mut out);
                            Ok(())
                        }
                    };
                    out.max_ms = out.max_ms.max(t0.elapsed().as_millis());
                    if let Err(e) = r {
                        let _ = tx.send(Err(e));
                        return;
                    }
                }
                let _ = tx.send(Ok(out));
            })
            .expect("spawn case thread");
        match rx.recv_timeout(Duration::from_secs(secs)) {
            Ok(Ok(out)) => {
                let _ = handle.join();
                for m in &out.mismatches {
                    println!("{m}");
                }
                total.parses += out.parses;
                total.texts += out.texts;
                total.accepted += out.accepted;
                total.variants += out.variants;
                total.max_ms = total.max_ms.max(out.max_ms);
                total.mismatches.extend(out.mismatches);
                done += (end - i) as u64;
            }
            Ok(Err(e)) => {
                println!("{}", json!({"tool_error": e}));
                return 2;
            }
            Err(std::sync::mpsc::RecvTimeoutError::Timeout) => {
                // the case thread is stuck in the parser: report and let the supervisor resume after it
                println!("{}", json!({"stuck": true, "secs": secs}));
                println!("{}", json!({"partial": true, "cases": done, "parses": total.parses, "texts": total.texts, "accepted": total.accepted,
                                      "variants": total.variants, "mismatches": total.mismatches.len(), "max_case_ms": total.max_ms as u64}));
                let _ = std::io::stdout().flush();
                std::process::exit(3);
            }
            Err(std::sync::mpsc::RecvTimeoutError::Disconnected) => {
                println!("{}", json!({"partial": true, "cases": done, "parses": total.parses, "texts": total.texts, "accepted": total.accepted,
                                      "variants": total.variants, "mismatches": total.mismatches.len(), "max_case_ms": total.max_ms as u64}));
                let _ = std::io::stdout().flush();
                std::process::exit(4);
            }
        }
        i = end;
    }
    println!("{}", json!({"summary": true, "cases": done, "parses": total.parses, "texts": total.texts, "accepted": total.accepted,
                          "variants": total.variants, "mismatches": total.mismatches.len(), "max_case_ms": total.max_ms as u64}));
    0
}

// ---------------------------------------------------------------------------------------------------------------
// supervisor: child processes over index ranges; an abnormal exit is a violation of the case in flight

fn describe_case(mode: &str, file: &str, lines: &[String], idx: usize) -> Value {
    if mode == "smoke" {
        return json!({"smoke": idx});
    }
    if mode == "lex" {
        let line = std::fs::File::open(file).ok().and_then(|f| BufReader::new(f).lines().nth(idx + 1)).and_then(Result::ok);
        return line.and_then(|l| serde_json::from_str::<Value>(&l).ok()).unwrap_or(json!({"index": idx}));
    }
    match lines.get(idx + 1).and_then(|l| serde_json::from_str::<Value>(l).ok()) {
        Some(mut v) => {
            if let Some(o) = v.as_object_mut() {
                if let Some(t) = o.get("toks").and_then(|t| t.as_array()).map(|a| a.len()) {
                    if t > 60 {
                        o.remove("toks");
                    }
                }
            }
            v
        }
        None => json!({"index": idx}),
    }
}

fn supervise(mode: &str, file: &str) -> i32 {
    let exe = std::env::current_exe().expect("own path");
    // the lexical family is large: count its lines, fetch one only when a crash has to be described
    let lines: Vec<String> = if mode == "lex" {
        let n = std::fs::File::open(file).map(|f| BufReader::new(f).lines().count()).unwrap_or(0);
        vec![String::new(); n.min(1)].into_iter().chain(std::iter::once(format!("{n}"))).collect()
    } else {
        std::fs::read_to_string(file).map(|s| s.lines().map(String::from).collect()).unwrap_or_default()
    };
    if lines.is_empty() || (mode == "lex" && lines.last().map(String::as_str) == Some("0")) {
        println!("{}", json!({"tool_error": "empty case file"}));
        return 2;
    }
    let n = if mode == "smoke" {
        serde_json::from_str::<Value>(&lines[0]).ok().and_then(|h| h["smoke_n"].as_u64()).unwrap_or(0) as usize
    } else if mode == "lex" {
        lines.last().and_then(|s| s.parse::<usize>().ok()).unwrap_or(1) - 1
    } else {
        lines.len() - 1
    };
    let jobs = env_num("C15_JOBS", 6).max(1) as usize;
    let per = n.div_ceil(jobs).max(1);
    let agg = Arc::new(std::sync::Mutex::new((json!({"cases": 0, "parses": 0, "texts": 0, "accepted": 0, "variants": 0, "mismatches": 0, "max_case_ms": 0}), 0u64, 0u64, false)));
    let lines = Arc::new(lines);
    let mut handles = Vec::new();
    for j in 0..jobs {
        let (lo, hi) = (j * per, ((j + 1) * per).min(n));
        if lo >= hi {
            continue;
        }
        let (exe, mode, file, agg, lines) = (exe.clone(), mode.to_string(), file.to_string(), agg.clone(), lines.clone());
        handles.push(std::thread::spawn(move || {
            let mut from = lo;
            let mut restarts = 0;
            while from < hi {
                let mut child = std::process::Command::new(&exe)
                    .args(["worker", &mode, &file, &from.to_string(), &hi.to_string()])
                    .stdout(std::process::Stdio::piped())
                    .stderr(std::process::Stdio::piped())
                    .spawn()
                    .expect("spawn worker");
                let stderr = child.stderr.take().unwrap();
                let err_thread = std::thread::spawn(move || {
                    let mut tail: Vec<String> = Vec::new();
                    for l in BufReader::new(stderr).lines().map_while(Result::ok) {
                        tail.push(l);
                        if tail.len() > 8 {
                            tail.remove(0);
                        }
                    }
                    tail.join("\n")
                });
                let mut last: Option<usize> = None;
                let mut started = 0u64;
                let mut finished = false;
                let mut stuck = false;
                for l in BufReader::new(child.stdout.take().unwrap()).lines().map_while(Result::ok) {
                    if let Some(rest) = l.strip_prefix('#') {
                        last = rest.parse().ok();
                        started += 1;
                        continue;
                    }
                    let Ok(v) = serde_json::from_str::<Value>(&l) else { continue };
                    let mut a = agg.lock().unwrap();
                    if v.get("summary").is_some() || v.get("partial").is_some() {
                        for k in ["parses", "texts", "accepted", "variants", "mismatches"] {
                            a.0[k] = json!(a.0[k].as_u64().unwrap() + v[k].as_u64().unwrap_or(0));
                        }
                        a.0["max_case_ms"] = json!(a.0["max_case_ms"].as_u64().unwrap().max(v["max_case_ms"].as_u64().unwrap_or(0)));
                        finished = v.get("summary").is_some();
                    } else if v.get("tool_error").is_some() {
                        a.3 = true;
                        println!("{l}");
                    } else if v.get("stuck").is_some() {
                        stuck = true;
                    } else {
                        println!("{l}");
                    }
                }
                let status = child.wait().expect("wait worker");
                {
                    let mut a = agg.lock().unwrap();
                    a.0["cases"] = json!(a.0["cases"].as_u64().unwrap() + started);
                }
                let tail = err_thread.join().unwrap_or_default();
                if finished && status.success() {
                    break;
                }
                if agg.lock().unwrap().3 {
                    return;
                }
                // abnormal end: the case in flight is the finding
                let idx = last.unwrap_or(from);
                let what = if stuck {
                    "no result within the wall-clock bound (unbounded work)".to_string()
                } else {
                    format!("the process died while parsing: {status} ({})", tail.lines().filter(|l| !l.trim().is_empty()).collect::<Vec<_>>().join(" | "))
                };
                {
                    let mut a = agg.lock().unwrap();
                    a.1 += 1;
                    a.0["mismatches"] = json!(a.0["mismatches"].as_u64().unwrap() + 1);
                    println!("{}", json!({"mismatch": if stuck { "timeout" } else { "crash" }, "case": describe_case(&mode, &file, &lines, idx), "variant": "-", "text": "", "detail": what}));
                }
                from = idx + 1;
                restarts += 1;
                if restarts > 300 {
                    let mut a = agg.lock().unwrap();
                    a.2 += (hi - from) as u64;
                    break;
                }
            }
        }));
    }
    for h in handles {
        let _ = h.join();
    }
    let a = agg.lock().unwrap();
    if a.3 {
        return 2;
    }
    let mut s = a.0.clone();
    s["summary"] = json!(true);
    s["crashes"] = json!(a.1);
    s["skipped_after_too_many_crashes"] = json!(a.2);
    s["planned"] = json!(n);
    println!("{s}");
    0
}

fn main() {
    let a: Vec<String> = std::env::args().collect();
    let code = match a.get(1).map(String::as_str) {
        Some("run") if a.len() >= 4 => supervise(&a[2], &a[3]),
        Some("worker") if a.len() >= 6 => worker(&a[2], &a[3], a[4].parse().unwrap_or(0), a[5].parse().unwrap_or(usize::MAX)),
        Some("text") if a.len() >= 3 => {
            // render the cases of a file (debugging aid): drive_kip text <cases.jsonl>
            match load("tree", &a[2], 0, usize::MAX) {
                Ok(Work::Tree { cx, cases }) => {
                    for c in cases.iter().filter(|c| c.get("toks").is_some()) {
                        match render(&cx.tables, c["toks"].as_array().unwrap(), Variant::Canon, 0) {
                            Ok(t) => println!("{} {} {} :: {}", c["id"], c["fam"], c["verdict"], t.chars().take(300).collect::<String>()),
                            Err(e) => println!("{} render error {e}", c["id"]),
                        }
                    }
                    0
                }
                Ok(_) => 2,
                Err(e) => {
                    println!("{e}");
                    2
                }
            }
        }
        _ => {
            eprintln!("usage: drive_kip run lex|tree|smoke <cases.jsonl>");
            2
        }
    };
    std::process::exit(code);
}
