//! C15 driver: the real KIP parsers (`anda_kip::parse_kip / parse_kql / parse_kml / parse_meta / parse_json`,
//! `validate_command`, serde of the AST) against the verdicts TLC computed from KipBudget.tla / KipGrammar.tla.
//!
//!   drive_kip run lex  <cases.jsonl>     supervisor: every word of MC_KipBudget, scaled around the limit
//!   drive_kip run tree <cases.jsonl>     supervisor: sentences + token mutations of MC_KipGrammar, then a smoke run
//!   drive_kip worker <mode> <file> <from>   (internal) one child process; a stack overflow kills only the child
//!
//! The driver knows SPELLING only (how a token is written, which whitespace / comments / letter case may vary);
//! which tokens a command consists of, its class, whether it is valid, its nesting depth and what the budget check
//! must say all come from the case file.  Every case runs on a thread with a small fixed stack (C15_STACK_KB,
//! default 512 KiB), every parser call under catch_unwind, every case under a wall-clock bound (C15_CASE_SECS).
//! One JSON line per mismatch, a final {"summary":true,...} line.
use anda_kip::{Command, KipError, KipErrorCode, parse_json, parse_kip, parse_kml, parse_kql, parse_meta, validate_command};
use serde_json::{Value, json};
use std::collections::HashMap;
use std::io::{BufRead, BufReader, Write};
use std::sync::Arc;
use std::time::{Duration, Instant};

const MAX_LEN: usize = 256 * 1024;

// ---------------------------------------------------------------------------------------------------------------
// spelling tables

/// Concrete spelling of the named string literals (the text BETWEEN the quotes, already escaped).
fn string_table() -> HashMap<&'static str, String> {
    let mut m = HashMap::new();
    m.insert("plain", "Drug".to_string());
    m.insert("empty", String::new());
    m.insert("T", "T".to_string());
    m.insert("PURGE", "PURGE".to_string());
    m.insert("purge", "purge".to_string());
    m.insert("escquote", r#"say \"hi\""#.to_string());
    m.insert("trailbs", r#"C:\\"#.to_string());
    m.insert("onlybs", r#"\\"#.to_string());
    m.insert("bsquote", r#"\\\""#.to_string());
    m.insert("opens", "([{".to_string());
    m.insert("closes", ")]}".to_string());
    m.insert("slashes", "http://a/b".to_string());
    m.insert("comment", "// no [".to_string());
    m.insert("escslash", r#"\/"#.to_string());
    m.insert("nlesc", r#"a\nb\tc"#.to_string());
    m.insert("uesc", r#"\u0041\ud83d\ude00"#.to_string());
    m.insert("unicode", "日本語 🦀 é ü\u{a0}\u{2003}".to_string());
    m.insert("keyword", "FIND WHERE LIMIT".to_string());
    m.insert("quotebr", r#"\"[("#.to_string());
    m.insert("huge", "a".repeat(200_000));
    m
}

fn raw_table() -> HashMap<&'static str, &'static str> {
    HashMap::from([
        ("quote", "\""),
        ("bslash", "\\"),
        ("slash", "/"),
        ("dslash", "//"),
        ("nl", "\n"),
        ("lp", "("),
        ("lb", "["),
        ("lc", "{"),
        ("rp", ")"),
        ("rb", "]"),
        ("rc", "}"),
        ("junk", "@"),
        ("semi", ";"),
        ("word", "trailing"),
        ("find", "FIND"),
        ("nul", "\u{0}"),
        ("emoji", "🦀"),
        ("cmt", "// it's \"quoted [ {\n"),
        ("strfrag", "\"[\\\""),
    ])
}

fn number_table() -> HashMap<&'static str, &'static str> {
    HashMap::from([
        ("0", "0"),
        ("1", "1"),
        ("2", "2"),
        ("3", "3"),
        ("5", "5"),
        ("42", "42"),
        ("-7", "-7"),
        ("0.5", "0.5"),
        ("1e3", "1e3"),
        ("-0", "-0"),
        ("u64max", "18446744073709551615"),
        ("i64min", "-9223372036854775808"),
        ("2.5E-3", "2.5E-3"),
        ("1.0", "1.0"),
        ("1.5e300", "1.5e300"),
    ])
}

/// The scanner symbol of a character (KipBudget.tla's alphabet); runs of "x" collapse.
fn sym(c: char) -> &'static str {
    match c {
        '(' => "lp",
        '[' => "lb",
        '{' => "lc",
        ')' => "rp",
        ']' => "rb",
        '}' => "rc",
        '"' => "q",
        '\\' => "bs",
        '/' => "sl",
        '\n' => "nl",
        _ => "x",
    }
}
fn abstraction(text: &str) -> Vec<&'static str> {
    let mut out: Vec<&'static str> = Vec::new();
    for c in text.chars() {
        let s = sym(c);
        if s == "x" && out.last() == Some(&"x") {
            continue;
        }
        out.push(s);
    }
    out
}

struct Tables {
    strs: HashMap<&'static str, String>,
    raws: HashMap<&'static str, &'static str>,
    nums: HashMap<&'static str, &'static str>,
}

impl Tables {
    fn new() -> Self {
        Tables {
            strs: string_table(),
            raws: raw_table(),
            nums: number_table(),
        }
    }
    /// Refuse to run unless every spelling has exactly the lexical content the specification assumes.
    fn check_against(&self, table: &Value) -> Result<(), String> {
        for (kind, names) in [("str", table["str"].as_object()), ("raw", table["raw"].as_object())] {
            let names = names.ok_or("TABLE line has no str/raw object")?;
            for (name, body) in names {
                let want: Vec<String> = body.as_array().unwrap().iter().map(|s| s.as_str().unwrap().to_string()).collect();
                let text: String = if kind == "str" {
                    self.strs.get(name.as_str()).ok_or(format!("no spelling for string {name}"))?.clone()
                } else {
                    self.raws.get(name.as_str()).ok_or(format!("no spelling for raw {name}"))?.to_string()
                };
                let got: Vec<String> = abstraction(&text).into_iter().map(String::from).collect();
                if got != want {
                    return Err(format!("spelling of {kind} {name} abstracts to {got:?}, the specification says {want:?}"));
                }
            }
        }
        Ok(())
    }
}

// ---------------------------------------------------------------------------------------------------------------
// tokens -> text

#[derive(Clone, Copy, PartialEq, Debug)]
enum Variant {
    Canon,
    Lower,
    Mixed,
    Spaced,
    Comments,
    Tight,
    Edges,
}
const VARIANTS: [Variant; 6] = [Variant::Lower, Variant::Mixed, Variant::Spaced, Variant::Comments, Variant::Tight, Variant::Edges];

fn flip_case(s: &str) -> String {
    s.chars()
        .map(|c| if c.is_ascii_lowercase() { c.to_ascii_uppercase() } else if c.is_ascii_uppercase() { c.to_ascii_lowercase() } else { c })
        .collect()
}
fn mixed_case(s: &str, salt: usize) -> String {
    s.chars()
        .enumerate()
        .map(|(i, c)| if (i + salt) % 2 == 0 { c.to_ascii_lowercase() } else { c.to_ascii_uppercase() })
        .collect()
}

const COMMENT_BODIES: [&str; 12] = [
    " plain",
    " \"",
    " [({",
    " )]}",
    " \\",
    "// nested",
    " FIND WHERE }",
    " 日本語 🦀",
    " \"unterminated [",
    " \\\"",
    "",
    " /* not a block */ '",
];
const SPACES: [&str; 7] = ["  ", "\n", "\t", "\r\n", " \n  ", "\n\n", " \t "];

fn tok_text(t: &Tables, tok: &Value, v: Variant, salt: usize) -> Result<String, String> {
    let class = tok[0].as_str().ok_or("token without class")?;
    let word = |s: &str| match v {
        Variant::Lower => s.to_ascii_lowercase(),
        Variant::Mixed => mixed_case(s, salt),
        _ => s.to_string(),
    };
    Ok(match class {
        "kw" | "fn" => word(tok[1].as_str().unwrap()),
        "id" | "idg" | "p" | "pg" | "lit" => tok[1].as_str().unwrap().to_string(),
        "var" => format!("?{}", tok[1].as_str().unwrap()),
        "par" => format!(":{}", tok[1].as_str().unwrap()),
        "str" => format!("\"{}\"", t.strs.get(tok[1].as_str().unwrap()).ok_or("unknown string name")?),
        "num" => t.nums.get(tok[1].as_str().unwrap()).ok_or(format!("unknown number name {}", tok[1]))?.to_string(),
        "raw" => t.raws.get(tok[1].as_str().unwrap()).ok_or("unknown raw name")?.to_string(),
        "run" => tok_text(t, &tok[2], v, salt)?.repeat(tok[1].as_u64().unwrap() as usize),
        "rung" => {
            let mut one = String::new();
            for g in tok[2].as_array().unwrap() {
                one.push_str(&tok_text(t, g, v, salt)?);
                one.push(' ');
            }
            let mut s = one.repeat(tok[1].as_u64().unwrap() as usize);
            s.pop();
            s
        }
        "flip" => flip_case(&tok_text(t, &tok[1], Variant::Canon, salt)?),
        "pad" => "\u{1}PAD\u{1}".to_string(),
        other => return Err(format!("unknown token class {other}")),
    })
}

fn is_glued(tok: &Value) -> bool {
    matches!(tok[0].as_str(), Some("pg") | Some("idg"))
}
fn is_punct(tok: &Value) -> bool {
    match tok[0].as_str() {
        Some("p") | Some("pg") => true,
        Some("run") => is_punct(&tok[2]),
        _ => false,
    }
}

fn render(t: &Tables, toks: &[Value], v: Variant, salt: usize) -> Result<String, String> {
    let mut out = String::new();
    if v == Variant::Comments {
        out.push_str("// leading \"comment [\n");
    }
    if v == Variant::Edges {
        out.push_str(" \n// lead\n\t");
    }
    if v == Variant::Spaced {
        out.push_str("\n  ");
    }
    for (i, tok) in toks.iter().enumerate() {
        if i > 0 && !is_glued(tok) {
            match v {
                Variant::Canon | Variant::Lower | Variant::Mixed | Variant::Edges => out.push(' '),
                Variant::Spaced => out.push_str(SPACES[(i + salt) % SPACES.len()]),
                Variant::Comments => {
                    out.push_str(if (i + salt) % 3 == 0 { " //" } else { "//" });
                    out.push_str(COMMENT_BODIES[(i + salt) % COMMENT_BODIES.len()]);
                    out.push('\n');
                }
                Variant::Tight => {
                    if !(is_punct(tok) || is_punct(&toks[i - 1])) {
                        out.push(' ');
                    }
                }
            }
        }
        out.push_str(&tok_text(t, tok, v, salt + i)?);
    }
    match v {
        Variant::Comments => out.push_str(" // trailing ] \" without newline"),
        Variant::Edges => out.push_str("\n\n// done }"),
        Variant::Spaced => out.push_str(" \t\n"),
        _ => {}
    }
    // padding: fill to exactly the requested number of bytes
    if let Some(pad) = toks.iter().find(|x| x[0] == "pad") {
        let total = pad[2].as_u64().unwrap() as usize;
        let kind = pad[1].as_str().unwrap();
        let marker = "\u{1}PAD\u{1}";
        let rest = out.len() - marker.len();
        if total < rest + 8 {
            return Err("pad target smaller than the sentence".into());
        }
        let need = total - rest;
        let fill = match kind {
            "space" => {
                let mut s = String::with_capacity(need);
                for i in 0..need {
                    s.push(if i % 61 == 60 { '\n' } else if i % 17 == 16 { '\t' } else { ' ' });
                }
                s
            }
            "comment" => {
                let mut s = String::from("//");
                let body = " [\"{(\\ ";
                while s.len() + 1 < need {
                    let room = need - 1 - s.len();
                    s.push_str(&body[..room.min(body.len())]);
                }
                s.push('\n');
                s
            }
            _ => {
                let line = "// ] \" }\n";
                let mut s = String::new();
                while s.len() + line.len() <= need {
                    s.push_str(line);
                }
                while s.len() < need {
                    s.push(' ');
                }
                s
            }
        };
        out = out.replacen(marker, &fill, 1);
        if out.len() != total {
            return Err(format!("padding produced {} bytes, wanted {total}", out.len()));
        }
    }
    Ok(out)
}

// ---------------------------------------------------------------------------------------------------------------
// observing the parsers

#[derive(Clone, Debug)]
enum Obs {
    Ok(Box<Command>),
    Err(KipErrorCode, String),
    Panic(String),
}
impl Obs {
    fn class(&self) -> &'static str {
        match self {
            Obs::Ok(c) => match **c {
                Command::Kql(_) => "kql",
                Command::Kml(_) => "kml",
                Command::Meta(_) => "meta",
            },
            Obs::Err(KipErrorCode::ResourceExhausted, _) => "refused",
            Obs::Err(..) => "err",
            Obs::Panic(_) => "panic",
        }
    }
    fn same(&self, other: &Obs) -> bool {
        match (self, other) {
            (Obs::Ok(a), Obs::Ok(b)) => a == b,
            (Obs::Err(c1, m1), Obs::Err(c2, m2)) => c1 == c2 && m1 == m2,
            _ => false,
        }
    }
    fn brief(&self) -> String {
        match self {
            Obs::Ok(_) => format!("Ok({})", self.class()),
            Obs::Err(c, m) => format!("Err({}: {})", c.name(), m.chars().take(140).collect::<String>()),
            Obs::Panic(m) => format!("PANIC({})", m.chars().take(200).collect::<String>()),
        }
    }
}

fn panic_text(p: Box<dyn std::any::Any + Send>) -> String {
    if let Some(s) = p.downcast_ref::<&str>() {
        s.to_string()
    } else if let Some(s) = p.downcast_ref::<String>() {
        s.clone()
    } else {
        "non-string panic payload".into()
    }
}

fn guard<T>(f: impl FnOnce() -> Result<T, KipError>, wrap: impl FnOnce(T) -> Command) -> Obs {
    match std::panic::catch_unwind(std::panic::AssertUnwindSafe(f)) {
        Ok(Ok(v)) => Obs::Ok(Box::new(wrap(v))),
        Ok(Err(e)) => Obs::Err(e.code, e.message),
        Err(p) => Obs::Panic(panic_text(p)),
    }
}

struct Four {
    kip: Obs,
    kql: Obs,
    kml: Obs,
    meta: Obs,
}
fn four(text: &str) -> Four {
    Four {
        kip: guard(|| parse_kip(text), |c| c),
        kql: guard(|| parse_kql(text), Command::Kql),
        kml: guard(|| parse_kml(text), Command::Kml),
        meta: guard(|| parse_meta(text), Command::Meta),
    }
}
fn json_class(text: &str) -> &'static str {
    match std::panic::catch_unwind(|| parse_json(text)) {
        Ok(Ok(_)) => "ok",
        Ok(Err(e)) if e.code == KipErrorCode::ResourceExhausted => "refused",
        Ok(Err(_)) => "err",
        Err(_) => "panic",
    }
}

/// KipGrammar.tla `Agree`, applied to observed classes.
fn agree(f: &Four) -> Option<String> {
    let (kip, kql, kml, meta) = (f.kip.class(), f.kql.class(), f.kml.class(), f.meta.class());
    let bad = |why: &str| Some(format!("{why}: parse_kip={kip} parse_kql={kql} parse_kml={kml} parse_meta={meta}"));
    if [kip, kql, kml, meta].contains(&"panic") {
        return bad("panic");
    }
    let r = kip == "refused";
    if (kql == "refused") != r || (kml == "refused") != r || (meta == "refused") != r {
        return bad("the resource refusal is not common to all entry points");
    }
    if (kip == "kql") != (kql == "kql") || (kip == "kml") != (kml == "kml") || (kip == "meta") != (meta == "meta") {
        return bad("the general entry point disagrees with a specific one");
    }
    if let (Obs::Ok(a), Some(b)) = (
        &f.kip,
        match kip {
            "kql" => Some(&f.kql),
            "kml" => Some(&f.kml),
            "meta" => Some(&f.meta),
            _ => None,
        },
    ) {
        if let Obs::Ok(b) = b {
            if a != b {
                return bad("the general and the specific entry point return different trees");
            }
        }
    }
    None
}

/// Re-validation and serde round trip of an accepted tree.  Returns (mismatch kind, detail).
fn accepted_checks(c: &Command) -> Vec<(&'static str, String)> {
    let mut out = Vec::new();
    match std::panic::catch_unwind(|| validate_command(c)) {
        Ok(Ok(())) => {}
        Ok(Err(e)) => out.push(("revalidate", format!("validate_command refuses the parser's own output: {}: {}", e.code.name(), e.message))),
        Err(p) => out.push(("panic", format!("validate_command panicked: {}", panic_text(p)))),
    }
    match std::panic::catch_unwind(|| serde_json::to_string(c)) {
        Ok(Ok(js)) => match std::panic::catch_unwind(|| serde_json::from_str::<Command>(&js)) {
            Ok(Ok(back)) => {
                if &back != c {
                    out.push(("roundtrip", format!("decode(encode(tree)) differs from tree; json = {}", js.chars().take(400).collect::<String>())));
                }
            }
            Ok(Err(e)) => {
                let msg = e.to_string();
                let kind = if msg.contains("recursion limit") { "roundtrip_recursion_limit" } else { "roundtrip" };
                out.push((kind, format!("the encoded tree does not decode: {msg} (json {} bytes)", js.len())));
            }
            Err(p) => out.push(("panic", format!("serde decode panicked: {}", panic_text(p)))),
        },
        Ok(Err(e)) => out.push(("roundtrip", format!("the tree does not encode: {e}"))),
        Err(p) => out.push(("panic", format!("serde encode panicked: {}", panic_text(p)))),
    }
    out
}

// ---------------------------------------------------------------------------------------------------------------
// case evaluation

struct Ctx {
    tables: Tables,
    /// token lists of the tree cases by id (bases of the mutations)
    bases: HashMap<u64, Vec<Value>>,
}

#[derive(Default)]
struct CaseOut {
    mismatches: Vec<Value>,
    parses: u64,
    texts: u64,
    accepted: u64,
    variants: u64,
    max_ms: u128,
}
impl CaseOut {
    fn push(&mut self, kind: &str, case: &Value, variant: &str, text: &str, detail: String) {
        self.mismatches.push(json!({
            "mismatch": kind, "case": case, "variant": variant,
            "text": text.chars().take(500).collect::<String>(), "text_len": text.len(), "detail": detail,
        }));
    }
}

fn shape_of(c: &Command) -> Vec<String> {
    let v = serde_json::to_value(c).unwrap_or(Value::Null);
    let names = |arr: &Value| -> Vec<String> {
        arr.as_array()
            .map(|a| {
                a.iter()
                    .map(|x| match x {
                        Value::String(s) => s.clone(),
                        Value::Object(o) => o.keys().next().cloned().unwrap_or_default(),
                        _ => "?".into(),
                    })
                    .collect()
            })
            .unwrap_or_default()
    };
    match c {
        Command::Kql(_) => {
            let mut s = vec!["Kql".to_string()];
            s.extend(names(&v["Kql"]["where_clauses"]));
            s
        }
        Command::Kml(k) => {
            let mut s = vec!["Kml".to_string(), if k.explicit_transaction { "explicit" } else { "single" }.to_string()];
            s.extend(names(&v["Kml"]["clauses"]));
            s
        }
        Command::Meta(_) => {
            let inner = &v["Meta"];
            let (name, body) = match inner {
                Value::String(s) => (s.clone(), Value::Null),
                Value::Object(o) => o.iter().next().map(|(k, b)| (k.clone(), b.clone())).unwrap_or_default(),
                _ => ("?".into(), Value::Null),
            };
            let mut s = vec!["Meta".to_string(), name];
            s.extend(names(&body["where_clauses"]));
            s
        }
    }
}

fn budget_over(case_secs: u64, t0: Instant) -> bool {
    t0.elapsed() > Duration::from_secs(case_secs)
}

/// A sentence with a verdict from KipGrammar.tla.
fn check_tree(cx: &Ctx, case: &Value, out: &mut CaseOut) -> Result<(), String> {
    let toks = case["toks"].as_array().ok_or("case without toks")?;
    let id = json!({"id": case["id"], "fam": case["fam"], "verdict": case["verdict"], "peak": case["peak"]});
    let salt = case["id"].as_u64().unwrap_or(0) as usize;
    let text = render(&cx.tables, toks, Variant::Canon, salt)?;
    let has_pad = toks.iter().any(|x| x[0] == "pad");
    if !has_pad && text.len() > MAX_LEN {
        return Err(format!("case {} renders to {} bytes: the specification assumed it is within the length limit", case["id"], text.len()));
    }
    let verdict = case["verdict"].as_str().unwrap_or("");
    let t0 = Instant::now();
    let f = four(&text);
    let again = four(&text);
    out.parses += 8;
    out.texts += 1;
    let ms = t0.elapsed().as_millis();
    out.max_ms = out.max_ms.max(ms);
    for (name, a, b) in [("parse_kip", &f.kip, &again.kip), ("parse_kql", &f.kql, &again.kql), ("parse_kml", &f.kml, &again.kml), ("parse_meta", &f.meta, &again.meta)] {
        if !a.same(b) {
            out.push("nondeterministic", &id, "canonical", &text, format!("{name}: {} then {}", a.brief(), b.brief()));
        }
        if let Obs::Panic(m) = a {
            out.push("panic", &id, "canonical", &text, format!("{name} panicked: {m}"));
        }
    }
    // expected classes of the four entry points
    let exp = &case["exp"];
    for (name, key, o) in [("parse_kip", "kip", &f.kip), ("parse_kql", "kql", &f.kql), ("parse_kml", "kml", &f.kml), ("parse_meta", "meta", &f.meta)] {
        let want = exp[key].as_str().unwrap_or("?");
        if o.class() != want {
            let kind = if want == "refused" || o.class() == "refused" { "budget" } else { "class" };
            out.push(kind, &id, "canonical", &text, format!("{name}: the specification says {want}, the parser says {} - {}", o.class(), o.brief()));
        }
    }
    if verdict == "budget" {
        let j = json_class(&text);
        out.parses += 1;
        if j != "refused" {
            out.push("budget", &id, "canonical", &text, format!("parse_json: the specification says refused, the parser says {j}"));
        }
    }
    if let Some(why) = agree(&f) {
        out.push("agreement", &id, "canonical", &text, why);
    }
    // whatever was accepted, by whichever entry point, must re-validate and survive serde
    for (name, o) in [("parse_kip", &f.kip), ("parse_kql", &f.kql), ("parse_kml", &f.kml), ("parse_meta", &f.meta)] {
        if let Obs::Ok(c) = o {
            if name == "parse_kip" || !matches!(f.kip, Obs::Ok(_)) {
                out.accepted += 1;
                for (kind, detail) in accepted_checks(c) {
                    out.push(kind, &id, "canonical", &text, format!("{name}: {detail}"));
                }
            }
        }
    }
    if verdict == "ok" {
        if let Obs::Ok(c) = &f.kip {
            let want: Vec<String> = case["shape"].as_array().unwrap().iter().map(|s| s.as_str().unwrap().to_string()).collect();
            let got = shape_of(c);
            if got != want {
                out.push("shape", &id, "canonical", &text, format!("the specification says {want:?}, the parsed tree shows {got:?}"));
            }
            // metamorphic variants: keyword case, inter-token whitespace, comments
            if !has_pad && text.len() <= 64 * 1024 {
                for v in VARIANTS {
                    let vt = render(&cx.tables, toks, v, salt)?;
                    let o = guard(|| parse_kip(&vt), |c| c);
                    out.parses += 1;
                    out.variants += 1;
                    match &o {
                        Obs::Ok(c2) if c2 == c => {}
                        Obs::Ok(_) => out.push("metamorphic", &id, &format!("{v:?}"), &vt, "parses to a different tree than the canonical spelling".into()),
                        other => out.push("metamorphic", &id, &format!("{v:?}"), &vt, format!("canonical spelling is accepted, this one gives {}", other.brief())),
                    }
                }
            }
        }
    }
    Ok(())
}

fn apply_mutation(base: &[Value], m: &Value) -> Result<Vec<Value>, String> {
    let n = base.len();
    let kind = m[0].as_str().ok_or("mutation without kind")?;
    let i = m[1].as_u64().ok_or("mutation without position")? as usize;
    let mut v: Vec<Value> = base.to_vec();
    match kind {
        "del" => {
            v.remove(i - 1);
        }
        "dup" => v.insert(i, base[i - 1].clone()),
        "swap" => v.swap(i - 1, i),
        "trunc" => v.truncate(i),
        "flip" => v[i - 1] = json!(["flip", base[i - 1]]),
        "ins" => v.insert(i - 1, json!(["raw", m[2]])),
        other => return Err(format!("unknown mutation {other}")),
    }
    let _ = n;
    Ok(v)
}

/// A mutated sentence: the specification decides the budget verdict only.
fn check_mut(cx: &Ctx, case: &Value, out: &mut CaseOut) -> Result<(), String> {
    let base = cx.bases.get(&case["base"].as_u64().unwrap_or(0)).ok_or("mutation of an unknown base")?;
    let toks = apply_mutation(base, &case["m"])?;
    if toks.len() as u64 != case["n"].as_u64().unwrap_or(u64::MAX) {
        return Err(format!("mutation {} of base {} gives {} tokens here, {} in the specification", case["m"], case["base"], toks.len(), case["n"]));
    }
    let text = render(&cx.tables, &toks, Variant::Canon, 0)?;
    let id = json!({"base": case["base"], "m": case["m"], "verdict": case["verdict"], "peak": case["peak"]});
    let t0 = Instant::now();
    let f = four(&text);
    let again = four(&text);
    let j = json_class(&text);
    out.parses += 9;
    out.texts += 1;
    out.max_ms = out.max_ms.max(t0.elapsed().as_millis());
    for (name, a, b) in [("parse_kip", &f.kip, &again.kip), ("parse_kql", &f.kql, &again.kql), ("parse_kml", &f.kml, &again.kml), ("parse_meta", &f.meta, &again.meta)] {
        if !a.same(b) {
            out.push("nondeterministic", &id, "mutated", &text, format!("{name}: {} then {}", a.brief(), b.brief()));
        }
        if let Obs::Panic(m) = a {
            out.push("panic", &id, "mutated", &text, format!("{name} panicked: {m}"));
        }
    }
    let refused = case["verdict"] == "budget";
    for (name, cls) in [("parse_kip", f.kip.class()), ("parse_kql", f.kql.class()), ("parse_kml", f.kml.class()), ("parse_meta", f.meta.class()), ("parse_json", j)] {
        if (cls == "refused") != refused {
            out.push("budget", &id, "mutated", &text, format!("{name}: the specification says {}, the parser says {cls}", if refused { "refused before parsing" } else { "within budget" }));
        }
    }
    if j == "panic" {
        out.push("panic", &id, "mutated", &text, "parse_json panicked".into());
    }
    if let Some(why) = agree(&f) {
        out.push("agreement", &id, "mutated", &text, why);
    }
    for (name, o) in [("parse_kip", &f.kip), ("parse_kql", &f.kql), ("parse_kml", &f.kml), ("parse_meta", &f.meta)] {
        if let Obs::Ok(c) = o {
            if name == "parse_kip" || !matches!(f.kip, Obs::Ok(_)) {
                out.accepted += 1;
                for (kind, detail) in accepted_checks(c) {
                    out.push(kind, &id, "mutated", &text, format!("{name}: {detail}"));
                }
            }
        }
    }
    Ok(())
}

// ---------------------------------------------------------------------------------------------------------------
// lexical words (MC_KipBudget)

const XCHARS: [char; 24] = ['a', 'Z', '0', ' ', '_', ',', ':', '?', 'é', '🦀', '\t', '.', '-', '|', '=', '!', '<', '&', '\'', ';', '@', '\u{0}', '\r', '日'];
const BR_PAIRS: [[(char, char); 2]; 6] = [
    [('(', ')'), ('[', ']')],
    [('(', ')'), ('{', '}')],
    [('[', ']'), ('(', ')')],
    [('[', ']'), ('{', '}')],
    [('{', '}'), ('(', ')')],
    [('{', '}'), ('[', ']')],
];

fn lex_text(alpha: &[String], w: &[u64], k: usize, rep: usize, salt: usize) -> String {
    let pair = BR_PAIRS[salt % 6];
    let mut s = String::new();
    for (i, a) in w[..k].iter().enumerate() {
        match alpha[*a as usize - 1].as_str() {
            "lp" => s.extend(std::iter::repeat_n(pair[0].0, rep)),
            "lb" => s.extend(std::iter::repeat_n(pair[1].0, rep)),
            "rp" => s.extend(std::iter::repeat_n(pair[0].1, rep)),
            "rb" => s.extend(std::iter::repeat_n(pair[1].1, rep)),
            "q" => s.push('"'),
            "bs" => s.push('\\'),
            "sl" => s.push('/'),
            "nl" => s.push('\n'),
            _ => s.push(XCHARS[(salt / 6 + i * 7) % XCHARS.len()]),
        }
    }
    s
}

fn check_lex(alpha: &[String], case: &Value, out: &mut CaseOut) -> Result<(), String> {
    let w: Vec<u64> = case["w"].as_array().ok_or("lex case without w")?.iter().map(|x| x.as_u64().unwrap()).collect();
    let cut: Vec<u64> = case["cut"].as_array().ok_or("lex case without cut")?.iter().map(|x| x.as_u64().unwrap()).collect();
    let n = w.len();
    let salt = w.iter().fold(0usize, |h, x| h.wrapping_mul(31).wrapping_add(*x as usize));
    for k in 1..=n {
        // a proper prefix is exercised once: by the word that continues it with first symbols only
        if k < n && w[k..].iter().any(|x| *x != 1) {
            continue;
        }
        let c = cut[k - 1] as usize;
        let reps: Vec<usize> = if c == 0 { vec![1, 65, 1000] } else { vec![1, c - 1, c, 1000] };
        for rep in reps {
            if rep == 0 {
                continue;
            }
            let refused = c != 0 && rep >= c;
            let text = lex_text(alpha, &w, k, rep, salt);
            let id = json!({"w": w, "prefix": k, "rep": rep, "cut": c});
            let f = four(&text);
            let j = json_class(&text);
            out.parses += 5;
            out.texts += 1;
            for (name, cls) in [("parse_kip", f.kip.class()), ("parse_kql", f.kql.class()), ("parse_kml", f.kml.class()), ("parse_meta", f.meta.class()), ("parse_json", j)] {
                if cls == "panic" {
                    out.push("panic", &id, "lex", &text, format!("{name} panicked"));
                } else if (cls == "refused") != refused {
                    out.push("budget", &id, "lex", &text, format!("{name}: the specification says {}, the parser says {cls}", if refused { "refused before parsing" } else { "within budget" }));
                }
            }
            if let Some(why) = agree(&f) {
                out.push("agreement", &id, "lex", &text, why);
            }
            for o in [&f.kip, &f.kql, &f.kml, &f.meta] {
                if let Obs::Ok(cmd) = o {
                    out.accepted += 1;
                    for (kind, detail) in accepted_checks(cmd) {
                        out.push(kind, &id, "lex", &text, detail);
                    }
                }
            }
        }
    }
    Ok(())
}
