use anda_kip::*;

fn on_stack<T: Send + 'static>(kb: usize, f: impl FnOnce() -> T + Send + 'static) -> T {
    std::thread::Builder::new().stack_size(kb * 1024).spawn(f).unwrap().join().unwrap()
}

fn show(label: &str, text: &str) {
    let r = parse_kip(text);
    match &r {
        Ok(c) => {
            let js = serde_json::to_string(c).unwrap();
            let back: Result<Command, _> = serde_json::from_str(&js);
            println!("{label}: OK rt={:?}", back.as_ref().map(|b| b == c).map_err(|e| e.to_string()));
        }
        Err(e) => println!("{label}: ERR {:?} {}", e.code, &e.message.chars().take(160).collect::<String>()),
    }
}

fn main() {
    let a: Vec<String> = std::env::args().collect();
    let kb: usize = a.get(1).map(|s| s.parse().unwrap()).unwrap_or(1024);
    for d in [10usize, 30, 40, 50, 58, 60, 61, 62] {
        let arr = format!("{}1{}", "[".repeat(d), "]".repeat(d));
        let t = format!("DESCRIBE ACCESS WITH {{ a: {arr} }}");
        on_stack(kb, move || show(&format!("arr{d}"), &t));
    }
    for d in [60usize, 62, 63] {
        let arr = format!("{}1{}", "[".repeat(d), "]".repeat(d));
        let t = format!("FIND(?x) WHERE {{ ?x {{a: {arr}}} }}");
        on_stack(kb, move || show(&format!("match-arr{d}"), &t));
        let t = format!("FIND(?x) WHERE {{ {} ?x {{a: 1}} {} }}", "NOT {".repeat(d), "}".repeat(d));
        on_stack(kb, move || show(&format!("not{d}"), &t));
        let t = format!("FIND(?x) WHERE {{ {} ?x {} }}", "(?a, \"p\", ".repeat(d), ")".repeat(d));
        on_stack(kb, move || show(&format!("prop{d}"), &t));
        let t = format!("FIND(?x) WHERE {{ FILTER({} ?x == 1 {}) }}", "(".repeat(d - 1), ")".repeat(d - 1));
        on_stack(kb, move || show(&format!("fparen{d}"), &t));
        let t = format!("FIND(?x) WHERE {{ ?x {{a: {} 1 {} }} }}", "{b: ".repeat(d - 1), "}".repeat(d - 1));
        on_stack(kb, move || show(&format!("obj{d}"), &t));
        let t = format!(
            "UPDATE :x SET ATTRIBUTES {{ a: {} 1 {} }}",
            "ADD(1, ".repeat(d - 1),
            ")".repeat(d - 1)
        );
        on_stack(kb, move || show(&format!("upd{d}"), &t));
    }
    for n in [60usize, 63, 64, 65] {
        let t = format!("FIND(?x) WHERE {{ FILTER({} ?x == 1) }}", "!".repeat(n));
        on_stack(kb, move || show(&format!("bang{n}"), &t));
        let t = format!("FIND(?x) WHERE {{ FILTER(?x == 1 {}) }}", "&& ?x == 1 ".repeat(n));
        on_stack(kb, move || show(&format!("and{n}"), &t));
        let t = format!("FIND(?x) WHERE {{ FILTER(?x == {} ?x.a) }}", "- ".repeat(n));
        on_stack(kb, move || show(&format!("neg{n}"), &t));
    }
    show("quant-glued", r#"FIND(?x) WHERE { (?x, "p"{1,3}, ?y) }"#);
    show("quant-ws", r#"FIND(?x) WHERE { (?x, "p" {1,3}, ?y) }"#);
    show("quant-inner-ws", r#"FIND(?x) WHERE { (?x, "p"{ 1 , 3 }, ?y) }"#);
    show("nbsp", "FIND\u{a0}(?x) WHERE { ?x {a: 1} } ORDER BY ?x");
    show("nbsp-words", "FIND(?x) WHERE { ?x {a: 1} } ORDER\u{a0}BY ?x");
    show("float", "FIND(?x) WHERE { ?x {a: 0.1, b: 1e22, c: 5e-324, d: 1.7976931348623157e308, e: 0.3, f: 123456789.12345678} }");
    for f in ["2.2250738585072011e-308", "9007199254740993.0", "0.000001", "1e23", "8.41e21", "2.4703282292062327e-324", "4.35", "1.0e-5", "100.0", "1E5", "-0.0", "-0", "1.5e300"] {
        show(&format!("float {f}"), &format!("DESCRIBE TYPE {f}"));
    }
    show("tightkw", r#"FIND(?x)WHERE{?x{a:1}}LIMIT 10CURSOR:c"#);
}
