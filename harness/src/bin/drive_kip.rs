//! C15 driver: the real KIP parsers (`anda_kip::parse_kip / parse_kql / parse_kml / parse_meta / parse_json`,
//! `validate_command`, serde of the AST) against the verdicts TLC computed from KipBudget.tla / KipGrammar.tla.
//!
//!   drive_kip run lex  <cases.jsonl>     supervisor: every word of MC_KipBudget, scaled around the limit
//!   drive_kip run tree <cases.jsonl>     supervisor: sentences + token mutations of MC_KipGrammar, then a smoke run
//!   drive_kip worker <mode> <file> <from>   (internal) one child process; a stack overflow kills only the child
//!
//! The driver knows SPELLING only (how a token is written, which whitespace / comments / letter case may vary);
//! which tokens a command consists of, its class, whether it is valid, its nesting depth and what the budget check
//! must say all come from the case file.  Every case runs on a thread with a small fixed stack (C15_STACK_KB,
//! default 512 KiB), every parser call under catch_unwind, every case under a wall-clock bound (C15_CASE_SECS).
//! One JSON line per mismatch, a final {"summary":true,...} line.
use anda_kip::{Command, KipError, KipErrorCode, parse_json, parse_kip, parse_kml, parse_kql, parse_meta, validate_command};
use serde_json::{Value, json};
use std::collections::HashMap;
use std::io::{BufRead, BufReader, Write};
use std::sync::Arc;
use std::time::{Duration, Instant};

const MAX_LEN: usize = 256 * 1024;

// ---------------------------------------------------------------------------------------------------------------
// spelling tables

/// Concrete spelling of the named string literals (the text BETWEEN the quotes, already escaped).
fn string_table() -> HashMap<&'static str, String> {
    let mut m = HashMap::new();
    m.insert("plain", "Drug".to_string());
    m.insert("empty", String::new());
    m.insert("T", "T".to_string());
    m.insert("PURGE", "PURGE".to_string());
    m.insert("purge", "purge".to_string());
    m.insert("escquote", r#"say \"hi\""#.to_string());
    m.insert("trailbs", r#"C:\\"#.to_string());
    m.insert("onlybs", r#"\\"#.to_string());
    m.insert("bsquote", r#"\\\""#.to_string());
    m.insert("opens", "([{".to_string());
    m.insert("closes", ")]}".to_string());
    m.insert("slashes", "http://a/b".to_string());
    m.insert("comment", "// no [".to_string());
    m.insert("escslash", r#"\/"#.to_string());
    m.insert("nlesc", r#"a\nb\tc"#.to_string());
    m.insert("uesc", r#"\u0041\ud83d\ude00"#.to_string());
    m.insert("unicode", "日本語 🦀 é ü\u{a0}\u{2003}".to_string());
    m.insert("keyword", "FIND WHERE LIMIT".to_string());
    m.insert("quotebr", r#"\"[("#.to_string());
    m.insert("huge", "a".repeat(200_000));
    m
}

fn raw_table() -> HashMap<&'static str, &'static str> {
    HashMap::from([
        ("quote", "\""),
        ("bslash", "\\"),
        ("slash", "/"),
        ("dslash", "//"),
        ("nl", "\n"),
        ("lp", "("),
        ("lb", "["),
        ("lc", "{"),
        ("rp", ")"),
        ("rb", "]"),
        ("rc", "}"),
        ("junk", "@"),
        ("semi", ";"),
        ("word", "trailing"),
        ("find", "FIND"),
        ("nul", "\u{0}"),
        ("emoji", "🦀"),
        ("cmt", "// it's \"quoted [ {\n"),
        ("strfrag", "\"[\\\""),
    ])
}

fn number_table() -> HashMap<&'static str, &'static str> {
    HashMap::from([
        ("0", "0"),
        ("1", "1"),
        ("2", "2"),
        ("3", "3"),
        ("5", "5"),
        ("42", "42"),
        ("-7", "-7"),
        ("0.5", "0.5"),
        ("1e3", "1e3"),
        ("-0", "-0"),
        ("u64max", "18446744073709551615"),
        ("i64min", "-9223372036854775808"),
        ("2.5E-3", "2.5E-3"),
        ("1.0", "1.0"),
        ("1.5e300", "1.5e300"),
    ])
}

/// The scanner symbol of a character (KipBudget.tla's alphabet); runs of "x" collapse.
fn sym(c: char) -> &'static str {
    match c {
        '(' => "lp",
        '[' => "lb",
        '{' => "lc",
        ')' => "rp",
        ']' => "rb",
        '}' => "rc",
        '"' => "q",
        '\\' => "bs",
        '/' => "sl",
        '\n' => "nl",
        _ => "x",
    }
}
fn abstraction(text: &str) -> Vec<&'static str> {
    let mut out: Vec<&'static str> = Vec::new();
    for c in text.chars() {
        let s = sym(c);
        if s == "x" && out.last() == Some(&"x") {
            continue;
        }
        out.push(s);
    }
    out
}

struct Tables {
    strs: HashMap<&'static str, String>,
    raws: HashMap<&'static str, &'static str>,
    nums: HashMap<&'static str, &'static str>,
}

impl Tables {
    fn new() -> Self {
        Tables {
            strs: string_table(),
            raws: raw_table(),
            nums: number_table(),
        }
    }
    /// Refuse to run unless every spelling has exactly the lexical content the specification assumes.
    fn check_against(&self, table: &Value) -> Result<(), String> {
        for (kind, names) in [("str", table["str"].as_object()), ("raw", table["raw"].as_object())] {
            let names = names.ok_or("TABLE line has no str/raw object")?;
            for (name, body) in names {
                let want: Vec<String> = body.as_array().unwrap().iter().map(|s| s.as_str().unwrap().to_string()).collect();
                let text: String = if kind == "str" {
                    self.strs.get(name.as_str()).ok_or(format!("no spelling for string {name}"))?.clone()
                } else {
                    self.raws.get(name.as_str()).ok_or(format!("no spelling for raw {name}"))?.to_string()
                };
                let got: Vec<String> = abstraction(&text).into_iter().map(String::from).collect();
                if got != want {
                    return Err(format!("spelling of {kind} {name} abstracts to {got:?}, the specification says {want:?}"));
                }
            }
        }
        Ok(())
    }
}

// ---------------------------------------------------------------------------------------------------------------
// tokens -> text

#[derive(Clone, Copy, PartialEq, Debug)]
enum Variant {
    Canon,
    Lower,
    Mixed,
    Spaced,
    Comments,
    Tight,
    Edges,
}
const VARIANTS: [Variant; 6] = [Variant::Lower, Variant::Mixed, Variant::Spaced, Variant::Comments, Variant::Tight, Variant::Edges];

fn flip_case(s: &str) -> String {
    s.chars()
        .map(|c| if c.is_ascii_lowercase() { c.to_ascii_uppercase() } else if c.is_ascii_uppercase() { c.to_ascii_lowercase() } else { c })
        .collect()
}
fn mixed_case(s: &str, salt: usize) -> String {
    s.chars()
        .enumerate()
        .map(|(i, c)| if (i + salt) % 2 == 0 { c.to_ascii_lowercase() } else { c.to_ascii_uppercase() })
        .collect()
}

const COMMENT_BODIES: [&str; 12] = [
    " plain",
    " \"",
    " [({",
    " )]}",
    " \\",
    "// nested",
    " FIND WHERE }",
    " 日本語 🦀",
    " \"unterminated [",
    " \\\"",
    "",
    " /* not a block */ '",
];
const SPACES: [&str; 7] = ["  ", "\n", "\t", "\r\n", " \n  ", "\n\n", " \t "];

fn tok_text(t: &Tables, tok: &Value, v: Variant, salt: usize) -> Result<String, String> {
    let class = tok[0].as_str().ok_or("token without class")?;
    let word = |s: &str| match v {
        Variant::Lower => s.to_ascii_lowercase(),
        Variant::Mixed => mixed_case(s, salt),
        _ => s.to_string(),
    };
    Ok(match class {
        "kw" | "fn" => word(tok[1].as_str().unwrap()),
        "id" | "idg" | "p" | "pg" | "lit" => tok[1].as_str().unwrap().to_string(),
        "var" => format!("?{}", tok[1].as_str().unwrap()),
        "par" => format!(":{}", tok[1].as_str().unwrap()),
        "str" => format!("\"{}\"", t.strs.get(tok[1].as_str().unwrap()).ok_or("unknown string name")?),
        "num" => t.nums.get(tok[1].as_str().unwrap()).ok_or(format!("unknown number name {}", tok[1]))?.to_string(),
        "raw" => t.raws.get(tok[1].as_str().unwrap()).ok_or("unknown raw name")?.to_string(),
        "run" => tok_text(t, &tok[2], v, salt)?.repeat(tok[1].as_u64().unwrap() as usize),
        "rung" => {
            let mut one = String::new();
            for g in tok[2].as_array().unwrap() {
                one.push_str(&tok_text(t, g, v, salt)?);
                one.push(' ');
            }
            let mut s = one.repeat(tok[1].as_u64().unwrap() as usize);
            s.pop();
            s
        }
        "flip" => flip_case(&tok_text(t, &tok[1], Variant::Canon, salt)?),
        "pad" => "\u{1}PAD\u{1}".to_string(),
        other => return Err(format!("unknown token class {other}")),
    })
}

fn is_glued(tok: &Value) -> bool {
    matches!(tok[0].as_str(), Some("pg") | Some("idg"))
}
fn is_punct(tok: &Value) -> bool {
    match tok[0].as_str() {
        Some("p") | Some("pg") => true,
        Some("run") => is_punct(&tok[2]),
        _ => false,
    }
}

fn render(t: &Tables, toks: &[Value], v: Variant, salt: usize) -> Result<String, String> {
    let mut out = String::new();
    if v == Variant::Comments {
        out.push_str("// leading \"comment [\n");
    }
    if v == Variant::Edges {
        out.push_str(" \n// lead\n\t");
    }
    if v == Variant::Spaced {
        out.push_str("\n  ");
    }
    for (i, tok) in toks.iter().enumerate() {
        if i > 0 && !is_glued(tok) {
            match v {
                Variant::Canon | Variant::Lower | Variant::Mixed | Variant::Edges => out.push(' '),
                Variant::Spaced => out.push_str(SPACES[(i + salt) % SPACES.len()]),
                Variant::Comments => {
                    out.push_str(if (i + salt) % 3 == 0 { " //" } else { "//" });
                    out.push_str(COMMENT_BODIES[(i + salt) % COMMENT_BODIES.len()]);
                    out.push('\n');
                }
                Variant::Tight => {
                    if !(is_punct(tok) || is_punct(&toks[i - 1])) {
                        out.push(' ');
                    }
                }
            }
        }
        out.push_str(&tok_text(t, tok, v, salt + i)?);
    }
    match v {
        Variant::Comments => out.push_str(" // trailing ] \" without newline"),
        Variant::Edges => out.push_str("\n\n// done }"),
        Variant::Spaced => out.push_str(" \t\n"),
        _ => {}
    }
    // padding: fill to exactly the requested number of bytes
    if let Some(pad) = toks.iter().find(|x| x[0] == "pad") {
        let total = pad[2].as_u64().unwrap() as usize;
        let kind = pad[1].as_str().unwrap();
        let marker = "\u{1}PAD\u{1}";
        let rest = out.len() - marker.len();
        if total < rest + 8 {
            return Err("pad target smaller than the sentence".into());
        }
        let need = total - rest;
        let fill = match kind {
            "space" => {
                let mut s = String::with_capacity(need);
                for i in 0..need {
                    s.push(if i % 61 == 60 { '\n' } else if i % 17 == 16 { '\t' } else { ' ' });
                }
                s
            }
            "comment" => {
                let mut s = String::from("//");
                let body = " [\"{(\\ ";
                while s.len() + 1 < need {
                    let room = need - 1 - s.len();
                    s.push_str(&body[..room.min(body.len())]);
                }
                s.push('\n');
                s
            }
            _ => {
                let line = "// ] \" }\n";
                let mut s = String::new();
                while s.len() + line.len() <= need {
                    s.push_str(line);
                }
                while s.len() < need {
                    s.push(' ');
                }
                s
            }
        };
        out = out.replacen(marker, &fill, 1);
        if out.len() != total {
            return Err(format!("padding produced {} bytes, wanted {total}", out.len()));
        }
    }
    Ok(out)
}

// ---------------------------------------------------------------------------------------------------------------
// observing the parsers

#[derive(Clone, Debug)]
enum Obs {
    Ok(Box<Command>),
    Err(KipErrorCode, String),
    Panic(String),
}
impl Obs {
    fn class(&self) -> &'static str {
        match self {
            Obs::Ok(c) => match **c {
                Command::Kql(_) => "kql",
                Command::Kml(_) => "kml",
                Command::Meta(_) => "meta",
            },
            Obs::Err(KipErrorCode::ResourceExhausted, _) => "refused",
            Obs::Err(..) => "err",
            Obs::Panic(_) => "panic",
        }
    }
    fn same(&self, other: &Obs) -> bool {
        match (self, other) {
            (Obs::Ok(a), Obs::Ok(b)) => a == b,
            (Obs::Err(c1, m1), Obs::Err(c2, m2)) => c1 == c2 && m1 == m2,
            _ => false,
        }
    }
    fn brief(&self) -> String {
        match self {
            Obs::Ok(_) => format!("Ok({})", self.class()),
            Obs::Err(c, m) => format!("Err({}: {})", c.name(), m.chars().take(140).collect::<String>()),
            Obs::Panic(m) => format!("PANIC({})", m.chars().take(200).collect::<String>()),
        }
    }
}

fn panic_text(p: Box<dyn std::any::Any + Send>) -> String {
    if let Some(s) = p.downcast_ref::<&str>() {
        s.to_string()
    } else if let Some(s) = p.downcast_ref::<String>() {
        s.clone()
    } else {
        "non-string panic payload".into()
    }
}

fn guard<T>(f: impl FnOnce() -> Result<T, KipError>, wrap: impl FnOnce(T) -> Command) -> Obs {
    match std::panic::catch_unwind(std::panic::AssertUnwindSafe(f)) {
        Ok(Ok(v)) => Obs::Ok(Box::new(wrap(v))),
        Ok(Err(e)) => Obs::Err(e.code, e.message),
        Err(p) => Obs::Panic(panic_text(p)),
    }
}

struct Four {
    kip: Obs,
    kql: Obs,
    kml: Obs,
    meta: Obs,
}
fn four(text: &str) -> Four {
    Four {
        kip: guard(|| parse_kip(text), |c| c),
        kql: guard(|| parse_kql(text), Command::Kql),
        kml: guard(|| parse_kml(text), Command::Kml),
        meta: guard(|| parse_meta(text), Command::Meta),
    }
}
fn json_class(text: &str) -> &'static str {
    match std::panic::catch_unwind(|| parse_json(text)) {
        Ok(Ok(_)) => "ok",
        Ok(Err(e)) if e.code == KipErrorCode::ResourceExhausted => "refused",
        Ok(Err(_)) => "err",
        Err(_) => "panic",
    }
}

/// KipGrammar.tla `Agree`, applied to observed classes.
fn agree(f: &Four) -> Option<String> {
    let (kip, kql, kml, meta) = (f.kip.class(), f.kql.class(), f.kml.class(), f.meta.class());
    let bad = |why: &str| Some(format!("{why}: parse_kip={kip} parse_kql={kql} parse_kml={kml} parse_meta={meta}"));
    if [kip, kql, kml, meta].contains(&"panic") {
        return bad("panic");
    }
    let r = kip == "refused";
    if (kql == "refused") != r || (kml == "refused") != r || (meta == "refused") != r {
        return bad("the resource refusal is not common to all entry points");
    }
    if (kip == "kql") != (kql == "kql") || (kip == "kml") != (kml == "kml") || (kip == "meta") != (meta == "meta") {
        return bad("the general entry point disagrees with a specific one");
    }
    if let (Obs::Ok(a), Some(b)) = (
        &f.kip,
        match kip {
            "kql" => Some(&f.kql),
            "kml" => Some(&f.kml),
            "meta" => Some(&f.meta),
            _ => None,
        },
    ) {
        if let Obs::Ok(b) = b {
            if a != b {
                return bad("the general and the specific entry point return different trees");
            }
        }
    }
    None
}

/// Re-validation and serde round trip of an accepted tree.  Returns (mismatch kind, detail).
fn accepted_checks(c: &Command) -> Vec<(&'static str, String)> {
    let mut out = Vec::new();
    match std::panic::catch_unwind(|| validate_command(c)) {
        Ok(Ok(())) => {}
        Ok(Err(e)) => out.push(("revalidate", format!("validate_command refuses the parser's own output: {}: {}", e.code.name(), e.message))),
        Err(p) => out.push(("panic", format!("validate_command panicked: {}", panic_text(p)))),
    }
    match std::panic::catch_unwind(|| serde_json::to_string(c)) {
        Ok(Ok(js)) => match std::panic::catch_unwind(|| serde_json::from_str::<Command>(&js)) {
            Ok(Ok(back)) => {
                if &back != c {
                    out.push(("roundtrip", format!("decode(encode(tree)) differs from tree; json = {}", js.chars().take(400).collect::<String>())));
                }
            }
            Ok(Err(e)) => {
                let msg = e.to_string();
                let kind = if msg.contains("recursion limit") { "roundtrip_recursion_limit" } else { "roundtrip" };
                out.push((kind, format!("the encoded tree does not decode: {msg} (json {} bytes)", js.len())));
            }
            Err(p) => out.push(("panic", format!("serde decode panicked: {}", panic_text(p)))),
        },
        Ok(Err(e)) => out.push(("roundtrip", format!("the tree does not encode: {e}"))),
        Err(p) => out.push(("panic", format!("serde encode panicked: {}", panic_text(p)))),
    }
    out
}

include!("drive_kip_checks.rs");
