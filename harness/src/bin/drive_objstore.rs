//! C07 replay driver (direction R): executes every call sequence enumerated by TLC from
//! spec/MC_ObjStore.tla on object_store::memory::InMemory (validates the specification itself),
//! MetaStore(InMemory) and EncryptedStore(InMemory) - warm and cold metadata cache, several chunk
//! sizes - and compares every result with the specification's, tokens by commit identity.
//!
//! usage: drive_objstore seq    <cases.ndjson> <out.json>
//!        drive_objstore ext    <cases.ndjson> <out.json>   (spec/MC_ObjStoreExt.tla)
//!        drive_objstore ranges <out.json>

use anda_object_store::{EncryptedStoreBuilder, MetaStoreBuilder};
use bytes::Bytes;
use futures::TryStreamExt;
use object_store::{memory::InMemory, path::Path, *};
use serde_json::{Value, json};
use std::{
    collections::BTreeMap,
    io::{BufRead, BufReader},
    sync::Arc,
};

fn payload_of(v: u64) -> Vec<u8> {
    // value 1: 10 bytes, value 2: 21 bytes (crosses chunk boundaries for chunk sizes 1, 7, 16)
    match v {
        1 => b"AAAAAAAAAA".to_vec(),
        2 => b"BBBBBBBBBBBBBBBBBBBBB".to_vec(),
        _ => vec![b'C'; (v as usize) * 3],
    }
}
fn val_of(b: &[u8]) -> u64 {
    for v in 1..=3 {
        if payload_of(v) == b {
            return v;
        }
    }
    0
}

#[derive(Clone)]
enum Kind {
    Mem,
    Meta { cold: bool },
    Enc { cold: bool, chunk: u64 },
}

impl Kind {
    fn name(&self) -> String {
        match self {
            Kind::Mem => "InMemory".into(),
            Kind::Meta { cold } => format!("MetaStore(cold={cold})"),
            Kind::Enc { cold, chunk } => format!("EncryptedStore(cold={cold},chunk={chunk})"),
        }
    }
    fn build(&self, inner: Arc<dyn ObjectStore>) -> Arc<dyn ObjectStore> {
        match self {
            Kind::Mem => inner,
            Kind::Meta { .. } => Arc::new(MetaStoreBuilder::new(inner, 1000).build()),
            Kind::Enc { chunk, .. } => Arc::new(
                EncryptedStoreBuilder::with_secret(inner, 1000, [7u8; 32])
                    .with_chunk_size(*chunk)
                    .build(),
            ),
        }
    }
    fn cold(&self) -> bool {
        matches!(self, Kind::Meta { cold: true } | Kind::Enc { cold: true, .. })
    }
}

fn class(e: &Error) -> &'static str {
    match e {
        Error::NotFound { .. } => "notfound",
        Error::AlreadyExists { .. } => "exists",
        Error::Precondition { .. } => "precondition",
        Error::NotModified { .. } => "notmodified",
        _ => "error",
    }
}

struct Run {
    store: Arc<dyn ObjectStore>,
    inner: Arc<dyn ObjectStore>,
    kind: Kind,
    /// spec token number -> actual token string
    toks: BTreeMap<u64, String>,
    /// current / replaced token numbers per key, mirroring ObjStore.tla's Resolve
    cur: BTreeMap<String, u64>,
    stale: BTreeMap<String, u64>,
}

impl Run {
    fn new(kind: Kind) -> Run {
        Self::over(kind, Arc::new(InMemory::new()))
    }
    fn over(kind: Kind, inner: Arc<dyn ObjectStore>) -> Run {
        Run {
            store: kind.build(inner.clone()),
            inner,
            kind,
            toks: BTreeMap::new(),
            cur: BTreeMap::new(),
            stale: BTreeMap::new(),
        }
    }
    /// Token references as in ObjStore.tla: -1 current, -2 stale, -3 other key's, -4 never issued,
    /// positive = explicit commit number.
    fn tok_string(&self, reference: i64, key: &str, keys: &[String]) -> Option<String> {
        let n = match reference {
            -1 => self.cur.get(key).copied().unwrap_or(0),
            -2 => self.stale.get(key).copied().unwrap_or(0),
            -3 => {
                let o = keys.iter().find(|k| k.as_str() != key).unwrap();
                self.cur.get(o).copied().unwrap_or(0)
            }
            -4 => return Some("bogus-token-never-issued".into()),
            n if n > 0 => n as u64,
            _ => 0,
        };
        self.toks.get(&n).cloned()
    }
    fn number_of(&self, tok: &Option<String>) -> i64 {
        match tok {
            None => -1,
            Some(t) => self
                .toks
                .iter()
                .find(|(_, s)| *s == t)
                .map(|(n, _)| *n as i64)
                .unwrap_or(-2),
        }
    }
    fn committed(&mut self, key: &str, n: u64, tok: Option<String>) -> Option<String> {
        // TokenFresh: a new commit must carry a token string never seen before
        let mut problem = None;
        match tok {
            Some(t) => {
                if let Some((old, _)) = self.toks.iter().find(|(_, s)| **s == t) {
                    problem = Some(format!("token of commit {n} repeats the token of commit {old}"));
                }
                self.toks.insert(n, t);
            }
            None => problem = Some(format!("commit {n} reports no token")),
        }
        if let Some(c) = self.cur.get(key).copied()
            && c != 0
        {
            self.stale.insert(key.to_string(), c);
        }
        self.cur.insert(key.to_string(), n);
        problem
    }
    fn removed(&mut self, key: &str) {
        if let Some(c) = self.cur.get(key).copied()
            && c != 0
        {
            self.stale.insert(key.to_string(), c);
        }
        self.cur.insert(key.to_string(), 0);
    }
}

/// Executes one call; returns the list of differences with the expected result.
async fn exec(run: &mut Run, call: &Value, exp: &Value, keys: &[String]) -> Vec<String> {
    if run.kind.cold() {
        // a fresh wrapper instance over the same backend: cold metadata cache
        run.store = run.kind.build(run.inner.clone());
    }
    let c = call.as_array().unwrap();
    let op = c[0].as_str().unwrap();
    let mut diffs = Vec::new();
    let exp_r = exp["r"].as_str().unwrap();
    let exp_tok = exp["tok"].as_u64().unwrap();
    match op {
        "put" => {
            let key = c[1].as_str().unwrap();
            let mode = match c[3].as_str().unwrap() {
                "create" => PutMode::Create,
                "overwrite" => PutMode::Overwrite,
                _ => {
                    let t = run.tok_string(c[4].as_i64().unwrap(), key, keys);
                    PutMode::Update(UpdateVersion {
                        e_tag: t,
                        version: None,
                    })
                }
            };
            let r = run
                .store
                .put_opts(
                    &Path::from(key),
                    Bytes::from(payload_of(c[2].as_u64().unwrap())).into(),
                    PutOptions {
                        mode,
                        ..Default::default()
                    },
                )
                .await;
            match r {
                Ok(pr) => {
                    if exp_r != "ok" {
                        diffs.push(format!("put: expected {exp_r}, observed ok"));
                    }
                    // one view per commit: the token returned by put is the one head reports
                    let h = run.store.head(&Path::from(key)).await.ok().and_then(|m| m.e_tag);
                    if h != pr.e_tag {
                        diffs.push(format!("put returned token {:?} but head reports {:?}", pr.e_tag, h));
                    }
                    if exp_r == "ok"
                        && let Some(p) = run.committed(key, exp_tok, pr.e_tag)
                    {
                        diffs.push(p);
                    }
                }
                Err(e) => {
                    if class(&e) != exp_r {
                        diffs.push(format!("put: expected {exp_r}, observed {} ({e})", class(&e)));
                    }
                }
            }
        }
        "get" | "head" => {
            let key = c[1].as_str().unwrap();
            let cond = c[2].as_str().unwrap();
            let mut opts = GetOptions::default();
            let t = run.tok_string(c[3].as_i64().unwrap(), key, keys);
            match cond {
                "if_match" => opts.if_match = t,
                "if_none_match" => opts.if_none_match = t,
                "if_match_star" => opts.if_match = Some("*".into()),
                "if_none_match_star" => opts.if_none_match = Some("*".into()),
                _ => {}
            }
            opts.head = op == "head";
            match run.store.get_opts(&Path::from(key), opts).await {
                Ok(res) => {
                    let meta = res.meta.clone();
                    if exp_r != "ok" {
                        diffs.push(format!("{op}({cond}): expected {exp_r}, observed ok"));
                    } else {
                        let n = run.number_of(&meta.e_tag);
                        if n != exp_tok as i64 {
                            diffs.push(format!("{op}: token of commit {exp_tok} expected, observed commit {n}"));
                        }
                        let want = payload_of(exp["val"].as_u64().unwrap());
                        if meta.size != want.len() as u64 {
                            diffs.push(format!("{op}: size {} expected, observed {}", want.len(), meta.size));
                        }
                        if op == "get" {
                            match res.bytes().await {
                                Ok(b) => {
                                    if val_of(&b) != exp["val"].as_u64().unwrap() {
                                        diffs.push(format!("get: value {} expected, observed {} bytes (value {})", exp["val"], b.len(), val_of(&b)));
                                    }
                                }
                                Err(e) => diffs.push(format!("get: body failed: {e}")),
                            }
                        }
                    }
                }
                Err(e) => {
                    if class(&e) != exp_r {
                        diffs.push(format!("{op}({cond}): expected {exp_r}, observed {} ({e})", class(&e)));
                    }
                }
            }
        }
        "delete" => {
            let key = c[1].as_str().unwrap();
            let r = run.store.delete(&Path::from(key)).await;
            let got = match &r {
                Ok(()) => "ok",
                Err(e) => class(e),
            };
            // the reference store answers Ok for a missing key; the wrappers may say NotFound
            let fine = match exp_r {
                "ok" => got == "ok",
                _ => got == "ok" || got == "notfound",
            };
            if !fine {
                diffs.push(format!("delete: expected {exp_r}, observed {got}"));
            }
            run.removed(key);
        }
        "copy" | "rename" => {
            let (a, b) = (c[1].as_str().unwrap(), c[2].as_str().unwrap());
            let create = c[3].as_str().unwrap() == "create";
            let r = if op == "copy" {
                run.store
                    .copy_opts(
                        &Path::from(a),
                        &Path::from(b),
                        CopyOptions {
                            mode: if create { CopyMode::Create } else { CopyMode::Overwrite },
                            ..Default::default()
                        },
                    )
                    .await
            } else {
                run.store
                    .rename_opts(
                        &Path::from(a),
                        &Path::from(b),
                        RenameOptions {
                            target_mode: if create { RenameTargetMode::Create } else { RenameTargetMode::Overwrite },
                            ..Default::default()
                        },
                    )
                    .await
            };
            match r {
                Ok(()) => {
                    if exp_r != "ok" {
                        diffs.push(format!("{op}: expected {exp_r}, observed ok"));
                    } else if exp_tok != 0 {
                        let h = run.store.head(&Path::from(b)).await.ok().and_then(|m| m.e_tag);
                        if let Some(p) = run.committed(b, exp_tok, h) {
                            diffs.push(format!("{op}: {p}"));
                        }
                        if op == "rename" {
                            run.removed(a);
                        }
                    }
                }
                Err(e) => {
                    if class(&e) != exp_r {
                        diffs.push(format!("{op}: expected {exp_r}, observed {} ({e})", class(&e)));
                    }
                }
            }
        }
        "mput" => {
            let key = c[1].as_str().unwrap();
            let data = payload_of(c[2].as_u64().unwrap());
            let r = async {
                let mut up = run.store.put_multipart(&Path::from(key)).await?;
                let (a, b) = data.split_at(data.len() / 2);
                up.put_part(Bytes::from(a.to_vec()).into()).await?;
                up.put_part(Bytes::from(b.to_vec()).into()).await?;
                up.complete().await
            }
            .await;
            match r {
                Ok(pr) => {
                    let h = run.store.head(&Path::from(key)).await.ok().and_then(|m| m.e_tag);
                    if h != pr.e_tag {
                        diffs.push(format!("multipart returned token {:?} but head reports {:?}", pr.e_tag, h));
                    }
                    if let Some(p) = run.committed(key, exp_tok, pr.e_tag) {
                        diffs.push(p);
                    }
                }
                Err(e) => diffs.push(format!("multipart: expected ok, observed {} ({e})", class(&e))),
            }
        }
        "mabort" => {
            let key = c[1].as_str().unwrap();
            let r = async {
                let mut up = run.store.put_multipart(&Path::from(key)).await?;
                up.put_part(Bytes::from(payload_of(1)).into()).await?;
                up.abort().await
            }
            .await;
            if let Err(e) = r {
                diffs.push(format!("multipart abort: expected ok, observed {} ({e})", class(&e)));
            }
        }
        other => panic!("op {other}"),
    }
    diffs
}

fn prefix_of(v: &Value) -> Option<Path> {
    let parts: Vec<&str> = v.as_array().unwrap().iter().map(|x| x.as_str().unwrap()).collect();
    if parts.is_empty() { None } else { Some(Path::from(parts.join("/"))) }
}

fn entries_of(run: &Run, metas: &[ObjectMeta]) -> Vec<(String, u64, i64)> {
    let mut got: Vec<(String, u64, i64)> =
        metas.iter().map(|m| (m.location.to_string(), m.size, run.number_of(&m.e_tag))).collect();
    got.sort();
    got
}

fn expected_entries(items: &Value) -> Vec<(String, u64, i64)> {
    let mut want: Vec<(String, u64, i64)> = items
        .as_array()
        .unwrap()
        .iter()
        .map(|x| (x[0].as_str().unwrap().to_string(), payload_of(x[1].as_u64().unwrap()).len() as u64, x[2].as_i64().unwrap()))
        .collect();
    want.sort();
    want
}

/// One observation of ObjStoreExt.tla (conditional get / head, list variants); returns the differences.
async fn exec_obs(run: &mut Run, call: &Value, exp: &Value, keys: &[String]) -> Vec<String> {
    if run.kind.cold() {
        run.store = run.kind.build(run.inner.clone());
    }
    let c = call.as_array().unwrap();
    let op = c[0].as_str().unwrap();
    let mut diffs = Vec::new();
    match op {
        "cond" => {
            let head = c[1].as_str().unwrap() == "head";
            let key = c[2].as_str().unwrap();
            let cond = &c[3];
            let tags = |v: &Value| -> Option<String> {
                let refs: Vec<i64> = v.as_array().unwrap().iter().map(|x| x.as_i64().unwrap()).collect();
                if refs.is_empty() {
                    None
                } else if refs == [-5] {
                    Some("*".into())
                } else {
                    Some(
                        refs.iter()
                            .map(|r| run.tok_string(*r, key, keys).unwrap_or_else(|| format!("no-such-token{r}")))
                            .collect::<Vec<_>>()
                            .join(", "),
                    )
                }
            };
            // dates are relative to the timestamp the store itself reports for the current commit
            let lm = match run.store.head(&Path::from(key)).await {
                Ok(m) => m.last_modified,
                Err(_) => chrono::Utc::now(),
            };
            let date = |v: &Value| match v.as_str().unwrap() {
                "before" => Some(lm - chrono::Duration::seconds(1)),
                "at" => Some(lm),
                "after" => Some(lm + chrono::Duration::seconds(1)),
                _ => None,
            };
            let opts = GetOptions {
                if_match: tags(&cond["im"]),
                if_none_match: tags(&cond["inm"]),
                if_unmodified_since: date(&cond["ius"]),
                if_modified_since: date(&cond["ims"]),
                head,
                ..Default::default()
            };
            let exp_r = exp["r"].as_str().unwrap();
            let what = format!("{}({key}, {cond})", if head { "head" } else { "get" });
            match run.store.get_opts(&Path::from(key), opts).await {
                Ok(res) => {
                    if exp_r != "ok" {
                        diffs.push(format!("{what}: expected {exp_r}, observed ok"));
                    } else {
                        let n = run.number_of(&res.meta.e_tag);
                        if n != exp["tok"].as_i64().unwrap() {
                            diffs.push(format!("{what}: token of commit {} expected, observed commit {n}", exp["tok"]));
                        }
                        if res.meta.last_modified != lm {
                            diffs.push(format!("{what}: timestamp {} differs from head's {lm}", res.meta.last_modified));
                        }
                        let want = payload_of(exp["val"].as_u64().unwrap());
                        if res.meta.size != want.len() as u64 {
                            diffs.push(format!("{what}: size {} expected, observed {}", want.len(), res.meta.size));
                        }
                        if !head {
                            match res.bytes().await {
                                Ok(b) if b[..] == want[..] => {}
                                Ok(b) => diffs.push(format!("{what}: value {} expected, observed {} bytes", exp["val"], b.len())),
                                Err(e) => diffs.push(format!("{what}: body failed: {e}")),
                            }
                        }
                    }
                }
                Err(e) => {
                    if class(&e) != exp_r {
                        diffs.push(format!("{what}: expected {exp_r}, observed {} ({e})", class(&e)));
                    }
                }
            }
        }
        "list" | "list_offset" => {
            let prefix = prefix_of(&c[1]);
            let r: Result<Vec<ObjectMeta>> = if op == "list" {
                run.store.list(prefix.as_ref()).try_collect().await
            } else {
                run.store.list_with_offset(prefix.as_ref(), &Path::from(c[2].as_str().unwrap())).try_collect().await
            };
            match r {
                Ok(metas) => {
                    let (got, want) = (entries_of(run, &metas), expected_entries(&exp["items"]));
                    if got != want {
                        diffs.push(format!("{call}: expected {want:?} observed {got:?} (key, size, commit)"));
                    }
                    // one view per commit: the listing reports what head reports
                    for m in &metas {
                        match run.store.head(&m.location).await {
                            Ok(h) => {
                                if h.last_modified != m.last_modified || h.e_tag != m.e_tag || h.size != m.size {
                                    diffs.push(format!(
                                        "{call}: entry {} lists ({}, {:?}, {}) but head reports ({}, {:?}, {})",
                                        m.location, m.size, m.e_tag, m.last_modified, h.size, h.e_tag, h.last_modified
                                    ));
                                }
                            }
                            Err(e) => diffs.push(format!("{call}: listed key {} cannot be read: {e}", m.location)),
                        }
                    }
                }
                Err(e) => diffs.push(format!("{call}: failed: {e}")),
            }
        }
        "list_delim" => {
            let prefix = prefix_of(&c[1]);
            match run.store.list_with_delimiter(prefix.as_ref()).await {
                Ok(lr) => {
                    let (got, want) = (entries_of(run, &lr.objects), expected_entries(&exp["items"]));
                    if got != want {
                        diffs.push(format!("{call}: objects expected {want:?} observed {got:?}"));
                    }
                    let mut gp: Vec<String> = lr.common_prefixes.iter().map(|p| p.to_string()).collect();
                    gp.sort();
                    let mut wp: Vec<String> = exp["prefixes"]
                        .as_array()
                        .unwrap()
                        .iter()
                        .map(|p| p.as_array().unwrap().iter().map(|x| x.as_str().unwrap()).collect::<Vec<_>>().join("/"))
                        .collect();
                    wp.sort();
                    if gp != wp {
                        diffs.push(format!("{call}: common prefixes expected {wp:?} observed {gp:?}"));
                    }
                }
                Err(e) => diffs.push(format!("{call}: failed: {e}")),
            }
        }
        other => panic!("observation {other}"),
    }
    diffs
}

/// Family "ext": a state-building prefix, then the whole battery of observations in that state.
async fn run_ext(path: &str, kinds: &[Kind]) -> Value {
    let f = BufReader::new(std::fs::File::open(path).unwrap());
    let keys: Vec<String> = ["a", "a/b", "a/b/c", "ab"].iter().map(|s| s.to_string()).collect();
    let (mut cases, mut calls, mut nontrivial, mut n_dis) = (0u64, 0u64, 0u64, 0u64);
    let mut disagreements: Vec<Value> = Vec::new();
    let mut per_store: BTreeMap<String, u64> = BTreeMap::new();
    let mut per_obs: BTreeMap<String, u64> = BTreeMap::new();
    let mut samples = Vec::new();
    for line in f.lines() {
        let line = line.unwrap();
        if line.is_empty() {
            continue;
        }
        let case: Value = serde_json::from_str(&line).unwrap();
        cases += 1;
        let prefix = case["prefix"].as_array().unwrap();
        let obs = case["obs"].as_array().unwrap();
        if case["listing"].as_array().unwrap().len() >= 2 {
            nontrivial += 1;
        }
        if samples.len() < 2 && cases % 97 == 11 {
            samples.push(json!({"prefix": case["prefix"], "obs_first": obs.iter().take(4).collect::<Vec<_>>(), "n_obs": obs.len()}));
        }
        for kind in kinds {
            let mut run = Run::new(kind.clone());
            let mut diffs = Vec::new();
            for (i, step) in prefix.iter().enumerate() {
                calls += 1;
                for d in exec(&mut run, &step["call"], &step["res"], &keys).await {
                    diffs.push(format!("call {}: {d}", i + 1));
                }
            }
            let mut failed: Vec<Value> = Vec::new();
            for o in obs {
                calls += 1;
                *per_obs.entry(o["call"][0].as_str().unwrap().to_string()).or_default() += 1;
                let d = exec_obs(&mut run, &o["call"], &o["res"], &keys).await;
                if !d.is_empty() && failed.len() < 12 {
                    failed.push(o.clone());
                }
                diffs.extend(d);
            }
            if !diffs.is_empty() {
                n_dis += 1;
                *per_store.entry(kind.name()).or_default() += 1;
                if disagreements.len() < 100 {
                    diffs.truncate(12);
                    // the replayable case: the prefix and the observations that disagreed
                    disagreements.push(json!({"store": kind.name(), "diffs": diffs,
                        "case": {"prefix": case["prefix"], "obs": failed, "listing": case["listing"]}}));
                }
            }
        }
    }
    json!({"cases": cases, "calls": calls, "nontrivial": nontrivial, "n_disagree": n_dis, "per_store": per_store,
           "per_observation": per_obs, "disagreements": disagreements, "samples": samples,
           "stores": kinds.iter().map(|k| k.name()).collect::<Vec<_>>()})
}

async fn check_listing(run: &mut Run, exp: &Value) -> Vec<String> {
    if run.kind.cold() {
        run.store = run.kind.build(run.inner.clone());
    }
    let mut diffs = Vec::new();
    let mut got: Vec<(String, u64, i64)> = Vec::new();
    let listed: Vec<ObjectMeta> = match run.store.list(None).try_collect().await {
        Ok(v) => v,
        Err(e) => return vec![format!("list failed: {e}")],
    };
    for m in listed {
        got.push((m.location.to_string(), m.size, run.number_of(&m.e_tag)));
    }
    got.sort();
    let mut want: Vec<(String, u64, i64)> = exp
        .as_array()
        .unwrap()
        .iter()
        .map(|x| {
            (
                x[0].as_str().unwrap().to_string(),
                payload_of(x[1].as_u64().unwrap()).len() as u64,
                x[2].as_i64().unwrap(),
            )
        })
        .collect();
    want.sort();
    if got != want {
        diffs.push(format!("list: expected {want:?} observed {got:?} (key, size, commit)"));
    }
    // list_with_delimiter at the root: objects + common prefixes
    match run.store.list_with_delimiter(None).await {
        Ok(lr) => {
            let objs: Vec<String> = lr.objects.iter().map(|m| m.location.to_string()).collect();
            let want_objs: Vec<String> = want.iter().filter(|w| !w.0.contains('/')).map(|w| w.0.clone()).collect();
            let mut o = objs.clone();
            o.sort();
            if o != want_objs {
                diffs.push(format!("list_with_delimiter objects: expected {want_objs:?} observed {objs:?}"));
            }
            let want_pref: Vec<String> = {
                let mut p: Vec<String> = want.iter().filter_map(|w| w.0.split_once('/').map(|x| x.0.to_string())).collect();
                p.dedup();
                p
            };
            let mut gp: Vec<String> = lr.common_prefixes.iter().map(|p| p.to_string()).collect();
            gp.sort();
            if gp != want_pref {
                diffs.push(format!("list_with_delimiter prefixes: expected {want_pref:?} observed {gp:?}"));
            }
        }
        Err(e) => diffs.push(format!("list_with_delimiter failed: {e}")),
    }
    diffs
}

async fn run_seq(path: &str, kinds: &[Kind]) -> Value {
    let f = BufReader::new(std::fs::File::open(path).unwrap());
    let keys = vec!["a".to_string(), "a/b".to_string()];
    let mut cases = 0u64;
    let mut calls = 0u64;
    let mut nontrivial = 0u64;
    let mut n_dis = 0u64;
    let mut disagreements: Vec<Value> = Vec::new();
    let mut per_store: BTreeMap<String, u64> = BTreeMap::new();
    let mut samples = Vec::new();
    let mut mem_skipped = 0u64;
    for line in f.lines() {
        let line = line.unwrap();
        if line.is_empty() {
            continue;
        }
        let case: Value = serde_json::from_str(&line).unwrap();
        cases += 1;
        let seq = case["calls"].as_array().unwrap();
        if seq.iter().filter(|s| s["res"]["r"] == "ok").count() >= 2 {
            nontrivial += 1;
        }
        if samples.len() < 3 && cases % 9973 == 11 {
            samples.push(case.clone());
        }
        for kind in kinds {
            // object_store's own rename is copy + delete, which DESTROYS the object when source and
            // target coincide; the wrappers deliberately leave it untouched (as ObjStore.tla does).
            // The reference is not replayed on those sequences.
            if matches!(kind, Kind::Mem)
                && seq.iter().any(|s| s["call"][0] == "rename" && s["call"][1] == s["call"][2])
            {
                mem_skipped += 1;
                continue;
            }
            let mut run = Run::new(kind.clone());
            let mut diffs = Vec::new();
            for (i, step) in seq.iter().enumerate() {
                calls += 1;
                for d in exec(&mut run, &step["call"], &step["res"], &keys).await {
                    diffs.push(format!("call {}: {d}", i + 1));
                }
            }
            for d in check_listing(&mut run, &case["listing"]).await {
                diffs.push(d);
            }
            if !diffs.is_empty() {
                n_dis += 1;
                *per_store.entry(kind.name()).or_default() += 1;
                if disagreements.len() < 300 {
                    disagreements.push(json!({"store": kind.name(), "case": case, "diffs": diffs}));
                }
            }
        }
    }
    json!({"cases": cases, "calls": calls, "nontrivial": nontrivial, "n_disagree": n_dis,
           "per_store": per_store, "disagreements": disagreements, "samples": samples,
           "reference_skipped_self_rename": mem_skipped,
           "stores": kinds.iter().map(|k| k.name()).collect::<Vec<_>>()})
}

/// Range arithmetic at chunk boundaries: every (size, range) with sizes around multiples of the
/// chunk size, bounded / offset / suffix ranges and multi-range reads, on both wrappers.
async fn run_ranges() -> Value {
    let mut evals = 0u64;
    let mut n_dis = 0u64;
    let mut disagreements = Vec::new();
    for chunk in [1u64, 4, 7, 16] {
        let sizes: Vec<u64> = vec![0, 1, chunk - 1, chunk, chunk + 1, 2 * chunk, 2 * chunk + 1, 3 * chunk];
        for kind in [Kind::Mem, Kind::Meta { cold: false }, Kind::Enc { cold: false, chunk }] {
            let run = Run::new(kind.clone());
            for &size in &sizes {
                let data: Vec<u8> = (0..size).map(|i| (i % 251) as u8).collect();
                let p = Path::from(format!("r/{size}"));
                run.store.put(&p, Bytes::from(data.clone()).into()).await.unwrap();
                let mut ranges: Vec<GetRange> = Vec::new();
                for s in 0..=size + 1 {
                    for e in s..=size + 2 {
                        ranges.push(GetRange::Bounded(s..e));
                    }
                    ranges.push(GetRange::Offset(s));
                    ranges.push(GetRange::Suffix(s));
                }
                for r in ranges {
                    evals += 1;
                    // expectation: the reference semantics of object_store's GetRange over `data`
                    let expect: Result<Vec<u8>, ()> = match &r {
                        GetRange::Bounded(b) => {
                            if b.start >= size || b.start >= b.end {
                                Err(())
                            } else {
                                Ok(data[b.start as usize..(b.end.min(size)) as usize].to_vec())
                            }
                        }
                        GetRange::Offset(o) => {
                            if *o >= size { Err(()) } else { Ok(data[*o as usize..].to_vec()) }
                        }
                        GetRange::Suffix(n) => {
                            Ok(data[(size.saturating_sub(*n)) as usize..].to_vec())
                        }
                    };
                    let got = run
                        .store
                        .get_opts(&p, GetOptions { range: Some(r.clone()), ..Default::default() })
                        .await;
                    let got_bytes = match got {
                        Ok(res) => res.bytes().await.map(|b| b.to_vec()).map_err(|_| ()),
                        Err(_) => Err(()),
                    };
                    if got_bytes != expect {
                        n_dis += 1;
                        if disagreements.len() < 100 {
                            disagreements.push(json!({"store": kind.name(), "size": size, "range": format!("{r:?}"),
                                "expected": format!("{:?}", expect.as_ref().map(|v| v.len())),
                                "observed": format!("{:?}", got_bytes.as_ref().map(|v| v.len()))}));
                        }
                    }
                }
                // multi-range read
                if size >= 2 {
                    let rs = vec![0..1, (size - 1)..size, 0..size, (size / 2)..size];
                    evals += 1;
                    match run.store.get_ranges(&p, &rs).await {
                        Ok(parts) => {
                            for (r, b) in rs.iter().zip(parts.iter()) {
                                if b.as_ref() != &data[r.start as usize..r.end as usize] {
                                    n_dis += 1;
                                    disagreements.push(json!({"store": kind.name(), "size": size, "range": format!("get_ranges {r:?}")}));
                                }
                            }
                        }
                        Err(e) => {
                            n_dis += 1;
                            disagreements.push(json!({"store": kind.name(), "size": size, "range": format!("get_ranges failed {e}")}));
                        }
                    }
                }
            }
        }
    }
    json!({"evaluations": evals, "n_disagree": n_dis, "disagreements": disagreements})
}

/// Projection of a result used to compare a concurrent execution with the sequential orders.
fn proj(r: &Value) -> (String, u64) {
    let cls = r["r"].as_str().unwrap_or("?");
    // delete of a missing key: Ok and NotFound are both accepted (see exec)
    let cls = if cls == "absent" { "ok" } else { cls };
    (cls.to_string(), r["val"].as_u64().unwrap_or(0))
}

/// Executes one call of a concurrent pair and returns its result record {r, val}.
async fn exec_conc(store: Arc<dyn ObjectStore>, call: Value, toks: BTreeMap<String, String>) -> Value {
    let c = call.as_array().unwrap();
    let op = c[0].as_str().unwrap();
    let cur_tok = |k: &str| toks.get(k).cloned();
    let out = |r: std::result::Result<u64, Error>| match r {
        Ok(v) => json!({"r": "ok", "val": v}),
        Err(e) => json!({"r": if matches!(e, Error::NotFound { .. }) && op == "delete" { "ok" } else { class(&e) }, "val": 0}),
    };
    match op {
        "put" => {
            let key = c[1].as_str().unwrap();
            let mode = match c[3].as_str().unwrap() {
                "create" => PutMode::Create,
                "overwrite" => PutMode::Overwrite,
                _ => PutMode::Update(UpdateVersion { e_tag: cur_tok(key), version: None }),
            };
            out(store
                .put_opts(&Path::from(key), Bytes::from(payload_of(c[2].as_u64().unwrap())).into(), PutOptions { mode, ..Default::default() })
                .await
                .map(|_| 0))
        }
        "get" | "head" => {
            let key = c[1].as_str().unwrap();
            let mut opts = GetOptions::default();
            match c[2].as_str().unwrap() {
                "if_match" => opts.if_match = cur_tok(key),
                "if_none_match" => opts.if_none_match = cur_tok(key),
                _ => {}
            }
            opts.head = op == "head";
            match store.get_opts(&Path::from(key), opts).await {
                Ok(res) => {
                    let size = res.meta.size;
                    if op == "head" {
                        // a head reports the size of the commit it resolved
                        json!({"r": "ok", "val": (1..=3).find(|v| payload_of(*v).len() as u64 == size).unwrap_or(0)})
                    } else {
                        match res.bytes().await {
                            Ok(b) => json!({"r": "ok", "val": val_of(&b), "size_ok": b.len() as u64 == size}),
                            Err(e) => json!({"r": "error", "val": 0, "detail": e.to_string()}),
                        }
                    }
                }
                Err(e) => json!({"r": class(&e), "val": 0}),
            }
        }
        "delete" => out(store.delete(&Path::from(c[1].as_str().unwrap())).await.map(|_| 0)),
        "mput" => {
            let data = payload_of(c[2].as_u64().unwrap());
            out(async {
                let mut up = store.put_multipart(&Path::from(c[1].as_str().unwrap())).await?;
                let (a, b) = data.split_at(data.len() / 2);
                up.put_part(Bytes::from(a.to_vec()).into()).await?;
                up.put_part(Bytes::from(b.to_vec()).into()).await?;
                up.complete().await.map(|_| 0)
            }
            .await)
        }
        "copy" => out(store
            .copy_opts(&Path::from(c[1].as_str().unwrap()), &Path::from(c[2].as_str().unwrap()), CopyOptions { mode: CopyMode::Overwrite, ..Default::default() })
            .await
            .map(|_| 0)),
        "rename" => out(store
            .rename_opts(&Path::from(c[1].as_str().unwrap()), &Path::from(c[2].as_str().unwrap()), RenameOptions { target_mode: RenameTargetMode::Overwrite, ..Default::default() })
            .await
            .map(|_| 0)),
        other => panic!("op {other}"),
    }
}

/// Concurrent pairs: every interleaving of the inner-store calls of two logical calls; the pair of
/// results and the final listing must be those of one of the two sequential orders.
async fn run_conc(path: &str, kinds: &[Kind], cap: usize) -> Value {
    use verif_harness::{sched::*, tracestore::{PROC, TraceStore}};
    let f = BufReader::new(std::fs::File::open(path).unwrap());
    let keys = vec!["a".to_string(), "a/b".to_string()];
    let (mut cases, mut schedules, mut n_dis, mut nontrivial) = (0u64, 0u64, 0u64, 0u64);
    let mut disagreements: Vec<Value> = Vec::new();
    let mut samples = Vec::new();
    for line in f.lines() {
        let line = line.unwrap();
        if line.is_empty() {
            continue;
        }
        let case: Value = serde_json::from_str(&line).unwrap();
        cases += 1;
        let orders = case["orders"].as_array().unwrap();
        let allowed: Vec<((String, u64), (String, u64), Vec<(String, u64)>)> = orders
            .iter()
            .map(|o| {
                let mut l: Vec<(String, u64)> = o["listing"].as_array().unwrap().iter()
                    .map(|x| (x[0].as_str().unwrap().to_string(), x[1].as_u64().unwrap())).collect();
                l.sort();
                (proj(&o["ra"]), proj(&o["rb"]), l)
            })
            .collect();
        if allowed.iter().any(|x| *x != allowed[0]) {
            nontrivial += 1;
        }
        if samples.len() < 3 && cases % 997 == 3 {
            samples.push(case.clone());
        }
        for kind in kinds {
            let mut prefix: Vec<usize> = Vec::new();
            let mut n = 0usize;
            loop {
                let (ts, handle) = TraceStore::wrap(Arc::new(InMemory::new()));
                handle.keep_payload(false);
                let mut run = Run::over(kind.clone(), ts.clone());
                for step in case["prefix"].as_array().unwrap() {
                    let _ = exec(&mut run, &step["call"], &step["res"], &keys).await;
                }
                // the tokens the concurrent calls refer to: the current ones
                let mut toks = BTreeMap::new();
                for k in &keys {
                    if let Ok(m) = run.store.head(&Path::from(k.as_str())).await
                        && let Some(t) = m.e_tag
                    {
                        toks.insert(k.clone(), t);
                    }
                }
                handle.sched_enable(true);
                let mut tasks: Vec<Task<Value>> = Vec::new();
                for (i, c) in [case["a"].clone(), case["b"].clone()].into_iter().enumerate() {
                    let fut = PROC.scope((i + 1) as u32, tokio::task::unconstrained(exec_conc(run.store.clone(), c, toks.clone())));
                    tasks.push(Task::new((i + 1) as u32, Box::pin(fut)));
                    settle(&mut tasks, |_, _| {});
                }
                let (mut counts, mut taken) = (Vec::new(), Vec::new());
                let mut step = 0;
                while !tasks.iter().all(|t| t.done()) {
                    let parked: Vec<_> = {
                        let mut seen = std::collections::BTreeSet::new();
                        handle.parked().into_iter().filter(|p| seen.insert(p.proc_)).collect()
                    };
                    if parked.is_empty() {
                        break;
                    }
                    let c = if step < prefix.len() { prefix[step].min(parked.len() - 1) } else { 0 };
                    counts.push(parked.len());
                    taken.push(c);
                    step += 1;
                    handle.release(parked[c].ticket);
                    settle(&mut tasks, |_, _| {});
                    if step > 200 {
                        break;
                    }
                }
                handle.sched_enable(false);
                schedules += 1;
                n += 1;
                let stuck = !tasks.iter().all(|t| t.done());
                let ra = tasks[0].result.clone().unwrap_or(json!({"r": "stuck", "val": 0}));
                let rb = tasks[1].result.clone().unwrap_or(json!({"r": "stuck", "val": 0}));
                drop(tasks);
                let mut listing: Vec<(String, u64)> = Vec::new();
                let mut unreadable = Vec::new();
                if let Ok(l) = run.store.list(None).try_collect::<Vec<ObjectMeta>>().await {
                    for m in l {
                        match run.store.get(&m.location).await {
                            Ok(r) => match r.bytes().await {
                                Ok(b) => listing.push((m.location.to_string(), val_of(&b))),
                                Err(_) => unreadable.push(m.location.to_string()),
                            },
                            Err(_) => unreadable.push(m.location.to_string()),
                        }
                    }
                }
                listing.sort();
                let got = (proj(&ra), proj(&rb), listing);
                if stuck || !unreadable.is_empty() || !allowed.contains(&got) {
                    n_dis += 1;
                    if disagreements.len() < 200 {
                        disagreements.push(json!({"store": kind.name(), "case": case, "schedule": taken,
                            "observed": {"ra": ra, "rb": rb, "listing": got.2, "unreadable": unreadable, "stuck": stuck}}));
                    }
                }
                match next_schedule(&taken, &counts) {
                    Some(nx) if n < cap => prefix = nx,
                    _ => break,
                }
            }
        }
    }
    json!({"cases": cases, "schedules": schedules, "nontrivial": nontrivial, "n_disagree": n_dis,
           "disagreements": disagreements, "samples": samples})
}

#[tokio::main(flavor = "current_thread")]
async fn main() {
    let args: Vec<String> = std::env::args().collect();
    match args[1].as_str() {
        "seq" => {
            let thorough = std::env::var("VERIF_TIER").map(|t| t == "thorough").unwrap_or(false);
            let mut kinds = vec![
                Kind::Mem,
                Kind::Meta { cold: false },
                Kind::Meta { cold: true },
                Kind::Enc { cold: false, chunk: 7 },
                Kind::Enc { cold: true, chunk: 16 },
            ];
            if thorough {
                kinds.push(Kind::Enc { cold: false, chunk: 1 });
                kinds.push(Kind::Enc { cold: false, chunk: 65536 });
            }
            let out = run_seq(&args[2], &kinds).await;
            println!("drive_objstore seq: cases={} calls={} disagreements={} {}", out["cases"], out["calls"], out["n_disagree"], out["per_store"]);
            std::fs::write(&args[3], out.to_string()).unwrap();
        }
        "ext" => {
            let thorough = std::env::var("VERIF_TIER").map(|t| t == "thorough").unwrap_or(false);
            let mut kinds = vec![
                Kind::Mem,
                Kind::Meta { cold: false },
                Kind::Meta { cold: true },
                Kind::Enc { cold: false, chunk: 7 },
                Kind::Enc { cold: true, chunk: 16 },
            ];
            if thorough {
                kinds.push(Kind::Enc { cold: false, chunk: 1 });
                kinds.push(Kind::Enc { cold: false, chunk: 65536 });
            }
            let out = run_ext(&args[2], &kinds).await;
            println!("drive_objstore ext: cases={} calls={} disagreements={} {}", out["cases"], out["calls"], out["n_disagree"], out["per_store"]);
            std::fs::write(&args[3], out.to_string()).unwrap();
        }
        "conc" => {
            let kinds = vec![Kind::Meta { cold: false }, Kind::Enc { cold: false, chunk: 7 }];
            let cap: usize = std::env::var("VERIF_CONC_CAP").ok().and_then(|x| x.parse().ok()).unwrap_or(60);
            let out = run_conc(&args[2], &kinds, cap).await;
            println!("drive_objstore conc: cases={} schedules={} disagreements={}", out["cases"], out["schedules"], out["n_disagree"]);
            std::fs::write(&args[3], out.to_string()).unwrap();
        }
        "ranges" => {
            let out = run_ranges().await;
            println!("drive_objstore ranges: evaluations={} disagreements={}", out["evaluations"], out["n_disagree"]);
            std::fs::write(&args[2], out.to_string()).unwrap();
        }
        other => panic!("mode {other}"),
    }
}
