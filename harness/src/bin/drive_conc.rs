//! C05 / C06 driver (direction T): systematic enumeration of the interleavings of concurrent
//! operations at storage-step granularity on a single-threaded executor.
//!
//! Every backend call parks in the TraceStore (reads park a second time after they were answered);
//! the explorer releases one parked call at a time and lets every task run until it parks again or
//! completes.  A stateless depth-first search enumerates ALL release orders (or a seeded sample).
//! One NDJSON trace per schedule for validation against spec/CollectionConcTrace.tla.
//!
//! usage: drive_conc <scenarios.json> <traces.ndjson> <stats.json>
//! scenario: {"init_idx":[..],"prefix":[ops],"procs":[op,..],"sample":N|null,"post_reads":bool,
//!            "transition": null | "ro" | "close" | "close_collection" (run as an extra process)}

use anda_db::collection::Collection;
use futures::task::{ArcWake, waker};
use object_store::memory::InMemory;
use rand::{RngExt, SeedableRng, rngs::StdRng};
use serde_json::{Value, json};
use std::{
    future::Future,
    io::Write,
    pin::Pin,
    sync::{
        Arc,
        atomic::{AtomicBool, Ordering},
    },
    task::{Context, Poll},
};
use verif_harness::{
    coll::*,
    tracestore::{PROC, TraceStore},
};

const MAX_ID: u64 = 12;

fn strs(v: &Value) -> Vec<String> {
    v.as_array()
        .map(|a| a.iter().map(|x| x.as_str().unwrap().to_string()).collect())
        .unwrap_or_default()
}

struct Flag(AtomicBool);
impl ArcWake for Flag {
    fn wake_by_ref(arc_self: &Arc<Self>) {
        arc_self.0.store(true, Ordering::SeqCst);
    }
}

struct Task {
    pid: u32,
    fut: Pin<Box<dyn Future<Output = Value>>>,
    done: bool,
    flag: Arc<Flag>,
}

/// Polls every woken task until nothing moves any more.
fn settle(tasks: &mut [Task], tr: &Tracer) {
    loop {
        let mut progress = false;
        for t in tasks.iter_mut() {
            if t.done || !t.flag.0.swap(false, Ordering::SeqCst) {
                continue;
            }
            progress = true;
            let w = waker(t.flag.clone());
            let mut cx = Context::from_waker(&w);
            if let Poll::Ready(mut ret) = t.fut.as_mut().poll(&mut cx) {
                t.done = true;
                ret["p"] = json!(t.pid);
                tr.emit(ret);
            } else {
                tr.drain();
            }
        }
        if !progress {
            break;
        }
    }
}

async fn run_transition(db: anda_db::database::AndaDB, col: Arc<Collection>, t: String) -> Value {
    match t.as_str() {
        "ro" => {
            col.set_read_only(true);
            json!({"e": "ret", "op": "ro", "ok": true})
        }
        "close" => {
            let r = col.close().await;
            json!({"e": "ret", "op": "closeh", "ok": r.is_ok()})
        }
        "close_collection" => {
            let r = db.close_collection(COL).await;
            json!({"e": "ret", "op": "closeh", "ok": r.is_ok()})
        }
        other => panic!("transition {other}"),
    }
}

/// Runs one schedule. `choices[i]` = index (in ticket order) of the parked call released at step i;
/// beyond the end of `choices` the explorer picks `pick(n)`.
async fn run_schedule(
    w: &Value,
    choices: &[usize],
    pick: &mut dyn FnMut(usize) -> usize,
) -> (Vec<String>, Vec<usize>, Vec<usize>) {
    let (store, handle) = TraceStore::wrap(Arc::new(InMemory::new()));
    let tr = Tracer::new(handle.clone());
    let init_idx = strs(&w["init_idx"]);
    let db = connect(store.clone()).await.expect("connect");
    let idx2 = init_idx.clone();
    let col = db
        .open_or_create_collection(
            CDoc::schema().unwrap(),
            col_config(),
            async move |c: &mut Collection| {
                for name in &idx2 {
                    create_index(c, name).await?;
                }
                Ok(())
            },
        )
        .await
        .expect("setup");
    for op in w["prefix"].as_array().unwrap() {
        let r = exec_op(&col, op).await;
        assert!(r["ok"].as_bool().unwrap_or(false) || op["op"] == "add", "prefix op failed: {op} {r}");
    }
    let (db, col) = if w["cold"].as_bool().unwrap_or(false) {
        // cold caches: clean close and a fresh open of the same storage
        drop(col);
        db.close().await.expect("close");
        drop(db);
        let db = connect(store.clone()).await.expect("reconnect");
        let col = db
            .open_collection(COL.to_string(), async |_c: &mut Collection| Ok(()))
            .await
            .expect("reopen");
        (db, col)
    } else {
        (db, col)
    };
    tr.skip_recorded();
    // the observation itself must not warm the document cache in cold scenarios
    let obs0 = if w["cold"].as_bool().unwrap_or(false) {
        let mut o = observe_light(&col).await;
        o["docs"] = w["cold_docs"].clone();
        o
    } else {
        observe(&col, MAX_ID).await
    };
    let wm: u64 = {
        use object_store::ObjectStoreExt;
        match store.get(&object_store::path::Path::from("db/c/alloc_watermark.cbor")).await {
            Ok(r) => cbor2::from_slice(&r.bytes().await.unwrap()).unwrap_or(0),
            Err(_) => 0,
        }
    };
    tr.emit(json!({
        "e": "init", "kinds": index_kinds(), "terms": index_terms(), "init_idx": init_idx,
        "nvals": n_vals(), "max_id": MAX_ID, "stride": 64, "nprocs": 5,
        "state": obs0, "wm": wm,
    }));
    handle.record_reads(true);
    handle.sched_post_reads(w["post_reads"].as_bool().unwrap_or(false));
    handle.sched_enable(true);

    let mut tasks: Vec<Task> = Vec::new();
    let procs = w["procs"].as_array().unwrap();
    // the calls themselves are scheduled: "issue the next call" is one more choice at every step
    let mut pending: std::collections::VecDeque<(u32, Option<Value>)> = procs
        .iter()
        .enumerate()
        .map(|(i, op)| ((i + 1) as u32, Some(op.clone())))
        .collect();
    if w["transition"].is_string() {
        pending.push_back(((procs.len() + 1) as u32, None));
    }
    let mut counts = Vec::new();
    let mut taken = Vec::new();
    let mut step = 0;
    loop {
        if pending.is_empty() && tasks.iter().all(|t| t.done) {
            break;
        }
        // One choice per PROCESS: the concurrent sub-streams inside one operation (the index flushes of
        // a flush run under try_join) touch disjoint objects and commute, so only the lowest ticket of
        // each process is offered.
        let parked: Vec<_> = {
            let all = handle.parked();
            let mut seen = std::collections::BTreeSet::new();
            all.into_iter().filter(|p| seen.insert(p.proc_)).collect()
        };
        let n = parked.len() + usize::from(!pending.is_empty());
        if n == 0 {
            tr.emit(json!({"e": "deadlock"}));
            break;
        }
        let c = if step < choices.len() { choices[step].min(n - 1) } else { pick(n) };
        counts.push(n);
        taken.push(c);
        step += 1;
        if c < parked.len() {
            handle.release(parked[c].ticket);
        } else {
            let (pid, op) = pending.pop_front().unwrap();
            let fut: Pin<Box<dyn Future<Output = Value>>> = match op {
                Some(op) => {
                    let mut call = op.clone();
                    call["e"] = json!("call");
                    call["p"] = json!(pid);
                    tr.emit(call);
                    let col2 = col.clone();
                    Box::pin(PROC.scope(
                        pid,
                        tokio::task::unconstrained(async move { exec_op(&col2, &op).await }),
                    ))
                }
                None => {
                    let t = w["transition"].as_str().unwrap().to_string();
                    tr.emit(json!({"e": "call", "op": if t == "ro" { "ro" } else { "closeh" }, "p": pid}));
                    Box::pin(PROC.scope(
                        pid,
                        tokio::task::unconstrained(run_transition(db.clone(), col.clone(), t)),
                    ))
                }
            };
            tasks.push(Task {
                pid,
                fut,
                done: false,
                flag: Arc::new(Flag(AtomicBool::new(true))),
            });
        }
        // the released / new task runs until it parks, blocks or returns
        settle(&mut tasks, &tr);
        if step > 400 {
            tr.emit(json!({"e": "livelock"}));
            break;
        }
    }
    handle.sched_enable(false);
    handle.record_reads(false);
    if w["transition"].is_null() {
        let obs = observe(&col, MAX_ID).await;
        tr.emit(obs);
    } else {
        tr.emit(json!({"e": "state", "v": format!("{:?}", col.state())}));
    }
    drop(tasks);
    (tr.take_lines(), counts, taken)
}

#[tokio::main(flavor = "current_thread")]
async fn main() {
    let args: Vec<String> = std::env::args().collect();
    let scenarios: Value = serde_json::from_str(&std::fs::read_to_string(&args[1]).unwrap()).unwrap();
    let seed: u64 = std::env::var("VERIF_SEED").ok().and_then(|s| s.parse().ok()).unwrap_or(1);
    let mut out = std::io::BufWriter::new(std::fs::File::create(&args[2]).unwrap());
    let mut n_traces = 0u64;
    let mut n_events = 0u64;
    let mut per_scenario = Vec::new();
    for (si, w) in scenarios.as_array().unwrap().iter().enumerate() {
        let mut schedules = 0u64;
        let mut exhaustive = true;
        let mut emit = |lines: Vec<String>, tag: Value, out: &mut std::io::BufWriter<std::fs::File>| {
            writeln!(out, "{}", json!({"e": "reset", "tag": tag})).unwrap();
            for l in &lines {
                writeln!(out, "{l}").unwrap();
            }
            n_traces += 1;
            n_events += lines.len() as u64 + 1;
        };
        if let Some(n) = w["sample"].as_u64() {
            exhaustive = false;
            let mut rng = StdRng::seed_from_u64(seed.wrapping_mul(1000003).wrapping_add(si as u64));
            for r in 0..n {
                let mut pick = |k: usize| rng.random_range(0..k);
                let (lines, _, taken) = run_schedule(w, &[], &mut pick).await;
                emit(lines, json!({"s": si, "sample": r, "schedule": taken}), &mut out);
                schedules += 1;
            }
        } else {
            // stateless DFS over the release choices
            let cap = w["cap"].as_u64().unwrap_or(4000);
            let mut prefix: Vec<usize> = Vec::new();
            loop {
                let mut pick = |_k: usize| 0usize;
                let (lines, counts, taken) = run_schedule(w, &prefix, &mut pick).await;
                emit(lines, json!({"s": si, "schedule": taken}), &mut out);
                schedules += 1;
                // next schedule in lexicographic order
                let mut next = taken.clone();
                let mut i = next.len();
                let mut found = false;
                while i > 0 {
                    i -= 1;
                    if next[i] + 1 < counts[i] {
                        next[i] += 1;
                        next.truncate(i + 1);
                        found = true;
                        break;
                    }
                }
                if !found {
                    break;
                }
                if schedules >= cap {
                    exhaustive = false;
                    break;
                }
                prefix = next;
            }
        }
        per_scenario.push(json!({"s": si, "schedules": schedules, "exhaustive": exhaustive}));
    }
    out.flush().unwrap();
    std::fs::write(
        &args[3],
        json!({"scenarios": scenarios.as_array().unwrap().len(), "traces": n_traces, "events": n_events,
               "per_scenario": per_scenario})
        .to_string(),
    )
    .unwrap();
    println!("drive_conc: scenarios={} traces={n_traces} events={n_events}", scenarios.as_array().unwrap().len());
}
