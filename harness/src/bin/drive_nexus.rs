//! C17 / C18 driver: KML statement histories on a real CognitiveNexus through the real parser.
//!
//!   drive_nexus run <histories.jsonl> <tx_trace.ndjson> <hist_trace.ndjson>
//!
//! C17 (-> NexusTxTrace.tla): before and after every statement the WHOLE store is dumped (every row of every
//! element collection incl. pending shells, the transaction journal, the version log, the space row) and
//! the statement is logged with its outcome (committed at seq / refused / dry run).
//! C18 (-> HistoryTrace.tla): after every commit a fixed battery of queries is recorded live; after every later
//! statement every earlier coordinate is replayed AS OF SEQ / TX / TIME.
use anda_cognitive_nexus::{
    CognitiveNexus,
    governance::{
        AuthContext, SYSTEM_PRINCIPAL,
        rows::{AuthorityConditions, AuthorityConstraints, AuthorityScope, principal_class},
        store::{GrantDraft, PrincipalDraft},
    },
    nexus::DEFAULT_SPACE,
};
use anda_db::collection::Collection;
use anda_kip::{Executor, Request, Response};
use serde_json::{Value, json};
use std::collections::{BTreeMap, HashMap};
use std::io::{BufRead, Write};
use std::sync::Arc;
use verif_harness::nexus::{fresh, succeeded};

#[derive(Default)]
struct Intern {
    map: HashMap<String, i64>,
    rev: Vec<String>,
}
impl Intern {
    fn get(&mut self, s: &str) -> i64 {
        let n = self.map.len() as i64 + 1;
        if !self.map.contains_key(s) {
            self.rev.push(s.to_string());
        }
        *self.map.entry(s.to_string()).or_insert(n)
    }
    fn text(&self, code: i64) -> String {
        self.rev.get(code as usize - 1).map(|s| s.chars().take(400).collect()).unwrap_or_default()
    }
}

async fn rows_of(col: &Arc<Collection>) -> Vec<Value> {
    let mut out = Vec::new();
    for id in col.ids() {
        if let Ok(v) = col.get_as::<Value>(id).await {
            out.push(v);
        }
    }
    out
}

struct Dump {
    /// element id string -> (kind, state, version, content digest, tuple key, concept key)
    elems: BTreeMap<String, (String, String, u64, String, String, String)>,
    journal: Vec<u64>,
    vlog: BTreeMap<String, Vec<u64>>,
    vlog_payload: BTreeMap<String, Vec<String>>,
    space_seq: u64,
}

fn strip_volatile(mut v: Value) -> Value {
    // nothing is volatile in a stored row; kept as a hook for clarity
    if let Some(o) = v.as_object_mut() {
        o.remove("__never__");
    }
    v
}

async fn dump(nexus: &CognitiveNexus) -> Dump {
    let st = &nexus.store;
    let mut elems = BTreeMap::new();
    for (prefix, kind, col) in [
        ("C", "concept", st.concepts()),
        ("P", "proposition", st.propositions()),
        ("A", "assertion", st.assertions()),
        ("E", "evidence", st.evidence()),
        ("V", "activity", st.activities()),
    ] {
        for r in rows_of(&col).await {
            let id = format!("{}-{}", prefix, r["_id"].as_u64().unwrap_or(0));
            let state = r["state"].as_str().unwrap_or("").to_string();
            let version = r["version"].as_u64().unwrap_or(0);
            let tuple = r["tuple_key"].as_str().unwrap_or("").to_string();
            let ckey = if kind == "concept" && !r["key"].as_str().unwrap_or("").is_empty() {
                format!("{}|{}", r["schema_ref"].as_str().unwrap_or(""), r["key"].as_str().unwrap_or(""))
            } else {
                String::new()
            };
            let digest = serde_json::to_string(&strip_volatile(r)).unwrap();
            elems.insert(id, (kind.to_string(), state, version, digest, tuple, ckey));
        }
    }
    let mut journal: Vec<u64> = rows_of(&st.transactions()).await.iter().map(|r| r["seq"].as_u64().unwrap_or(0)).collect();
    journal.sort();
    let mut vlog: BTreeMap<String, Vec<u64>> = BTreeMap::new();
    let mut vlog_payload: BTreeMap<String, Vec<String>> = BTreeMap::new();
    let mut vrows = rows_of(&st.element_versions()).await;
    vrows.sort_by_key(|r| r["_id"].as_u64().unwrap_or(0));
    for r in vrows {
        let el = r["element"].as_str().unwrap_or("").to_string();
        vlog.entry(el.clone()).or_default().push(r["version"].as_u64().unwrap_or(0));
        // the epistemic payload of an assertion / evidence record, as stored in this version
        let row = &r["row"];
        let payload = match r["kind"].as_str().unwrap_or("") {
            k if k.eq_ignore_ascii_case("assertion") => json!([row["proposition_id"], row["asserted_by"], row["stance"], row["mode"],
                                                               row["confidence"], row["valid_time"], row["attributes"]]),
            k if k.eq_ignore_ascii_case("evidence") => json!([row["evidence_class"], row["payload"], row["observed_at"], row["source"]]),
            _ => Value::Null,
        };
        if !payload.is_null() {
            vlog_payload.entry(el).or_default().push(payload.to_string());
        }
    }
    let space_seq = rows_of(&st.spaces()).await.iter().map(|r| r["seq"].as_u64().unwrap_or(0)).max().unwrap_or(0);
    Dump { elems, journal, vlog, vlog_payload, space_seq }
}

fn dump_json(d: &Dump, ids: &mut Intern, digests: &mut Intern) -> Value {
    let state_code = |s: &str| match s {
        "active" => 1,
        "archived" => 2,
        "tombstoned" => 3,
        "merged" => 4,
        "quarantined" => 5,
        "purged" => 6,
        "pending" => 7,
        _ => 9,
    };
    let elems: Vec<Value> = d.elems.iter().map(|(id, (_k, st, ver, dg, _t, _c))| json!([ids.get(id), ver, state_code(st), digests.get(dg)])).collect();
    let tuples: Vec<Value> = d.elems.iter().filter(|(_, e)| !e.4.is_empty() && e.1 != "purged").map(|(id, e)| json!([digests.get(&format!("T:{}", e.4)), ids.get(id)])).collect();
    let keys: Vec<Value> = d.elems.iter().filter(|(_, e)| !e.5.is_empty() && e.1 != "purged" && e.1 != "pending").map(|(id, e)| json!([digests.get(&format!("K:{}", e.5)), ids.get(id)])).collect();
    let vlog: Vec<Value> = d.vlog.iter().map(|(id, vs)| json!([ids.get(id), vs])).collect();
    json!({"elems": elems, "tuples": tuples, "keys": keys, "journal": d.journal, "vlog": vlog, "space_seq": d.space_seq})
}

/// Two restricted principals written through the host control plane: `reader` (read / search / discover) and
/// `creator` (read + create + update, but no archive / tombstone / purge / assert).
async fn restricted_principals(nexus: &CognitiveNexus) {
    let gov = &nexus.store.governance;
    for (name, acts) in [("reader", vec!["read", "search", "discover"]), ("creator", vec!["read", "discover", "create", "update"])] {
        let id = format!("kip:principal:verif-{name}");
        gov.ensure_principal(PrincipalDraft {
            principal_id: id.clone(),
            principal_class: principal_class::AGENT.to_string(),
            display_name: name.to_string(),
            auth_provider: "verif".to_string(),
            auth_subject: id.clone(),
        })
        .await
        .expect("ensure_principal");
        gov.create_grant(
            GrantDraft {
                space_id: DEFAULT_SPACE.to_string(),
                grantee_principal: id,
                grantee_group: String::new(),
                actions: acts.into_iter().map(String::from).collect(),
                scope: AuthorityScope::default(),
                conditions: AuthorityConditions::default(),
                constraints: AuthorityConstraints::default(),
                delegation_allowed: false,
            },
            SYSTEM_PRINCIPAL,
        )
        .await
        .expect("create_grant");
    }
}

async fn run_cmd_as(nexus: &CognitiveNexus, who: &str, command: &str, params: &Value, dry: bool) -> Result<Response, String> {
    if who.is_empty() {
        return run_cmd(nexus, command, params, dry).await;
    }
    let mut request = serde_json::from_value::<Request>(json!({
        "kip": "2.0",
        "operations": [{"command": command, "parameters": params}]
    }))
    .map_err(|e| format!("request: {e}"))?;
    if dry {
        request.options = Some(anda_kip::RequestOptions { dry_run: Some(true), ..Default::default() });
    }
    let parsed = request.operations[0].parse().map_err(|e| format!("parse: {e}"))?;
    let session = nexus.session(AuthContext::principal(format!("kip:principal:verif-{who}")));
    Ok(session.execute(parsed, &request, &request.operations[0]).await)
}

async fn run_cmd(nexus: &CognitiveNexus, command: &str, params: &Value, dry: bool) -> Result<Response, String> {
    let mut request = serde_json::from_value::<Request>(json!({
        "kip": "2.0",
        "operations": [{"command": command, "parameters": params}]
    }))
    .map_err(|e| format!("request: {e}"))?;
    if dry {
        request.options = Some(anda_kip::RequestOptions { dry_run: Some(true), ..Default::default() });
    }
    let parsed = request.operations[0].parse().map_err(|e| format!("parse: {e}"))?;
    Ok(nexus.execute(parsed, &request, &request.operations[0]).await)
}

async fn lookup_id(nexus: &CognitiveNexus, name: &str) -> Option<String> {
    // by name, any state
    for r in rows_of(&nexus.store.concepts()).await {
        if r["name"] == json!(name) {
            return Some(format!("C-{}", r["_id"].as_u64().unwrap()));
        }
    }
    None
}

async fn first_of(nexus: &CognitiveNexus, kind: &str, n: usize) -> Option<String> {
    let (prefix, col) = match kind {
        "assertion" => ("A", nexus.store.assertions()),
        "evidence" => ("E", nexus.store.evidence()),
        "proposition" => ("P", nexus.store.propositions()),
        _ => ("C", nexus.store.concepts()),
    };
    let mut ids = col.ids();
    ids.sort();
    ids.get(n).map(|i| format!("{prefix}-{i}"))
}

/// `$id(Name)`, `$nth(kind,n)` placeholders in a statement text.
async fn resolve(nexus: &CognitiveNexus, text: &str) -> String {
    let mut out = text.to_string();
    while let Some(i) = out.find("$id(") {
        let j = out[i..].find(')').unwrap() + i;
        let name = out[i + 4..j].to_string();
        let id = lookup_id(nexus, &name).await.unwrap_or_else(|| "C-999999".to_string());
        out.replace_range(i..=j, &id);
    }
    while let Some(i) = out.find("$nth(") {
        let j = out[i..].find(')').unwrap() + i;
        let inner = out[i + 5..j].to_string();
        let mut it = inner.split(',');
        let kind = it.next().unwrap().trim().to_string();
        let n: usize = it.next().unwrap().trim().parse().unwrap();
        let id = first_of(nexus, &kind, n).await.unwrap_or_else(|| "A-999999".to_string());
        out.replace_range(i..=j, &id);
    }
    out
}

fn result_text(r: &Result<Response, String>) -> String {
    match r {
        Err(e) => format!("ERR:{e}"),
        Ok(resp) => {
            if succeeded(resp) {
                serde_json::to_string(&resp.first_result()).unwrap()
            } else {
                let code = resp.results.iter().find_map(|x| x.error.as_ref().map(|e| e.code.clone()))
                    .or(resp.error.as_ref().map(|e| e.code.clone())).unwrap_or_default();
                format!("FAIL:{code}")
            }
        }
    }
}

fn result_digest(r: &Result<Response, String>, digests: &mut Intern) -> i64 {
    digests.get(&result_text(r))
}

async fn battery(nexus: &CognitiveNexus, queries: &[String], coord: &str, digests: &mut Intern) -> Vec<i64> {
    let mut out = Vec::new();
    for q in queries {
        let text = q.replace("{coord}", coord);
        let r = run_cmd(nexus, &text, &json!({}), false).await;
        out.push(result_digest(&r, digests));
    }
    out
}

async fn run_history(h: &Value, tx: &mut Vec<Value>, hist: &mut Vec<Value>, stats: &mut (u64, u64, u64, u64)) {
    let name = h["name"].as_str().unwrap();
    let nexus = fresh(&format!("v{}", stats.0)).await;
    stats.0 += 1;
    if h["principals"].as_bool().unwrap_or(false) {
        restricted_principals(&nexus).await;
    }
    let mut ids = Intern::default();
    let mut digests = Intern::default();
    let queries: Vec<String> = h["battery"].as_array().map(|a| a.iter().map(|x| x.as_str().unwrap().to_string()).collect()).unwrap_or_default();
    let replay = h["replay"].as_bool().unwrap_or(true) && !queries.is_empty();
    tx.push(json!({"e": "reset", "tag": name}));
    hist.push(json!({"e": "reset", "tag": name, "nq": queries.len()}));
    // coordinates recorded so far: (seq, tx id, committed_at)
    let mut coords: Vec<(u64, String, String)> = Vec::new();
    let mut live_by_seq: BTreeMap<u64, Vec<i64>> = BTreeMap::new();
    let explain = |mode: &str, cs: u64, d: &[i64], live: &BTreeMap<u64, Vec<i64>>, digests: &Intern, queries: &[String]| -> Value {
        let mut diff = Vec::new();
        if let Some(l) = live.get(&cs) {
            for (qi, (a, b)) in l.iter().zip(d.iter()).enumerate() {
                if a != b {
                    diff.push(json!({"q": queries[qi], "live": digests.text(*a), "asof": digests.text(*b)}));
                }
            }
        }
        let _ = mode;
        json!(diff)
    };
    let d0 = dump(&nexus).await;
    tx.push(json!({"e": "init", "st": dump_json(&d0, &mut ids, &mut digests)}));
    for (i, s) in h["stmts"].as_array().unwrap().iter().enumerate() {
        let text = resolve(&nexus, s["text"].as_str().unwrap()).await;
        let dry = s["dry"].as_bool().unwrap_or(false);
        let purges = text.contains("PURGE");
        let r = run_cmd_as(&nexus, s["as"].as_str().unwrap_or(""), &text, &s["params"], dry).await;
        let post = dump(&nexus).await;
        let (outcome, seq, code) = match &r {
            Err(e) => ("refused", 0u64, format!("parse:{}", e.chars().take(60).collect::<String>())),
            Ok(resp) => {
                let seq = resp.receipt.as_ref().and_then(|x| x.space_seq);
                if succeeded(resp) {
                    match seq {
                        Some(q) if !dry => ("committed", q, String::new()),
                        _ => (if dry { "dryrun" } else { "noeffect" }, 0, String::new()),
                    }
                } else {
                    let code = resp.results.iter().find_map(|x| x.error.as_ref().map(|e| e.code.clone()))
                        .or(resp.error.as_ref().map(|e| e.code.clone())).unwrap_or_default();
                    ("refused", 0, code)
                }
            }
        };
        stats.1 += 1;
        if outcome == "refused" {
            stats.2 += 1;
        }
        tx.push(json!({"e": "stmt", "i": i, "outcome": outcome, "seq": seq, "code": code, "purges": purges,
                       "text": text.chars().take(160).collect::<String>(), "st": dump_json(&post, &mut ids, &mut digests)}));
        // payload immutability over the version log
        for (el, ps) in &post.vlog_payload {
            let codes: Vec<i64> = ps.iter().map(|p| digests.get(p)).collect();
            hist.push(json!({"e": "payload", "id": ids.get(el), "versions": codes}));
        }
        if replay {
            if outcome == "committed" {
                if let Ok(resp) = &r {
                    let rc = resp.receipt.as_ref().unwrap();
                    coords.push((seq, rc.tx_id.clone().unwrap_or_default(), rc.committed_at.clone().unwrap_or_default()));
                }
                let live = battery(&nexus, &queries, "", &mut digests).await;
                live_by_seq.insert(seq, live.clone());
                hist.push(json!({"e": "live", "s": seq, "d": live}));
                stats.3 += queries.len() as u64;
                // distinct commit times for AS OF TIME
                tokio::time::sleep(std::time::Duration::from_millis(3)).await;
            }
            // every earlier coordinate, after every statement (committed or not)
            for (cs, ctx, ctime) in &coords {
                let d = battery(&nexus, &queries, &format!("AS OF SEQ {cs}"), &mut digests).await;
                let diff = explain("seq", *cs, &d, &live_by_seq, &digests, &queries);
                hist.push(json!({"e": "asof", "mode": "seq", "s": cs, "at": i, "d": d, "diff": diff, "stmt": text.chars().take(120).collect::<String>()}));
                stats.3 += queries.len() as u64;
                if i % 3 == 2 || i + 1 == h["stmts"].as_array().unwrap().len() {
                    let d = battery(&nexus, &queries, &format!("AS OF TX \"{ctx}\""), &mut digests).await;
                    let diff = explain("tx", *cs, &d, &live_by_seq, &digests, &queries);
                    hist.push(json!({"e": "asof", "mode": "tx", "s": cs, "at": i, "d": d, "diff": diff}));
                    if !ctime.is_empty() {
                        let d = battery(&nexus, &queries, &format!("AS OF TIME \"{ctime}\""), &mut digests).await;
                        let diff = explain("time", *cs, &d, &live_by_seq, &digests, &queries);
                        hist.push(json!({"e": "asof", "mode": "time", "s": cs, "at": i, "d": d, "diff": diff}));
                    }
                    stats.3 += 2 * queries.len() as u64;
                }
            }
        }
    }
}

// ---------------------------------------------------------------------------------------------
// readers against a committing writer: the writer's backend mutations are parked one by one; at every
// parked mutation a reader runs the battery through the nexus (so through its lock) with a deadline

async fn run_conc(h: &Value, tx: &mut Vec<Value>, stats: &mut (u64, u64, u64, u64)) {
    use verif_harness::nexus::fresh_on;
    use verif_harness::tracestore::TraceStore;
    let name = h["name"].as_str().unwrap();
    let (ts, handle) = TraceStore::wrap(Arc::new(object_store::memory::InMemory::new()));
    handle.keep_payload(false);
    let nexus = Arc::new(fresh_on(ts, &format!("c{}", stats.0)).await);
    stats.0 += 1;
    let mut digests = Intern::default();
    let queries: Vec<String> = h["battery"].as_array().unwrap().iter().map(|x| x.as_str().unwrap().to_string()).collect();
    tx.push(json!({"e": "reset", "tag": name}));
    for (i, s) in h["stmts"].as_array().unwrap().iter().enumerate() {
        let text = resolve(&nexus, s["text"].as_str().unwrap()).await;
        let pre = battery(&nexus, &queries, "", &mut digests).await;
        handle.sched_enable(true);
        let writer = {
            let nexus = nexus.clone();
            let text = text.clone();
            let params = s["params"].clone();
            tokio::spawn(async move { run_cmd(&nexus, &text, &params, false).await.map(|r| succeeded(&r)) })
        };
        let mut reads: Vec<Value> = Vec::new();
        let mut k = 0u64;
        let started = std::time::Instant::now();
        loop {
            if writer.is_finished() {
                break;
            }
            let parked = handle.parked();
            if parked.is_empty() {
                tokio::time::sleep(std::time::Duration::from_micros(300)).await;
                if started.elapsed() > std::time::Duration::from_secs(20) {
                    break;
                }
                continue;
            }
            // a reader while the writer sits at this backend operation
            if parked[0].op.is_mutation() {
                k += 1;
            }
            if parked[0].op.is_mutation() && (k <= 6 || k % 4 == 0) {
                let reader = {
                    let nexus = nexus.clone();
                    let queries = queries.clone();
                    tokio::spawn(async move {
                        let mut out = Vec::new();
                        for q in &queries {
                            let text = q.replace("{coord}", "");
                            let r = run_cmd(&nexus, &text, &json!({}), false).await;
                            out.push(result_text(&r));
                        }
                        out
                    })
                };
                // the reader's own backend reads must not be held up
                let deadline = std::time::Instant::now() + std::time::Duration::from_millis(6);
                let mut done = None;
                let mut reader = reader;
                while std::time::Instant::now() < deadline {
                    for p in handle.parked() {
                        if !p.op.is_mutation() {
                            handle.release(p.ticket);
                        }
                    }
                    if reader.is_finished() {
                        done = Some((&mut reader).await.unwrap());
                        break;
                    }
                    tokio::time::sleep(std::time::Duration::from_micros(300)).await;
                }
                match done {
                    Some(texts) => reads.push(json!([k, texts.iter().map(|t| digests.get(t)).collect::<Vec<_>>()])),
                    None => {
                        reads.push(json!([k, []]));
                        // blocked on the nexus lock: it finishes once the writer is through
                        let nexus2 = nexus.clone();
                        let _ = nexus2;
                        tokio::spawn(async move {
                            let _ = reader.await;
                        });
                    }
                }
                stats.3 += 1;
            }
            for p in handle.parked() {
                handle.release(p.ticket);
                break;
            }
        }
        let wrote = writer.await.unwrap();
        handle.sched_enable(false);
        // let stragglers (blocked readers) drain
        for _ in 0..50 {
            for p in handle.parked() {
                handle.release(p.ticket);
            }
            tokio::time::sleep(std::time::Duration::from_micros(200)).await;
        }
        let post = battery(&nexus, &queries, "", &mut digests).await;
        let pre_d: Vec<i64> = pre.clone();
        let post_d: Vec<i64> = post.clone();
        // the battery digests from `battery` are digests of results; the readers' are digests of the same strings
        tx.push(json!({"e": "conc", "i": i, "ok": wrote.unwrap_or(false), "pre": pre_d, "post": post_d, "reads": reads,
                       "text": text.chars().take(120).collect::<String>()}));
        stats.1 += 1;
    }
}

fn main() {
    let args: Vec<String> = std::env::args().collect();
    let rt = tokio::runtime::Builder::new_current_thread().enable_all().build().unwrap();
    match args[1].as_str() {
        "run" => {
            let f = std::io::BufReader::new(std::fs::File::open(&args[2]).unwrap());
            let mut tx = Vec::new();
            let mut hist = Vec::new();
            let mut stats = (0u64, 0u64, 0u64, 0u64);
            for l in f.lines() {
                let l = l.unwrap();
                if l.trim().is_empty() {
                    continue;
                }
                let h: Value = serde_json::from_str(&l).unwrap();
                rt.block_on(run_history(&h, &mut tx, &mut hist, &mut stats));
            }
            let mut maxid = 1i64;
            let mut maxver = 1u64;
            for e in &tx {
                if let Some(st) = e.get("st") {
                    for x in st["elems"].as_array().unwrap() {
                        maxid = maxid.max(x[0].as_i64().unwrap());
                        maxver = maxver.max(x[1].as_u64().unwrap());
                    }
                }
            }
            let mut out = std::io::BufWriter::new(std::fs::File::create(&args[3]).unwrap());
            writeln!(out, "{}", json!({"e": "hdr", "maxid": maxid, "maxver": maxver})).unwrap();
            for e in &tx {
                writeln!(out, "{}", e).unwrap();
            }
            let mut out = std::io::BufWriter::new(std::fs::File::create(&args[4]).unwrap());
            writeln!(out, "{}", json!({"e": "hdr"})).unwrap();
            for e in &hist {
                writeln!(out, "{}", e).unwrap();
            }
            println!("{}", json!({"summary": true, "histories": stats.0, "statements": stats.1, "refused": stats.2,
                                  "queries": stats.3, "tx_events": tx.len(), "hist_events": hist.len()}));
        }
        "conc" => {
            let f = std::io::BufReader::new(std::fs::File::open(&args[2]).unwrap());
            let mut tx = Vec::new();
            let mut stats = (0u64, 0u64, 0u64, 0u64);
            let rt = tokio::runtime::Builder::new_multi_thread().worker_threads(3).enable_all().build().unwrap();
            for l in f.lines() {
                let l = l.unwrap();
                if l.trim().is_empty() {
                    continue;
                }
                let h: Value = serde_json::from_str(&l).unwrap();
                rt.block_on(run_conc(&h, &mut tx, &mut stats));
            }
            let mut out = std::io::BufWriter::new(std::fs::File::create(&args[3]).unwrap());
            writeln!(out, "{}", json!({"e": "hdr", "maxid": 1, "maxver": 1})).unwrap();
            for e in &tx {
                writeln!(out, "{}", e).unwrap();
            }
            println!("{}", json!({"summary": true, "histories": stats.0, "statements": stats.1, "reads": stats.3}));
        }
        m => panic!("mode {m}"),
    }
}
