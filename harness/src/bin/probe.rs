use anda_db::{
    collection::CollectionConfig,
    database::{AndaDB, DBConfig},
    index::HnswConfig,
    schema::{AndaDBSchema, Fv, Vector, bf16},
    storage::StorageConfig,
};
use object_store::memory::InMemory;
use serde::{Deserialize, Serialize};
use std::{collections::BTreeMap, sync::Arc};
use verif_harness::tracestore::*;

#[derive(Debug, Clone, Serialize, Deserialize, AndaDBSchema)]
struct Doc {
    _id: u64,
    #[unique]
    k: u64,
    t: String,
    v: Vector,
}

#[tokio::main(flavor = "current_thread")]
async fn main() {
    let (store, h) = TraceStore::wrap(Arc::new(InMemory::new()));
    let db = AndaDB::connect(
        store.clone(),
        DBConfig {
            name: "db".into(),
            description: "d".into(),
            storage: StorageConfig { compress_level: 0, ..Default::default() },
            lock: None,
        },
    )
    .await
    .unwrap();
    let dump = |tag: &str, h: &TraceHandle| {
        println!("--- {tag}");
        for e in h.take_events() {
            println!("{:3} {:6} {:9} {:8} {} {}", e.mutation, e.op.name(), e.mode, e.res, e.path, e.payload.map(|p| p.len()).unwrap_or(0));
        }
    };
    dump("connect", &h);
    let col = db
        .open_or_create_collection(
            Doc::schema().unwrap(),
            CollectionConfig { name: "c".into(), description: "c".into() },
            async |c| {
                c.create_btree_index_nx(&["k"]).await?;
                c.create_bm25_index_nx(&["t"]).await?;
                c.create_hnsw_index_nx("v", HnswConfig { dimension: 2, ..Default::default() }).await?;
                Ok(())
            },
        )
        .await
        .unwrap();
    dump("create collection", &h);
    let mk = |k: u64, t: &str| Doc { _id: 0, k, t: t.into(), v: vec![bf16::from_f32(k as f32), bf16::from_f32(1.0)] };
    col.add_from(&mk(1, "cat dog")).await.unwrap();
    dump("add 1", &h);
    col.add_from(&mk(2, "dog fox")).await.unwrap();
    dump("add 2", &h);
    col.flush(1).await.unwrap();
    dump("flush", &h);
    col.update(1, BTreeMap::from([("k".to_string(), Fv::U64(3))])).await.unwrap();
    dump("update 1", &h);
    col.remove(2).await.unwrap();
    dump("remove 2", &h);
    col.save_extension("x".into(), Fv::U64(1)).await.unwrap();
    dump("save_extension", &h);
    col.flush(2).await.unwrap();
    dump("flush", &h);
    col.flush(3).await.unwrap();
    dump("flush (noop)", &h);
    col.compact_btree_index(&["k"]).await.unwrap();
    dump("compact btree", &h);
    db.close().await.unwrap();
    dump("db close", &h);
    let db = AndaDB::connect(store.clone(), DBConfig { name: "db".into(), description: "d".into(), storage: StorageConfig { compress_level: 0, ..Default::default() }, lock: None }).await.unwrap();
    dump("reconnect", &h);
    let _col = db.open_collection("c".into(), async |_c| Ok(())).await.unwrap();
    dump("reopen", &h);
}
