//! C06 driver (direction T): lifecycle transitions with retained handles, and
//! cancellation (future dropped after k polls) of every mutating API.
//!
//! usage: drive_lifecycle <scenarios.json> <traces.ndjson> <stats.json>
//! scenario: {"init_idx","wanted","rm","prefix":[ops],"kind":"retire","transition":T}
//!           {"init_idx","wanted","rm","prefix":[ops],"kind":"drop","op":{..}}
//! T in close | close_collection | ro | db_ro | delete

use anda_db::{collection::Collection, database::AndaDB, error::DBError};
use futures::StreamExt;
use object_store::{ObjectStore, memory::InMemory, path::Path};
use serde_json::{Value, json};
use std::{io::Write, sync::Arc};
use verif_harness::{coll::*, tracestore::{TraceHandle, TraceStore}};

const MAX_ID: u64 = 12;

fn strs(v: &Value) -> Vec<String> {
    v.as_array()
        .map(|a| a.iter().map(|x| x.as_str().unwrap().to_string()).collect())
        .unwrap_or_default()
}

async fn open_col(
    db: &AndaDB,
    tr: &Tracer,
    wanted: Vec<String>,
    rm: Vec<String>,
    traced: bool,
    create: bool,
) -> Result<Arc<Collection>, DBError> {
    let tr2 = tr.clone();
    let cb = async move |c: &mut Collection| {
        if traced {
            tr2.emit(json!({"e": "cb_begin"}));
        }
        for name in &wanted {
            create_index(c, name).await?;
        }
        for name in &rm {
            remove_index(c, name).await?;
        }
        if traced {
            tr2.emit(json!({"e": "cb_end"}));
        }
        Ok(())
    };
    if create {
        db.open_or_create_collection(CDoc::schema().unwrap(), col_config(), cb).await
    } else {
        db.open_collection(COL.to_string(), cb).await
    }
}

async fn listing(store: &Arc<TraceStore>) -> usize {
    let mut n = 0;
    let mut s = store.list(Some(&Path::from("db/c")));
    while let Some(m) = s.next().await {
        if m.is_ok() {
            n += 1;
        }
    }
    n
}

struct Ctx {
    store: Arc<TraceStore>,
    handle: TraceHandle,
    tr: Tracer,
    db: AndaDB,
    col: Arc<Collection>,
    wanted: Vec<String>,
    rm: Vec<String>,
}

async fn setup(w: &Value) -> Ctx {
    let (store, handle) = TraceStore::wrap(Arc::new(InMemory::new()));
    let tr = Tracer::new(handle.clone());
    let init_idx = strs(&w["init_idx"]);
    let wanted = strs(&w["wanted"]);
    let rm = strs(&w["rm"]);
    let db = connect(store.clone()).await.expect("connect");
    let col = open_col(&db, &tr, init_idx.clone(), vec![], false, true)
        .await
        .expect("setup");
    tr.skip_recorded();
    tr.emit(json!({
        "e": "init", "kinds": index_kinds(), "terms": index_terms(), "init_idx": init_idx,
        "wanted": wanted, "rm": rm, "nvals": n_vals(), "max_id": MAX_ID, "stride": 64,
    }));
    let ctx = Ctx { store, handle, tr, db, col, wanted, rm };
    for op in w["prefix"].as_array().unwrap() {
        let mut call = op.clone();
        call["e"] = json!("call");
        ctx.tr.emit(call);
        let ret = exec_op(&ctx.col, op).await;
        ctx.tr.emit(ret);
    }
    let obs = observe(&ctx.col, MAX_ID).await;
    ctx.tr.emit(obs);
    ctx
}

/// every mutating API on a retained handle
fn retired_ops() -> Vec<Value> {
    vec![
        json!({"op": "add", "val": 4}),
        json!({"op": "update", "id": 1, "val": 5}),
        json!({"op": "remove", "id": 1}),
        json!({"op": "flush"}),
        json!({"op": "ext", "x": 9}),
        json!({"op": "ext", "x": 0}),
        json!({"op": "compact", "idx": "k"}),
        json!({"op": "reconcile"}),
    ]
}

async fn call_all_quiet(ctx: &Ctx, col: &Collection) {
    for op in retired_ops() {
        let mut call = op.clone();
        call["e"] = json!("qcall");
        ctx.tr.emit(call);
        let mut ret = exec_op(col, &op).await;
        ret["e"] = json!("qret");
        ctx.tr.emit(ret);
    }
}

async fn reopen_and_check(ctx: &Ctx, create: bool) {
    ctx.tr.emit(json!({"e": "call", "op": "open"}));
    match open_col(&ctx.db, &ctx.tr, ctx.wanted.clone(), ctx.rm.clone(), true, create).await {
        Ok(col) => {
            ctx.tr.emit(json!({"e": "ret", "op": "open", "ok": true}));
            let obs = observe(&col, MAX_ID).await;
            ctx.tr.emit(obs);
            ctx.tr.emit(json!({"e": "call", "op": "add", "val": 4}));
            let ret = exec_op(&col, &json!({"op": "add", "val": 4})).await;
            ctx.tr.emit(ret);
            ctx.tr.emit(json!({"e": "call", "op": "flush"}));
            let ret = exec_op(&col, &json!({"op": "flush"})).await;
            ctx.tr.emit(ret);
            let obs = observe(&col, MAX_ID).await;
            ctx.tr.emit(obs);
        }
        Err(e) => {
            ctx.tr.emit(json!({"e": "ret", "op": "open", "ok": false, "err": err_class(&e)}));
        }
    }
}

async fn run_retire(w: &Value) -> Vec<String> {
    let ctx = setup(w).await;
    let retained = ctx.col.clone();
    let t = w["transition"].as_str().unwrap();
    match t {
        "close" | "close_collection" => {
            ctx.tr.emit(json!({"e": "call", "op": "reopen"}));
            let r = if t == "close" {
                retained.close().await
            } else {
                ctx.db.close_collection(COL).await
            };
            ctx.tr.emit(json!({"e": "ret", "op": "close", "ok": r.is_ok()}));
            ctx.tr.emit(json!({"e": "state", "v": format!("{:?}", retained.state())}));
            call_all_quiet(&ctx, &retained).await;
            // a closed handle cannot be made writable again
            retained.set_read_only(false);
            ctx.tr.emit(json!({"e": "ro", "on": false, "scope": "col"}));
            call_all_quiet(&ctx, &retained).await;
            // closing again is an idempotent no-op
            ctx.tr.emit(json!({"e": "qcall", "op": "close"}));
            let mut ret = exec_op(&retained, &json!({"op": "close"})).await;
            ret["e"] = json!("qret");
            ctx.tr.emit(ret);
            reopen_and_check(&ctx, false).await;
            // the old handle stays retired after the reopen
            call_all_quiet(&ctx, &retained).await;
        }
        "ro" => {
            retained.set_read_only(true);
            ctx.tr.emit(json!({"e": "ro", "on": true, "scope": "col"}));
            call_all_quiet(&ctx, &retained).await;
            retained.set_read_only(false);
            ctx.tr.emit(json!({"e": "ro", "on": false, "scope": "col"}));
            let op = json!({"op": "add", "val": 4});
            ctx.tr.emit(json!({"e": "call", "op": "add", "val": 4}));
            let ret = exec_op(&retained, &op).await;
            ctx.tr.emit(ret);
            let obs = observe(&retained, MAX_ID).await;
            ctx.tr.emit(obs);
        }
        "db_ro" => {
            ctx.db.set_read_only(true);
            ctx.tr.emit(json!({"e": "ro", "on": true, "scope": "db"}));
            call_all_quiet(&ctx, &retained).await;
            // the collection-level switch cannot override the database
            retained.set_read_only(false);
            ctx.tr.emit(json!({"e": "ro", "on": false, "scope": "col"}));
            call_all_quiet(&ctx, &retained).await;
            ctx.db.set_read_only(false);
            ctx.tr.emit(json!({"e": "ro", "on": false, "scope": "db"}));
            retained.set_read_only(false);
            ctx.tr.emit(json!({"e": "ro", "on": false, "scope": "col"}));
            let op = json!({"op": "add", "val": 4});
            ctx.tr.emit(json!({"e": "call", "op": "add", "val": 4}));
            let ret = exec_op(&retained, &op).await;
            ctx.tr.emit(ret);
            let obs = observe(&retained, MAX_ID).await;
            ctx.tr.emit(obs);
        }
        "delete" => {
            ctx.tr.emit(json!({"e": "call", "op": "delete"}));
            let r = ctx.db.delete_collection(COL).await;
            ctx.tr.emit(json!({"e": "ret", "op": "delete", "ok": r.is_ok()}));
            ctx.tr.emit(json!({"e": "listing", "n": listing(&ctx.store).await}));
            ctx.tr.emit(json!({"e": "state", "v": format!("{:?}", retained.state())}));
            call_all_quiet(&ctx, &retained).await;
            retained.set_read_only(false);
            ctx.tr.emit(json!({"e": "ro", "on": false, "scope": "col"}));
            call_all_quiet(&ctx, &retained).await;
            ctx.tr.emit(json!({"e": "qcall", "op": "close"}));
            let mut ret = exec_op(&retained, &json!({"op": "close"})).await;
            ret["e"] = json!("qret");
            ctx.tr.emit(ret);
            ctx.tr.emit(json!({"e": "listing", "n": listing(&ctx.store).await}));
            // the name is gone
            ctx.tr.emit(json!({"e": "qcall", "op": "open"}));
            let r = ctx.db.open_collection(COL.to_string(), async |_c| Ok(())).await;
            ctx.tr.emit(json!({"e": "qret", "op": "open", "ok": r.is_ok()}));
            ctx.tr.emit(json!({"e": "listing", "n": listing(&ctx.store).await}));
        }
        other => panic!("unknown transition {other}"),
    }
    ctx.tr.take_lines()
}

/// Returns (trace, completed): the op is polled k times then dropped.
async fn run_drop(w: &Value, k: u64) -> (Vec<String>, bool) {
    let ctx = setup(w).await;
    let retained = ctx.col.clone();
    let op = w["op"].clone();
    let mut call = op.clone();
    call["e"] = json!("call");
    if op["op"] == "close" || op["op"] == "close_collection" {
        call["op"] = json!("reopen");
    }
    ctx.tr.emit(call);
    ctx.handle.yield_once(true);
    let completed = {
        let col2 = retained.clone();
        let op2 = op.clone();
        // unconstrained: tokio's cooperative budget must not turn lock acquisitions into spurious
        // suspension points of the manually polled future
        let db2 = ctx.db.clone();
        let mut fut = Box::pin(tokio::task::unconstrained(async move {
            match op2["op"].as_str().unwrap() {
                // the database-level calls (per-name lifecycle lock around the transition)
                "close_collection" => {
                    let r = db2.close_collection(COL).await;
                    json!({"e": "ret", "op": "close", "ok": r.is_ok()})
                }
                "delete" => {
                    let r = db2.delete_collection(COL).await;
                    json!({"e": "ret", "op": "delete", "ok": r.is_ok()})
                }
                _ => exec_op(&col2, &op2).await,
            }
        }));
        let mut done = None;
        for _ in 0..k {
            if let std::task::Poll::Ready(r) = futures::poll!(fut.as_mut()) {
                done = Some(r);
                break;
            }
        }
        // the future is dropped here if it did not complete
        done
    };
    ctx.handle.yield_once(false);
    match completed {
        Some(ret) => {
            ctx.tr.emit(ret);
            if op["op"] == "delete" {
                ctx.tr.emit(json!({"e": "listing", "n": listing(&ctx.store).await}));
                ctx.tr.emit(json!({"e": "state", "v": format!("{:?}", retained.state())}));
            } else if op["op"] != "close" && op["op"] != "close_collection" {
                let obs = observe(&retained, MAX_ID).await;
                ctx.tr.emit(obs);
            }
            (ctx.tr.take_lines(), true)
        }
        None if op["op"] == "delete" => {
            // a cancelled delete_collection: the handle and the name stay tombstoned, nothing can write or
            // open over the prefix, and a RETRY finishes the deletion
            ctx.tr.emit(json!({"e": "drop", "k": k}));
            ctx.tr.emit(json!({"e": "state", "v": format!("{:?}", retained.state())}));
            call_all_quiet(&ctx, &retained).await;
            retained.set_read_only(false);
            ctx.tr.emit(json!({"e": "ro", "on": false, "scope": "col"}));
            call_all_quiet(&ctx, &retained).await;
            ctx.tr.emit(json!({"e": "qcall", "op": "open"}));
            let r = ctx.db.open_collection(COL.to_string(), async |_c| Ok(())).await;
            ctx.tr.emit(json!({"e": "qret", "op": "open", "ok": r.is_ok()}));
            ctx.tr.emit(json!({"e": "call", "op": "delete"}));
            let r = ctx.db.delete_collection(COL).await;
            ctx.tr.emit(json!({"e": "ret", "op": "delete", "ok": r.is_ok()}));
            ctx.tr.emit(json!({"e": "listing", "n": listing(&ctx.store).await}));
            ctx.tr.emit(json!({"e": "state", "v": format!("{:?}", retained.state())}));
            call_all_quiet(&ctx, &retained).await;
            ctx.tr.emit(json!({"e": "listing", "n": listing(&ctx.store).await}));
            (ctx.tr.take_lines(), false)
        }
        None => {
            ctx.tr.emit(json!({"e": "drop", "k": k}));
            ctx.tr.emit(json!({"e": "state", "v": format!("{:?}", retained.state())}));
            call_all_quiet(&ctx, &retained).await;
            retained.set_read_only(false);
            ctx.tr.emit(json!({"e": "ro", "on": false, "scope": "col"}));
            call_all_quiet(&ctx, &retained).await;
            reopen_and_check(&ctx, false).await;
            call_all_quiet(&ctx, &retained).await;
            (ctx.tr.take_lines(), false)
        }
    }
}

#[tokio::main(flavor = "current_thread")]
async fn main() {
    let args: Vec<String> = std::env::args().collect();
    let scenarios: Value = serde_json::from_str(&std::fs::read_to_string(&args[1]).unwrap()).unwrap();
    let mut out = std::io::BufWriter::new(std::fs::File::create(&args[2]).unwrap());
    let mut n_traces = 0u64;
    let mut n_events = 0u64;
    let mut drop_points = 0u64;
    let mut retire = 0u64;
    let mut emit = |lines: Vec<String>, tag: Value, out: &mut std::io::BufWriter<std::fs::File>| {
        writeln!(out, "{}", json!({"e": "reset", "tag": tag})).unwrap();
        for l in &lines {
            writeln!(out, "{l}").unwrap();
        }
        n_traces += 1;
        n_events += lines.len() as u64 + 1;
    };
    for (si, w) in scenarios.as_array().unwrap().iter().enumerate() {
        match w["kind"].as_str().unwrap() {
            "retire" => {
                let lines = run_retire(w).await;
                emit(lines, json!({"s": si, "kind": "retire", "transition": w["transition"]}), &mut out);
                retire += 1;
            }
            "drop" => {
                for k in 1..200 {
                    let (lines, completed) = run_drop(w, k).await;
                    emit(lines, json!({"s": si, "kind": "drop", "op": w["op"], "k": k, "completed": completed}), &mut out);
                    if completed {
                        break;
                    }
                    drop_points += 1;
                }
            }
            other => panic!("unknown scenario kind {other}"),
        }
    }
    out.flush().unwrap();
    std::fs::write(
        &args[3],
        json!({"scenarios": scenarios.as_array().unwrap().len(), "traces": n_traces, "events": n_events,
               "drop_points": drop_points, "retire_scenarios": retire})
        .to_string(),
    )
    .unwrap();
    println!("drive_lifecycle: traces={n_traces} events={n_events} drop_points={drop_points} retire={retire}");
}
