//! C14 driver: the real anda_db_server router (axum, in-process via tower::oneshot).
//!
//!   drive_server matrix <cases.jsonl> <full|lite>    TLC's histories + expectation tables  (<- MC_ServerAuth)
//!   drive_server reads                                Read-classified methods vs backend writes
use anda_db_server::{AppState, ServerOptions, build_router};
use axum::{Router, body::Body, http::{Request, StatusCode, header}};
use http_body_util::BodyExt;
use object_store::{ObjectStore, memory::InMemory};
use serde_json::{Value, json};
use std::collections::{BTreeMap, BTreeSet};
use std::io::BufRead;
use std::sync::Arc;
use std::time::Duration;
use tower::ServiceExt;
use verif_harness::tracestore::TraceStore;

const ADMIN: &str = "admin-secret-key";
const PRIMARY: &str = "p";

const ROOT_METHODS: [&str; 7] = ["db.list", "db.create", "db.open", "db.connect", "db.close", "db.set_api_key", "db.remove_api_key"];
const DB_METHODS: [&str; 30] = [
    "db.metadata", "db.stats", "db.flush", "db.set_read_only", "db.get_extension", "db.save_extension", "db.remove_extension",
    "collection.list", "collection.create", "collection.ensure", "collection.metadata", "collection.stats", "collection.delete",
    "collection.flush", "collection.set_read_only", "collection.get_extension", "collection.save_extension",
    "collection.remove_extension", "doc.add", "doc.add_many", "doc.get", "doc.get_many", "doc.update", "doc.remove", "doc.exists",
    "doc.count", "doc.search", "doc.search_ids", "doc.query_ids", "doc.query_last_ids",
];
const UNKNOWN_METHODS: [&str; 5] = ["db.drop", "admin.shutdown", "", "DB.LIST", "info "];

fn options() -> ServerOptions {
    ServerOptions {
        name: "verif".to_string(),
        version: "0.0.0".to_string(),
        primary_db: PRIMARY.to_string(),
        description: "verif".to_string(),
        api_key: Some(ADMIN.to_string()),
        flush_interval: Duration::from_secs(3600),
        ..Default::default()
    }
}

async fn connect(store: Arc<dyn ObjectStore>) -> (AppState, Router) {
    let state = AppState::connect(store, options()).await.expect("connect");
    let app = build_router(state.clone());
    (state, app)
}

/// keys the server generated in this run (db.set_api_key without a key): "ga" / "gb" -> the returned key
static GENERATED: std::sync::Mutex<BTreeMap<String, String>> = std::sync::Mutex::new(BTreeMap::new());

fn token_value(t: &str) -> Option<String> {
    if let Some(k) = GENERATED.lock().unwrap().get(t) {
        return Some(format!("Bearer {k}"));
    }
    match t {
        "none" => None,
        "garbage" => Some("Bearer not-a-key-at-all".to_string()),
        "adm" => Some(format!("Bearer {ADMIN}")),
        k => Some(format!("Bearer tenant-key-{k}-0123456789")),
    }
}
fn key_value(k: &str) -> String {
    format!("tenant-key-{k}-0123456789")
}
fn scope_path(s: &str) -> String {
    match s {
        "root" => "/".to_string(),
        "missing" => "/nosuchdb".to_string(),
        "bad" => "/%2E%2E".to_string(),
        d => format!("/{d}"),
    }
}

struct Reply {
    status: StatusCode,
    ctype: String,
    body: Vec<u8>,
    json: Value,
}

async fn send(app: &Router, path: &str, method: &str, params: Value, token: Option<String>, cbor: bool) -> Reply {
    let req = if params.is_null() { json!({"method": method}) } else { json!({"method": method, "params": params}) };
    let (ct, body) = if cbor {
        let mut b = Vec::new();
        cbor2::ser::to_writer(&req, &mut b).unwrap();
        ("application/cbor", b)
    } else {
        ("application/json", serde_json::to_vec(&req).unwrap())
    };
    let mut builder = Request::post(path).header(header::CONTENT_TYPE, ct);
    if let Some(t) = token {
        builder = builder.header(header::AUTHORIZATION, t);
    }
    let resp = app.clone().oneshot(builder.body(Body::from(body)).unwrap()).await.unwrap();
    let status = resp.status();
    let ctype = resp.headers().get(header::CONTENT_TYPE).map(|v| v.to_str().unwrap_or("").to_string()).unwrap_or_default();
    let bytes = resp.into_body().collect().await.unwrap().to_bytes().to_vec();
    let json: Value = if ctype.contains("cbor") {
        cbor2::de::from_reader(&bytes[..]).unwrap_or(Value::Null)
    } else {
        serde_json::from_slice(&bytes).unwrap_or(Value::Null)
    };
    Reply { status, ctype, body: bytes, json }
}

async fn admin(app: &Router, path: &str, method: &str, params: Value) -> Reply {
    send(app, path, method, params, token_value("adm"), true).await
}

fn res_class(r: &Reply) -> &'static str {
    match r.status.as_u16() {
        200 => "ok",
        404 => "notfound",
        409 => "conflict",
        401 => "401",
        _ => "other",
    }
}

/// class of a matrix reply
fn classify(r: &Reply) -> String {
    if r.status == StatusCode::UNAUTHORIZED {
        return "401".into();
    }
    let code = r.json["error"]["code"].as_str().unwrap_or("");
    if code == "method_not_found" {
        return "nomethod".into();
    }
    if r.status == StatusCode::NOT_FOUND && r.json["error"]["message"].as_str().unwrap_or("").starts_with("database ") {
        return "nodb".into();
    }
    if r.status.as_u16() == 400 && r.json["error"]["message"].as_str().unwrap_or("").contains("invalid database name") {
        return "nodb".into();
    }
    "reached".into()
}

async fn apply_op(app: &Router, op: &Value) -> &'static str {
    let d = op[1].as_str().unwrap_or("");
    let r = match op[0].as_str().unwrap() {
        "create" => {
            let k = op[2].as_str().unwrap_or("");
            let mut p = json!({"name": d});
            if !k.is_empty() {
                p["api_key"] = json!(key_value(k));
            }
            admin(app, "/", "db.create", p).await
        }
        "open" => admin(app, "/", "db.open", json!({"name": d})).await,
        "close" => admin(app, "/", "db.close", json!({"name": d})).await,
        "setkey" => admin(app, "/", "db.set_api_key", json!({"name": d, "api_key": key_value(op[2].as_str().unwrap())})).await,
        "removekey" => admin(app, "/", "db.remove_api_key", json!({"name": d})).await,
        "genkey" => {
            // no api_key: the server generates one and returns it
            let r = admin(app, "/", "db.set_api_key", json!({"name": d})).await;
            if let Some(k) = r.json["result"]["api_key"].as_str() {
                GENERATED.lock().unwrap().insert(format!("g{d}"), k.to_string());
            }
            r
        }
        o => panic!("op {o}"),
    };
    res_class(&r)
}

async fn snapshot(app: &Router) -> Value {
    let list = admin(app, "/", "db.list", Value::Null).await;
    let mut names: Vec<String> = list.json["result"].as_array().map(|a| a.iter().map(|x| x.as_str().unwrap().to_string()).collect()).unwrap_or_default();
    names.sort();
    let mut per = BTreeMap::new();
    for n in &names {
        let md = admin(app, &format!("/{n}"), "db.metadata", Value::Null).await;
        let ext = admin(app, &format!("/{n}"), "db.get_extension", json!({"key": "marker"})).await;
        let cols = admin(app, &format!("/{n}"), "collection.list", Value::Null).await;
        per.insert(n.clone(), json!({"read_only": md.json["result"]["read_only"], "marker": ext.json["result"],
                                     "collections": cols.json["result"]}));
    }
    json!({"list": names, "dbs": per})
}

#[derive(Default)]
struct Tally {
    histories: u64,
    requests: u64,
    mismatches: u64,
}

async fn run_case(case: &Value, variant: &str, full: bool, tally: &mut Tally, out: &mut Vec<Value>) {
    let store: Arc<dyn ObjectStore> = Arc::new(InMemory::new());
    GENERATED.lock().unwrap().clear();
    let (mut state, mut app) = connect(store.clone()).await;
    let mut report = |what: String, detail: Value, tally: &mut Tally| {
        tally.mismatches += 1;
        if out.len() < 25 {
            out.push(json!({"mismatch": what, "variant": variant, "hist": case["hist"], "detail": detail}));
        }
    };
    let hist = case["hist"].as_array().unwrap();
    for (i, op) in hist.iter().enumerate() {
        let got = apply_op(&app, op).await;
        let want = case["results"][i].as_str().unwrap();
        if got != want {
            report(format!("history op {i} returned {got}, expected {want}"), op.clone(), tally);
        }
        if variant == "restart_each" {
            state.shutdown().await;
            let (s, a) = connect(store.clone()).await;
            state = s;
            app = a;
        }
    }
    if variant == "restart_end" {
        state.shutdown().await;
        let (s, a) = connect(store.clone()).await;
        state = s;
        app = a;
    }
    // markers for the confinement snapshot
    for d in case["open"].as_array().unwrap() {
        let d = d.as_str().unwrap();
        admin(&app, &format!("/{d}"), "db.save_extension", json!({"key": "marker", "value": d})).await;
    }
    admin(&app, &format!("/{PRIMARY}"), "db.save_extension", json!({"key": "marker", "value": PRIMARY})).await;
    let before = snapshot(&app).await;
    let scopes = ["root", PRIMARY, "a", "b", "missing", "bad"];
    let tokens = ["none", "garbage", "adm", "k1", "k2", "k3", "ga", "gb"];
    let mut bodies401: BTreeMap<bool, BTreeSet<Vec<u8>>> = BTreeMap::new();
    let mut methods: Vec<(&str, usize)> = Vec::new(); // (name, kind index: 0 root, 1 db, 2 both, 3 unknown)
    if full {
        methods.extend(ROOT_METHODS.iter().map(|m| (*m, 0)));
        methods.extend(DB_METHODS.iter().map(|m| (*m, 1)));
        methods.push(("info", 2));
        methods.extend(UNKNOWN_METHODS.iter().map(|m| (*m, 3)));
    } else {
        methods.extend([("db.list", 0), ("db.set_api_key", 0), ("db.metadata", 1), ("db.save_extension", 1), ("doc.get", 1),
                        ("info", 2), ("db.drop", 3)]);
    }
    for (si, scope) in scopes.iter().enumerate() {
        for (ti, tok) in tokens.iter().enumerate() {
            // the admin key is not what is being tested: keep its root mutations harmless (empty params)
            for (m, ki) in &methods {
                for cbor in [true, false] {
                    if *tok == "adm" && (*scope != "root" && (m.contains("delete") || m.contains("read_only"))) {
                        continue;
                    }
                    let params = if *tok == "adm" { json!({}) } else {
                        // a non-admin caller tries to address ANOTHER database / server state through the parameters
                        json!({"name": "b", "db": "b", "database": "b", "key": "marker", "value": "tampered", "collection": "c",
                               "api_key": "tenant-key-k3-0123456789", "read_only": true, "_id": 1})
                    };
                    let r = send(&app, &scope_path(scope), m, params, token_value(tok), cbor).await;
                    tally.requests += 1;
                    let got = classify(&r);
                    let want = case["classes"][si][ti][*ki].as_str().unwrap();
                    if got != want {
                        report(format!("class {got}, expected {want}"),
                               json!({"scope": scope, "token": tok, "method": m, "cbor": cbor, "status": r.status.as_u16(), "body": r.json}), tally);
                    }
                    if got == "401" {
                        bodies401.entry(cbor).or_default().insert(r.body.clone());
                        if r.ctype != (if cbor { "application/cbor" } else { "application/json" }) {
                            report("401 content type".into(), json!({"ctype": r.ctype}), tally);
                        }
                    }
                    if *m == "info" && got == "reached" {
                        let mut dbs: Vec<String> = r.json["result"]["databases"].as_array().map(|a| a.iter().map(|x| x.as_str().unwrap().to_string()).collect()).unwrap_or_default();
                        dbs.sort();
                        let mut want: Vec<String> = case["info"][si][ti].as_array().unwrap().iter().map(|x| x.as_str().unwrap().to_string()).collect();
                        want.sort();
                        let primary_shown = !r.json["result"]["primary_db"].is_null();
                        if dbs != want || (primary_shown != (*tok == "adm")) {
                            report("info reveals other databases".into(), json!({"scope": scope, "token": tok, "got": dbs, "want": want, "primary_shown": primary_shown}), tally);
                        }
                    }
                }
            }
        }
    }
    for (cbor, set) in &bodies401 {
        if set.len() > 1 {
            let v: Vec<String> = set.iter().map(|b| String::from_utf8_lossy(b).chars().take(200).collect()).collect();
            report("401 replies are not identical".into(), json!({"cbor": cbor, "distinct": v}), tally);
        }
    }
    // confinement: nothing a key holder sent changed another database or server-level state.  The holder of the key
    // bound to d may have changed d's own marker / read_only through the parameters above: compare everything else.
    let after = snapshot(&app).await;
    let bound = case["bound"].as_object().unwrap();
    let own: BTreeSet<String> = bound.iter().filter(|(_, k)| !k.as_str().unwrap().is_empty()).map(|(d, _)| d.clone()).collect();
    let strip = |v: &Value| {
        let mut v = v.clone();
        for d in &own {
            if let Some(o) = v["dbs"].as_object_mut() {
                o.remove(d);
            }
        }
        v
    };
    if strip(&before) != strip(&after) {
        report("a non-admin request changed another database or server-level state".into(), json!({"before": before, "after": after}), tally);
    }
    tally.histories += 1;
    state.shutdown().await;
    // a restart WITHOUT an admin key (every caller would be the admin): refused while any key is bound
    if variant == "plain" {
        let mut o = options();
        o.api_key = None;
        let started = AppState::connect(store.clone(), o).await;
        let got = if started.is_ok() { "ok" } else { "refused" };
        let want = case["keyless"].as_str().unwrap();
        if got != want {
            report(format!("keyless start {got}, expected {want}"), json!({"bound": case["bound"]}), tally);
        }
        if let Ok(s) = started {
            s.shutdown().await;
        }
    }
}

async fn run_matrix(path: &str, mode: &str) {
    let f = std::io::BufReader::new(std::fs::File::open(path).unwrap());
    let mut tally = Tally::default();
    let mut out = Vec::new();
    for line in f.lines() {
        let line = line.unwrap();
        if line.trim().is_empty() {
            continue;
        }
        let case: Value = serde_json::from_str(&line).unwrap();
        let leaf = case["leaf"].as_bool().unwrap_or(false);
        let full = mode == "full" || leaf;
        for variant in ["plain", "restart_end", "restart_each"] {
            if variant == "restart_each" && !leaf && mode != "full" {
                continue;
            }
            run_case(&case, variant, full && variant != "restart_each", &mut tally, &mut out).await;
        }
    }
    for m in &out {
        println!("{}", m);
    }
    println!("{}", json!({"summary": true, "histories": tally.histories, "requests": tally.requests, "mismatches": tally.mismatches}));
}

// ---------------------------------------------------------------------------------------------
// reads never write

fn articles() -> Value {
    json!({
        "config": {"name": "c", "description": "c"},
        "schema": {"fields": [
            {"name": "_id", "description": "", "type": "U64", "unique": true, "index": 0},
            {"name": "title", "description": "t", "type": "Text", "unique": false, "index": 1},
            {"name": "score", "description": "s", "type": {"Option": "U64"}, "unique": false, "index": 2}
        ]},
        "btree_indexes": [["score"]],
        "bm25_indexes": ["title"]
    })
}

async fn run_reads() {
    let mut rows = Vec::new();
    let mut bad = 0u64;
    // lifecycle states of the addressed database
    for lifecycle in ["fresh", "populated", "unflushed", "read_only", "restarted", "unclean"] {
        let (ts, handle) = TraceStore::wrap(Arc::new(InMemory::new()));
        handle.keep_payload(false);
        let store: Arc<dyn ObjectStore> = ts;
        let (mut state, mut app) = connect(store.clone()).await;
        admin(&app, "/", "db.create", json!({"name": "a"})).await;
        let mut create_info = Value::Null;
        if lifecycle != "fresh" {
            let r = admin(&app, "/a", "collection.create", articles()).await;
            create_info = json!({"status": r.status.as_u16(), "body": r.json});
            assert_eq!(r.status.as_u16(), 200, "collection.create failed: {create_info}");
            for i in 0..5 {
                admin(&app, "/a", "doc.add", json!({"collection": "c", "doc": {"title": format!("hello world {i}"), "score": i}})).await;
            }
            if lifecycle != "unflushed" && lifecycle != "unclean" {
                admin(&app, "/a", "db.flush", Value::Null).await;
            }
        }
        match lifecycle {
            "read_only" => {
                admin(&app, "/a", "db.set_read_only", json!({"read_only": true})).await;
            }
            "restarted" => {
                state.shutdown().await;
                let (s, a) = connect(store.clone()).await;
                state = s;
                app = a;
            }
            "unclean" => {
                // the process dies: no shutdown, no flush; a new process opens the same store
                std::mem::forget(state);
                let (s, a) = connect(store.clone()).await;
                state = s;
                app = a;
            }
            _ => {}
        }
        tokio::time::sleep(Duration::from_millis(30)).await;
        let reads: Vec<(&str, &str, Value)> = vec![
            ("/", "info", Value::Null), ("/", "db.list", Value::Null), ("/a", "info", Value::Null),
            ("/a", "db.metadata", Value::Null), ("/a", "db.stats", Value::Null), ("/a", "db.get_extension", json!({"key": "x"})),
            ("/a", "collection.list", Value::Null), ("/a", "collection.metadata", json!({"collection": "c"})),
            ("/a", "collection.stats", json!({"collection": "c"})), ("/a", "collection.get_extension", json!({"collection": "c", "key": "x"})),
            ("/a", "doc.get", json!({"collection": "c", "_id": 1})), ("/a", "doc.get_many", json!({"collection": "c", "_ids": [1, 2, 99]})),
            ("/a", "doc.exists", json!({"collection": "c", "_id": 1})), ("/a", "doc.count", json!({"collection": "c"})),
            ("/a", "doc.search", json!({"collection": "c", "query": {"search": {"text": "hello"}, "limit": 3}})),
            ("/a", "doc.search_ids", json!({"collection": "c", "query": {"search": {"text": "hello"}, "limit": 3}})),
            ("/a", "doc.query_ids", json!({"collection": "c", "filter": {"Field": ["score", {"Ge": 1}]}, "limit": 3})),
            ("/a", "doc.query_last_ids", json!({"collection": "c", "filter": {"Field": ["score", {"Ge": 1}]}, "limit": 3})),
        ];
        for (path, method, params) in reads {
            for cbor in [true, false] {
                let before = handle.mutation_count();
                let r = send(&app, path, method, params.clone(), token_value("adm"), cbor).await;
                // detached work started by the request gets a moment to show itself
                tokio::time::sleep(Duration::from_millis(15)).await;
                let writes = handle.mutation_count() - before;
                if writes > 0 {
                    bad += 1;
                }
                rows.push(json!({"lifecycle": lifecycle, "method": method, "cbor": cbor, "status": r.status.as_u16(), "writes": writes,
                                 "paths": handle.events().iter().filter(|e| e.op.is_mutation() && e.mutation > before)
                                     .map(|e| format!("{} {}", e.op.name(), e.path)).take(6).collect::<Vec<_>>()}));
            }
        }
        let _ = create_info;
        state.shutdown().await;
    }
    for r in rows.iter().filter(|r| r["writes"].as_u64().unwrap() > 0) {
        println!("{}", json!({"read_wrote": r}));
    }
    let statuses: BTreeMap<String, u64> = rows.iter().fold(BTreeMap::new(), |mut m, r| {
        *m.entry(r["status"].to_string()).or_default() += 1;
        m
    });
    println!("{}", json!({"summary": true, "calls": rows.len(), "wrote": bad, "statuses": statuses}));
}

fn main() {
    let args: Vec<String> = std::env::args().collect();
    let rt = tokio::runtime::Builder::new_multi_thread().worker_threads(2).enable_all().build().unwrap();
    match args[1].as_str() {
        "matrix" => rt.block_on(run_matrix(&args[2], &args[3])),
        "reads" => rt.block_on(run_reads()),
        m => panic!("mode {m}"),
    }
}
