//! C20 replay driver (direction R).
//!
//! usage: drive_belief agg  <cases.ndjson> <out.json>
//!        drive_belief full <cases.ndjson> <out.json>
//! cases.ndjson: first line {"types":[...]} (the assertion types printed by MC_Belief.tla),
//! then one case per line as printed by TLC.
//!
//! agg : every distinct permutation of every multiset goes through the real corroboration
//!       aggregation (hook `verif_aggregate`), group count and score vs the exact fraction.
//! full: every distinct permutation of every multiset is RECORDED through the real parser and
//!       executor (CREATE ASSERTION / RETRACT / SUPERSEDE, validity windows, modes, evidence links,
//!       a functional rival value) and projected with `BELIEF` under the baseline and the forecast
//!       policy at a fixed world time; status, group counts, side sizes, ledger of exclusions and
//!       the policy identity must equal the specification's for every recording order.

use serde_json::{Value, json};
use std::io::{BufRead, BufReader};
use verif_harness::nexus::*;

const AT: &str = "2026-01-01T00:00:00Z";

fn distinct_permutations(ms: &[u64]) -> Vec<Vec<u64>> {
    // Heap-free simple recursive generation with de-duplication at each level
    fn rec(rest: &mut Vec<u64>, cur: &mut Vec<u64>, out: &mut Vec<Vec<u64>>) {
        if rest.is_empty() {
            out.push(cur.clone());
            return;
        }
        let mut seen = std::collections::BTreeSet::new();
        for i in 0..rest.len() {
            if !seen.insert(rest[i]) {
                continue;
            }
            let x = rest.remove(i);
            cur.push(x);
            rec(rest, cur, out);
            cur.pop();
            rest.insert(i, x);
        }
    }
    let mut out = Vec::new();
    rec(&mut ms.to_vec(), &mut Vec::new(), &mut out);
    out
}

fn u64s(v: &Value) -> Vec<u64> {
    v.as_array().unwrap().iter().map(|x| x.as_u64().unwrap()).collect()
}

fn run_agg(types: &[Value], path: &str) -> Value {
    let f = BufReader::new(std::fs::File::open(path).unwrap());
    let mut cases = 0u64;
    let mut evals = 0u64;
    let mut bridging = 0u64;
    let mut disagreements = Vec::new();
    let mut n_dis = 0u64;
    let mut samples = Vec::new();
    for line in f.lines().skip(1) {
        let line = line.unwrap();
        if line.is_empty() {
            continue;
        }
        let case: Value = serde_json::from_str(&line).unwrap();
        let ms = u64s(&case["ms"]);
        let groups = case["groups"].as_u64().unwrap() as usize;
        let num = case["score"][0].as_f64().unwrap();
        let den = case["score"][1].as_f64().unwrap();
        let expected = if ms.is_empty() { 0.0 } else { num / den };
        cases += 1;
        if groups < ms.len() && groups > 0 {
            bridging += 1;
        }
        if samples.len() < 3 && cases % 4001 == 7 {
            samples.push(case.clone());
        }
        for perm in distinct_permutations(&ms) {
            let side: Vec<(String, Vec<String>, f64)> = perm
                .iter()
                .map(|t| {
                    let ty = &types[*t as usize - 1];
                    (
                        format!("actor{}", ty["actor"]),
                        u64s(&ty["ev"]).iter().map(|e| format!("E-{e}")).collect(),
                        ty["conf"].as_f64().unwrap() / 10.0,
                    )
                })
                .collect();
            let (score, got_groups) = anda_cognitive_nexus::projection::verif_aggregate(&side);
            evals += 1;
            if got_groups != groups || (score - expected).abs() > 1e-9 {
                n_dis += 1;
                if disagreements.len() < 200 {
                    disagreements.push(json!({"ms": ms, "order": perm, "expected": {"groups": groups, "score": expected},
                        "observed": {"groups": got_groups, "score": score}}));
                }
            }
        }
    }
    json!({"family": "agg", "cases": cases, "evaluations": evals, "nontrivial": bridging,
           "n_disagree": n_dis, "disagreements": disagreements, "samples": samples})
}

struct World {
    nexus: anda_cognitive_nexus::CognitiveNexus,
    actors: Vec<String>,
    evidence: Vec<String>,
    healthy: String,
    degraded: String,
    counter: u64,
}

async fn world() -> World {
    let nexus = fresh("belief").await;
    let r = run(
        &nexus,
        r#"MUTATE {
            CREATE CONCEPT ?a1 { TYPE "Person" NAME "Actor1" }
            CREATE CONCEPT ?a2 { TYPE "Person" NAME "Actor2" }
            CREATE CONCEPT ?a3 { TYPE "Person" NAME "Actor3" }
            CREATE CONCEPT ?healthy { TYPE "Status" NAME "healthy" }
            CREATE CONCEPT ?degraded { TYPE "Status" NAME "degraded" }
            CREATE EVIDENCE ?e1 { SET FIELDS {evidence_class: "message", payload: "one"} }
            CREATE EVIDENCE ?e2 { SET FIELDS {evidence_class: "message", payload: "two"} }
            CREATE EVIDENCE ?e3 { SET FIELDS {evidence_class: "message", payload: "three"} }
        }"#,
        json!({}),
    )
    .await;
    assert!(succeeded(&r), "world setup failed: {:?}", r.error);
    let res = r.first_result().cloned().unwrap();
    let h = |n: &str| handle_id(&res, n).unwrap_or_else(|| panic!("no handle {n} in {res}"));
    World {
        actors: vec![h("a1"), h("a2"), h("a3")],
        evidence: vec![h("e1"), h("e2"), h("e3")],
        healthy: h("healthy"),
        degraded: h("degraded"),
        nexus,
        counter: 0,
    }
}

fn window_fields(win: &str) -> String {
    match win {
        "always" => String::new(),
        "ended" => r#", valid_time: {until: "2025-06-01T00:00:00Z"}"#.into(),
        "ends_now" => format!(r#", valid_time: {{from: "2025-01-01T00:00:00Z", until: "{AT}"}}"#),
        "future" => r#", valid_time: {from: "2026-06-01T00:00:00Z"}"#.into(),
        "starts_now" => format!(r#", valid_time: {{from: "{AT}"}}"#),
        "current" => r#", valid_time: {from: "2025-01-01T00:00:00Z", until: "2027-01-01T00:00:00Z"}"#.into(),
        other => panic!("window {other}"),
    }
}

/// Records one permutation of a case on a fresh subject and projects the target proposition.
async fn record_and_project(w: &mut World, types: &[Value], order: &[u64]) -> Result<(Value, Value, u64), String> {
    w.counter += 1;
    let name = format!("svc{}", w.counter);
    let r = run(
        &w.nexus,
        r#"MUTATE {
            CREATE CONCEPT ?svc { TYPE "Service" NAME :name }
            ENSURE PROPOSITION ?p1 (?svc, "status", :healthy)
            ENSURE PROPOSITION ?p2 (?svc, "status", :degraded)
        }"#,
        json!({"name": name, "healthy": w.healthy, "degraded": w.degraded}),
    )
    .await;
    if !succeeded(&r) {
        return Err(format!("subject setup: {:?}", r.error));
    }
    let res = r.first_result().cloned().unwrap();
    let p1 = handle_id(&res, "p1").ok_or("p1")?;
    let p2 = handle_id(&res, "p2").ok_or("p2")?;
    // extra exclusions the realisation adds to the ledger (the replacement of a superseded claim)
    let mut extra_hypothetical = 0u64;
    for t in order {
        let ty = &types[*t as usize - 1];
        let prop = if ty["about"] == "target" { &p1 } else { &p2 };
        let actor = &w.actors[ty["actor"].as_u64().unwrap() as usize - 1];
        let conf = ty["conf"].as_i64().unwrap();
        let conf_field = if conf < 0 {
            String::new()
        } else {
            format!(", confidence: {}", conf as f64 / 10.0)
        };
        let ev: Vec<u64> = u64s(&ty["ev"]);
        let structural = if ev.is_empty() {
            String::new()
        } else {
            let links: Vec<String> = ev
                .iter()
                .map(|e| format!(r#"("evidence", "{}") {{role: "support"}}"#, w.evidence[*e as usize - 1]))
                .collect();
            format!("SET STRUCTURAL {{ {} }}", links.join(" "))
        };
        let cmd = format!(
            r#"MUTATE {{
                CREATE ASSERTION ?a {{
                    SET FIELDS {{ proposition: :p, asserted_by: :actor, stance: "{}", mode: "{}"{}{} }}
                    {}
                }}
            }}"#,
            ty["stance"].as_str().unwrap(),
            ty["mode"].as_str().unwrap(),
            conf_field,
            window_fields(ty["win"].as_str().unwrap()),
            structural
        );
        let r = run(&w.nexus, &cmd, json!({"p": prop, "actor": actor})).await;
        if !succeeded(&r) {
            return Err(format!("create assertion {ty}: {:?}", r.error));
        }
        let a = handle_id(&r.first_result().cloned().unwrap(), "a").ok_or("a")?;
        match ty["life"].as_str().unwrap() {
            "active" => {}
            "retracted" => {
                let r = run(&w.nexus, "RETRACT ASSERTION :a", json!({"a": a})).await;
                if !succeeded(&r) {
                    return Err(format!("retract: {:?}", r.error));
                }
            }
            "superseded" => {
                // the replacement stays inside the lineage (same proposition and actor) but is a
                // hypothetical, so it is itself excluded by both policies
                let cmd = r#"MUTATE {
                    CREATE ASSERTION ?new {
                        SET FIELDS { proposition: :p, asserted_by: :actor, stance: "support", mode: "hypothetical", confidence: 1.0 }
                    }
                    SUPERSEDE ASSERTION :old BY ?new
                }"#;
                let r = run(&w.nexus, cmd, json!({"p": prop, "actor": actor, "old": a})).await;
                if !succeeded(&r) {
                    return Err(format!("supersede: {:?}", r.error));
                }
                if ty["about"] == "target" {
                    extra_hypothetical += 1;
                }
            }
            other => return Err(format!("life {other}")),
        }
    }
    let q = |extra: &str| {
        format!(
            r#"FIND(?b) WHERE {{
                 ?svc CONCEPT {{name: :name}}
                 ?v CONCEPT {{name: "healthy"}}
                 ?p PROPOSITION (?svc, "status", ?v)
                 ?b BELIEF (?p)
               }} FOR TIME "{AT}"{extra}"#
        )
    };
    let mut out = Vec::new();
    for extra in ["", r#" WITH EPISTEMIC {policy: "forecast"}"#] {
        let r = run(&w.nexus, &q(extra), json!({"name": name})).await;
        if !succeeded(&r) {
            return Err(format!("projection: {:?}", r.error));
        }
        let res = r.first_result().cloned().unwrap_or(Value::Null);
        let b = res.as_array().and_then(|a| a.first().cloned()).unwrap_or(Value::Null);
        out.push(b);
    }
    let forecast = out.pop().unwrap();
    let baseline = out.pop().unwrap();
    Ok((baseline, forecast, extra_hypothetical))
}

fn compare(expected: &Value, got: &Value, extra_hyp: u64, policy_id: &str) -> Vec<String> {
    let mut diffs = Vec::new();
    let mut chk = |what: &str, e: Value, g: Value| {
        if e != g {
            diffs.push(format!("{what}: expected {e} observed {g}"));
        }
    };
    chk("status", expected["status"].clone(), got["status"].clone());
    chk("support_groups", expected["support_groups"].clone(), got["support"]["independent_groups"].clone());
    chk("opposition_groups", expected["opposition_groups"].clone(), got["opposition"]["independent_groups"].clone());
    chk("n_supporting", expected["n_supporting"].clone(), json!(got["support"]["assertion_ids"].as_array().map(|a| a.len()).unwrap_or(99)));
    chk("n_opposing", expected["n_opposing"].clone(), json!(got["opposition"]["assertion_ids"].as_array().map(|a| a.len()).unwrap_or(99)));
    chk("n_uncertain", expected["n_uncertain"].clone(), json!(got["explanation"]["uncertain_assertions"].as_array().map(|a| a.len()).unwrap_or(99)));
    chk("policy", json!(policy_id), got["policy"]["id"].clone());
    for (side, key) in [("support", "support"), ("opposition", "opposition")] {
        let e = expected[side][0].as_f64().unwrap() / expected[side][1].as_f64().unwrap();
        let g = got[key]["score"].as_f64().unwrap_or(-1.0);
        if (e - g).abs() > 1e-9 {
            diffs.push(format!("{side} score: expected {e} observed {g}"));
        }
        if !(0.0..=1.0).contains(&g) {
            diffs.push(format!("{side} score out of [0,1]: {g}"));
        }
    }
    // ledger of exclusions, as a multiset of reasons
    let mut got_reasons = std::collections::BTreeMap::<String, u64>::new();
    if let Some(ex) = got["explanation"]["excluded"].as_array() {
        for x in ex {
            *got_reasons.entry(x["reason"].as_str().unwrap_or("?").to_string()).or_default() += 1;
        }
    }
    let mut exp_reasons = std::collections::BTreeMap::<String, u64>::new();
    for (k, v) in expected["excluded"].as_object().unwrap() {
        let mut n = v.as_u64().unwrap();
        if k == "hypothetical_not_requested" {
            n += extra_hyp;
        }
        if n > 0 {
            exp_reasons.insert(k.clone(), n);
        }
    }
    if got_reasons != exp_reasons {
        diffs.push(format!("excluded: expected {exp_reasons:?} observed {got_reasons:?}"));
    }
    diffs
}

async fn run_full(types: &[Value], lines: Vec<String>) -> Value {
    let mut w = world().await;
    let mut cases = 0u64;
    let mut evals = 0u64;
    let mut nontrivial = 0u64;
    let mut disagreements = Vec::new();
    let mut n_dis = 0u64;
    let mut samples = Vec::new();
    // the support score of every multiset, as observed on the real code (for the known finding)
    let mut observed_support = std::collections::BTreeMap::<Vec<u64>, f64>::new();
    for line in lines {
        if line.is_empty() {
            continue;
        }
        let case: Value = serde_json::from_str(&line).unwrap();
        let ms = u64s(&case["ms"]);
        cases += 1;
        if case["baseline"]["status"] != "insufficient" {
            nontrivial += 1;
        }
        if samples.len() < 3 && cases % 401 == 5 {
            samples.push(case.clone());
        }
        for perm in distinct_permutations(&ms) {
            evals += 1;
            if evals % 50 == 0 {
                // the cost of a command grows with the size of the store: start a new one regularly
                w = world().await;
            }
            match record_and_project(&mut w, types, &perm).await {
                Ok((baseline, forecast, extra)) => {
                    let mut diffs = compare(&case["baseline"], &baseline, extra, "kip:policy:baseline");
                    for d in compare(&case["forecast"], &forecast, extra, "kip:policy:forecast") {
                        diffs.push(format!("forecast: {d}"));
                    }
                    observed_support
                        .insert(ms.clone(), baseline["support"]["score"].as_f64().unwrap_or(-1.0));
                    if !diffs.is_empty() {
                        n_dis += 1;
                        if disagreements.len() < 100 {
                            disagreements.push(json!({"ms": ms, "order": perm, "diffs": diffs, "case": case}));
                        }
                    }
                }
                Err(e) => {
                    n_dis += 1;
                    if disagreements.len() < 100 {
                        disagreements.push(json!({"ms": ms, "order": perm, "diffs": [format!("harness could not record the case: {e}")], "case": case}));
                    }
                }
            }
        }
    }
    let support_map: Vec<Value> = observed_support.iter().map(|(k, v)| json!([k, v])).collect();
    json!({"family": "full", "cases": cases, "evaluations": evals, "nontrivial": nontrivial,
           "n_disagree": n_dis, "disagreements": disagreements, "samples": samples,
           "observed_support": support_map})
}

/// known finding: a weaker assertion that bridges two groups lowers the support score
fn bridge_lowers(types: &[Value], observed_support: &std::collections::BTreeMap<Vec<u64>, f64>) -> Vec<Value> {
    let mut bridge_lowers = Vec::new();
    for (ms, s) in observed_support {
        for i in 0..ms.len() {
            let mut sub = ms.clone();
            let x = sub.remove(i);
            if let Some(s0) = observed_support.get(&sub)
                && *s < *s0 - 1e-12
                && types[x as usize - 1]["stance"] == "support"
                && bridge_lowers.len() < 5
            {
                bridge_lowers.push(json!({"without": sub, "with": ms, "added_type": x, "support_before": s0, "support_after": s}));
            }
        }
    }
    bridge_lowers
}

fn run_full_parallel(types: Vec<Value>, path: &str, threads: usize) -> Value {
    let f = BufReader::new(std::fs::File::open(path).unwrap());
    let lines: Vec<String> = f.lines().skip(1).map(|l| l.unwrap()).collect();
    let mut chunks: Vec<Vec<String>> = vec![Vec::new(); threads];
    for (i, l) in lines.into_iter().enumerate() {
        chunks[i % threads].push(l);
    }
    let handles: Vec<_> = chunks
        .into_iter()
        .map(|chunk| {
            let types = types.clone();
            std::thread::spawn(move || {
                tokio::runtime::Builder::new_current_thread()
                    .enable_all()
                    .build()
                    .unwrap()
                    .block_on(run_full(&types, chunk))
            })
        })
        .collect();
    let mut total = json!({"family": "full", "cases": 0, "evaluations": 0, "nontrivial": 0, "n_disagree": 0,
                           "disagreements": [], "samples": []});
    let mut observed = std::collections::BTreeMap::<Vec<u64>, f64>::new();
    for h in handles {
        let part = h.join().expect("worker panicked");
        for k in ["cases", "evaluations", "nontrivial", "n_disagree"] {
            total[k] = json!(total[k].as_u64().unwrap() + part[k].as_u64().unwrap());
        }
        for k in ["disagreements", "samples"] {
            let mut v = total[k].as_array().unwrap().clone();
            v.extend(part[k].as_array().unwrap().iter().cloned());
            v.truncate(if k == "samples" { 3 } else { 100 });
            total[k] = json!(v);
        }
        for kv in part["observed_support"].as_array().unwrap() {
            observed.insert(u64s(&kv[0]), kv[1].as_f64().unwrap());
        }
    }
    total["bridge_lowers_score"] = json!(bridge_lowers(&types, &observed));
    total
}

fn main() {
    let args: Vec<String> = std::env::args().collect();
    let head: Value = {
        let f = BufReader::new(std::fs::File::open(&args[2]).unwrap());
        serde_json::from_str(&f.lines().next().unwrap().unwrap()).unwrap()
    };
    let types: Vec<Value> = head["types"].as_array().unwrap().clone();
    let out = match args[1].as_str() {
        "agg" => run_agg(&types, &args[2]),
        "full" => run_full_parallel(types.clone(), &args[2], std::env::var("VERIF_THREADS").ok().and_then(|t| t.parse().ok()).unwrap_or(12)),
        other => panic!("mode {other}"),
    };
    println!(
        "drive_belief {}: cases={} evaluations={} disagreements={}",
        args[1], out["cases"], out["evaluations"], out["n_disagree"]
    );
    std::fs::write(&args[3], out.to_string()).unwrap();
}
