//! C01/C02/C04 driver (direction T): runs workloads on a real collection over a
//! TraceStore, with a power loss after every k-th backend mutation (and a
//! nested power loss during recovery), and writes one NDJSON trace per run for
//! validation against spec/CollectionTrace.tla.
//!
//! usage: drive_collection <workloads.json> <traces.ndjson> <stats.json> <mode>
//!   mode = clean | crash | nested | fault
//!   fault: a storage fault (error returned; applied or not) on every k-th backend mutation of the
//!   workload; a poisoned handle is probed (it must refuse and write nothing), then the collection is
//!   reopened through the SAME database and the workload continues
//! workloads.json: [{"init_idx":[..],"wanted":[..],"rm":[..],"ops":[..]}, ...]

use anda_db::{collection::Collection, database::AndaDB, error::DBError};
use object_store::memory::InMemory;
use serde_json::{Value, json};
use std::{io::Write, sync::Arc};
use verif_harness::{coll::*, tracestore::{Fault, TraceStore}};

const DEFAULT_MAX_ID: u64 = 12;

fn strs(v: &Value) -> Vec<String> {
    v.as_array()
        .map(|a| a.iter().map(|x| x.as_str().unwrap().to_string()).collect())
        .unwrap_or_default()
}

struct Run {
    store: Arc<TraceStore>,
    tr: Tracer,
    db: Option<AndaDB>,
    col: Option<Arc<Collection>>,
}

async fn open_col(
    store: Arc<TraceStore>,
    tr: &Tracer,
    wanted: Vec<String>,
    rm: Vec<String>,
    traced: bool,
) -> Result<(AndaDB, Arc<Collection>), DBError> {
    let db = connect(store).await?;
    let col = open_in(&db, tr, wanted, rm, traced).await?;
    Ok((db, col))
}

async fn open_in(
    db: &AndaDB,
    tr: &Tracer,
    wanted: Vec<String>,
    rm: Vec<String>,
    traced: bool,
) -> Result<Arc<Collection>, DBError> {
    let tr2 = tr.clone();
    let col = db
        .open_or_create_collection(CDoc::schema().unwrap(), col_config(), async move |c| {
            if traced {
                tr2.emit(json!({"e": "cb_begin"}));
            }
            for name in &wanted {
                create_index(c, name).await?;
            }
            for name in &rm {
                remove_index(c, name).await?;
            }
            if traced {
                tr2.emit(json!({"e": "cb_end"}));
            }
            Ok(())
        })
        .await?;
    Ok(col)
}

/// Executes one workload; returns (trace lines, mutations of the traced part, recovery mutations, crashed?)
async fn run_workload(w: &Value, crash_at: Option<u64>, nested_at: Option<u64>) -> (Vec<String>, u64, u64, bool) {
    run_workload_f(w, crash_at, nested_at, None).await
}

async fn run_workload_f(
    w: &Value,
    crash_at: Option<u64>,
    nested_at: Option<u64>,
    fault: Option<(u64, Fault)>,
) -> (Vec<String>, u64, u64, bool) {
    let (store, handle) = TraceStore::wrap(Arc::new(InMemory::new()));
    let tr = Tracer::new(handle.clone());
    let init_idx = strs(&w["init_idx"]);
    let wanted = strs(&w["wanted"]);
    let rm = strs(&w["rm"]);
    #[allow(non_snake_case)]
    let MAX_ID = w["max_id"].as_u64().unwrap_or(DEFAULT_MAX_ID);
    // setup, not traced: database + collection with the initial index set, flushed
    let (db, col) = open_col(store.clone(), &tr, init_idx.clone(), vec![], false)
        .await
        .expect("setup");
    tr.skip_recorded();
    let base = handle.mutation_count();
    let mut run = Run {
        store,
        tr: tr.clone(),
        db: Some(db),
        col: Some(col),
    };
    tr.emit(json!({
        "e": "init", "kinds": index_kinds(), "terms": index_terms(), "init_idx": init_idx,
        "wanted": wanted, "rm": rm, "nvals": n_vals(), "max_id": MAX_ID, "stride": 64,
    }));
    if let Some(k) = crash_at {
        handle.crash_at_absolute(base + k);
    }
    if let Some((k, f)) = fault {
        handle.fault_at(k, f);
    }
    let mut crashed = false;
    for op in w["ops"].as_array().unwrap() {
        let name = op["op"].as_str().unwrap();
        let col = run.col.clone().unwrap();
        let mut call = op.clone();
        call["e"] = json!("call");
        tr.emit(call);
        let mut ret;
        match name {
            "reopen" => {
                // clean close of the whole database, then a fresh open
                drop(col);
                let db = run.db.take().unwrap();
                run.col = None;
                let r = db.close().await;
                drop(db);
                if r.is_ok() && !handle.is_powered_off() {
                    tr.emit(json!({"e": "ret", "op": "close", "ok": true}));
                    tr.emit(json!({"e": "call", "op": "open"}));
                    match open_col(run.store.clone(), &tr, wanted.clone(), rm.clone(), true).await {
                        Ok((db, col)) => {
                            run.db = Some(db);
                            run.col = Some(col);
                            ret = json!({"e": "ret", "op": "open", "ok": true});
                        }
                        Err(e) => {
                            ret = json!({"e": "ret", "op": "open", "ok": false, "err": err_class(&e)});
                        }
                    }
                } else {
                    ret = json!({"e": "ret", "op": "close", "ok": false});
                }
            }
            _ => {
                ret = exec_op(&col, op).await;
            }
        }
        if handle.is_powered_off() {
            crashed = true;
            tr.drain();
            break;
        }
        if fault.is_some() {
            // fault tier: every return says whether the handle is poisoned now
            let poisoned = run.col.as_ref().map(|c| format!("{:?}", c.state()) == "Poisoned").unwrap_or(false);
            ret["poisoned"] = json!(poisoned);
            tr.emit(ret);
            if poisoned {
                let col = run.col.take().unwrap();
                tr.emit(json!({"e": "obs", "state": format!("{:?}", col.state())}));
                // a poisoned handle refuses and writes nothing
                for dead in [json!({"op": "add", "val": 4}), json!({"op": "flush"})] {
                    let mut call = dead.clone();
                    call["e"] = json!("call");
                    call["dead"] = json!(true);
                    tr.emit(call);
                    let mut r = exec_op(&col, &dead).await;
                    r["dead"] = json!(true);
                    tr.emit(r);
                }
                drop(col);
                // recovery only on reopen: the SAME database discards the poisoned handle and reloads
                tr.emit(json!({"e": "call", "op": "open"}));
                let db = run.db.as_ref().unwrap();
                match open_in(db, &tr, wanted.clone(), rm.clone(), true).await {
                    Ok(col) => {
                        tr.emit(json!({"e": "ret", "op": "open", "ok": true}));
                        run.col = Some(col);
                    }
                    Err(e) => {
                        tr.emit(json!({"e": "ret", "op": "open", "ok": false, "err": format!("{e}")}));
                        break;
                    }
                }
            }
        } else {
            tr.emit(ret);
        }
        if let Some(col) = &run.col {
            let obs = observe(col, MAX_ID).await;
            tr.emit(obs);
        }
    }
    let traced_mutations = handle.mutation_count() - base;
    let mut recovery_mutations = 0;
    if crash_at.is_some() && !crashed {
        // the crash point lies beyond the workload: power off now
        handle.power_off_now();
        crashed = true;
    }
    if crashed {
        run.col = None;
        run.db = None;
        let mut nested = nested_at;
        loop {
            tr.emit(json!({"e": "crash"}));
            handle.reboot();
            let before = handle.mutation_count();
            if let Some(j) = nested.take() {
                handle.crash_after(j);
            }
            tr.emit(json!({"e": "call", "op": "open"}));
            let r = open_col(run.store.clone(), &tr, wanted.clone(), rm.clone(), true).await;
            if handle.is_powered_off() {
                tr.drain();
                continue;
            }
            recovery_mutations = handle.mutation_count() - before;
            // a nested crash point beyond the end of this recovery never fired: disarm it
            handle.disarm();
            match r {
                Ok((db, col)) => {
                    tr.emit(json!({"e": "ret", "op": "open", "ok": true}));
                    let obs = observe(&col, MAX_ID).await;
                    tr.emit(obs);
                    // the reopened database accepts and persists new writes
                    tr.emit(json!({"e": "call", "op": "add", "val": 4}));
                    match col.add_from(&mk_doc(4)).await {
                        Ok(id) => tr.emit(json!({"e": "ret", "op": "add", "ok": true, "id": id})),
                        Err(e) => tr.emit(json!({"e": "ret", "op": "add", "ok": false, "err": err_class(&e)})),
                    }
                    tr.emit(json!({"e": "call", "op": "flush"}));
                    match col.flush(anda_db::unix_ms()).await {
                        Ok(_) => tr.emit(json!({"e": "ret", "op": "flush", "ok": true})),
                        Err(e) => tr.emit(json!({"e": "ret", "op": "flush", "ok": false, "err": err_class(&e)})),
                    }
                    let obs = observe(&col, MAX_ID).await;
                    tr.emit(obs);
                    drop(col);
                    drop(db);
                }
                Err(e) => {
                    tr.emit(json!({"e": "ret", "op": "open", "ok": false, "err": format!("{e}")}));
                }
            }
            break;
        }
    }
    (tr.take_lines(), traced_mutations, recovery_mutations, crashed)
}

#[tokio::main(flavor = "current_thread")]
async fn main() {
    // sequential driver: updates send only the fields that change (see coll::fields_for_update)
    unsafe { std::env::set_var("VERIF_PARTIAL_UPDATE", "1") };
    let args: Vec<String> = std::env::args().collect();
    let workloads: Value = serde_json::from_str(&std::fs::read_to_string(&args[1]).unwrap()).unwrap();
    let mode = args[4].as_str();
    let mut out = std::io::BufWriter::new(std::fs::File::create(&args[2]).unwrap());
    let mut n_traces = 0u64;
    let mut n_events = 0u64;
    let mut crash_points = 0u64;
    let mut nested_points = 0u64;
    let mut per_workload = Vec::new();
    let mut write_trace = |lines: Vec<String>, tag: Value, out: &mut std::io::BufWriter<std::fs::File>| {
        // every trace starts with its own tag line (a reset for the trace spec)
        writeln!(out, "{}", json!({"e": "reset", "tag": tag})).unwrap();
        for l in &lines {
            writeln!(out, "{l}").unwrap();
        }
        n_traces += 1;
        n_events += lines.len() as u64 + 1;
    };
    for (wi, w) in workloads.as_array().unwrap().iter().enumerate() {
        let (lines, m, _, _) = run_workload(w, None, None).await;
        write_trace(lines, json!({"w": wi, "mode": "clean"}), &mut out);
        let mut rec_total = 0;
        if mode == "crash" || mode == "nested" {
            // "crash_last": only the last N mutations of the workload are crash points
            let first = match w["crash_last"].as_u64() {
                Some(n) => m.saturating_sub(n),
                None => 0,
            };
            for k in first..=m {
                let (lines, _, mrec, _) = run_workload(w, Some(k), None).await;
                write_trace(lines, json!({"w": wi, "mode": "crash", "k": k}), &mut out);
                crash_points += 1;
                rec_total += mrec;
                if mode == "nested" {
                    for j in 0..mrec {
                        let (lines, _, _, _) = run_workload(w, Some(k), Some(j)).await;
                        write_trace(lines, json!({"w": wi, "mode": "nested", "k": k, "j": j}), &mut out);
                        nested_points += 1;
                    }
                }
            }
        }
        if mode == "fault" {
            for k in 1..=m {
                for (f, fname) in [(Fault::ErrNoLand, "noland"), (Fault::LandThenErr, "landed")] {
                    let (lines, _, _, _) = run_workload_f(w, None, None, Some((k, f))).await;
                    write_trace(lines, json!({"w": wi, "mode": "fault", "k": k, "fault": fname}), &mut out);
                    crash_points += 1;
                }
            }
        }
        per_workload.push(json!({"w": wi, "mutations": m, "recovery_mutations_total": rec_total}));
    }
    out.flush().unwrap();
    let stats = json!({
        "workloads": workloads.as_array().unwrap().len(),
        "traces": n_traces, "events": n_events, "crash_points": crash_points,
        "nested_points": nested_points, "per_workload": per_workload,
    });
    std::fs::write(&args[3], stats.to_string()).unwrap();
    println!("drive_collection: traces={n_traces} events={n_events} crash_points={crash_points} nested={nested_points}");
}
