//! C12 driver: the real `HnswIndex`.
//!
//!   drive_hnsw small  <workloads.jsonl> <trace.ndjson>   small histories, every flush prefix, searches (-> HnswTrace.tla)
//!   drive_hnsw recall <tier> <trace.ndjson>              the documented recall workloads + interrupted flushes
//!
//! Every vector is identified by an integer TAG (the harness keeps tag -> vector); blobs handed to the
//! flush callbacks are decoded back to (id, tag, neighbour ids).
use anda_db_hnsw::{DistanceMetric, HnswConfig, HnswIndex, HnswNode, SelectNeighborsStrategy, half::bf16};
use serde::Deserialize;
use serde_json::{Value, json};
use std::cell::RefCell;
use std::collections::{BTreeMap, BTreeSet, HashMap};
use std::io::{BufRead, Write};
use std::rc::Rc;

struct SplitMix64(u64);
impl SplitMix64 {
    fn next_u64(&mut self) -> u64 {
        self.0 = self.0.wrapping_add(0x9E3779B97F4A7C15);
        let mut z = self.0;
        z = (z ^ (z >> 30)).wrapping_mul(0xBF58476D1CE4E5B9);
        z = (z ^ (z >> 27)).wrapping_mul(0x94D049BB133111EB);
        z ^ (z >> 31)
    }
    fn next_f32(&mut self) -> f32 {
        (self.next_u64() >> 40) as f32 / (1u64 << 24) as f32
    }
    fn next_vector(&mut self, dim: usize) -> Vec<f32> {
        (0..dim).map(|_| bf16::from_f32(self.next_f32()).to_f32()).collect()
    }
}

#[derive(Deserialize)]
struct MetaWire {
    entry_point: (u64, u8),
    #[serde(default)]
    removed_nodes: Vec<u64>,
}

#[derive(Default, Clone)]
struct Durable {
    nodes: BTreeMap<u64, Vec<u8>>,
    ids: Option<Vec<u8>>,
    meta: Option<Vec<u8>>,
}

fn metric_of(s: &str) -> DistanceMetric {
    match s {
        "euclidean" => DistanceMetric::Euclidean,
        "cosine" => DistanceMetric::Cosine,
        "inner" => DistanceMetric::InnerProduct,
        _ => DistanceMetric::Manhattan,
    }
}

fn key_of(v: &[bf16]) -> Vec<u16> {
    v.iter().map(|x| x.to_bits()).collect()
}

struct World {
    cfg: HnswConfig,
    idx: HnswIndex,
    /// what the application's documents say: id -> (tag, vector as stored, i.e. bf16-rounded)
    truth: BTreeMap<u64, (i64, Vec<f32>)>,
    /// what the index holds according to the model: id -> tag (differs from `truth` between a crash and
    /// the re-indexing that follows)
    held: BTreeMap<u64, i64>,
    vecs: HashMap<i64, Vec<f32>>,
    tags: HashMap<Vec<u16>, i64>,
    next_tag: i64,
    durable: Rc<RefCell<Durable>>,
    seed: u64,
}

impl World {
    fn new(cfg: HnswConfig, seed: u64) -> Self {
        World {
            idx: HnswIndex::new("t".to_string(), Some(cfg.clone())),
            cfg,
            truth: BTreeMap::new(),
            held: BTreeMap::new(),
            vecs: HashMap::new(),
            tags: HashMap::new(),
            next_tag: 1,
            durable: Rc::new(RefCell::new(Durable::default())),
            seed,
        }
    }
    fn fresh_vector(&mut self) -> (i64, Vec<f32>) {
        let tag = self.next_tag;
        self.next_tag += 1;
        let mut rng = SplitMix64(self.seed.wrapping_mul(1_000_003).wrapping_add(tag as u64));
        let v = rng.next_vector(self.cfg.dimension);
        let k: Vec<bf16> = v.iter().map(|x| bf16::from_f32(*x)).collect();
        self.tags.insert(key_of(&k), tag);
        self.vecs.insert(tag, v.clone());
        (tag, v)
    }
    fn tag_of(&self, v: &[bf16]) -> i64 {
        self.tags.get(&key_of(v)).cloned().unwrap_or(-1)
    }
    fn true_dist(&self, q: &[f32], id: u64) -> i64 {
        match self.held.get(&id).and_then(|t| self.vecs.get(t)) {
            None => -1,
            Some(v) => {
                let b: Vec<bf16> = v.iter().map(|x| bf16::from_f32(*x)).collect();
                bits(self.cfg.distance_metric.compute_mixed(q, &b).unwrap())
            }
        }
    }
    /// what the index holds: (ids, tags, dangling edge count)
    fn observe(&self, idx: &HnswIndex) -> (Vec<u64>, Vec<i64>, usize) {
        let mut ids = idx.node_ids();
        ids.sort();
        let set: BTreeSet<u64> = ids.iter().cloned().collect();
        let mut tags = Vec::new();
        let mut dangling = 0;
        for id in &ids {
            let (t, d) = idx
                .get_node_with(*id, |n| {
                    let d = n.neighbors.iter().flatten().filter(|(nb, _)| !set.contains(nb)).count();
                    (self.tag_of(&n.vector), d)
                })
                .unwrap_or((-2, 0));
            tags.push(t);
            dangling += d;
        }
        (ids, tags, dangling)
    }
}

/// order-preserving integer image of an f32 distance (any sign); NaN / infinite -> a sentinel
fn bits(d: f32) -> i64 {
    if !d.is_finite() {
        return -2_000_000_000;
    }
    // map to a monotone i32 and scale down by 2 so that it fits TLC's 32-bit integers comfortably
    let b = d.to_bits() as i32;
    let m = if b < 0 { i32::MIN.wrapping_sub(b).wrapping_add(0) } else { b };
    (m / 2) as i64
}

async fn load(d: &Durable, cfg: &HnswConfig) -> Result<HnswIndex, String> {
    match (&d.meta, &d.ids) {
        (Some(m), Some(i)) => HnswIndex::load_all(&m[..], &i[..], async |id: u64| Ok(d.nodes.get(&id).cloned()))
            .await
            .map_err(|e| format!("{e:?}")),
        _ => Ok(HnswIndex::new("t".to_string(), Some(cfg.clone()))),
    }
}

fn decode_ids(buf: &[u8]) -> Vec<u64> {
    let raw: serde_bytes::ByteBuf = cbor2::from_reader(buf).expect("ids decode");
    let tm = croaring::Treemap::try_deserialize::<croaring::Portable>(&raw).expect("treemap");
    tm.iter().collect()
}

#[derive(Clone, Copy, PartialEq)]
enum Fault {
    None,
    CrashBefore(usize),
    CrashAfter(usize),
    FailBefore(usize),
    /// after the ids object, before the metadata
    CrashAfterIds,
}

/// A mutation crossing the flush I/O window: after node write `pos`, `id` is removed and re-inserted
/// with the vector `tag`.
#[derive(Clone)]
struct Cross {
    pos: usize,
    id: u64,
    tag: i64,
    vec: Vec<f32>,
}

/// One flush (nodes -> ids -> metadata), logging every durable write with its decoded content; `probe`
/// is invoked after every write with the durable state (cold load + log).  Returns true when the run
/// "crashed" (the live index must then be replaced by a cold load).
async fn flush_logged(w: &World, fault: Fault, log: &Rc<RefCell<Vec<Value>>>, every: usize, cross: Option<Cross>) -> (bool, Result<bool, String>) {
    let pos = Rc::new(RefCell::new(0usize));
    let crashed = Rc::new(RefCell::new(false));
    let cfg = w.cfg.clone();
    let tags = &w.tags;
    let tag_of = |v: &[bf16]| tags.get(&key_of(v)).cloned().unwrap_or(-1);
    let (d1, l1, p1, c1) = (w.durable.clone(), log.clone(), pos.clone(), crashed.clone());
    let (d2, l2, p2, c2) = (w.durable.clone(), log.clone(), pos.clone(), crashed.clone());
    let (d3, l3, p3, c3) = (w.durable.clone(), log.clone(), pos.clone(), crashed.clone());
    let cfg1 = cfg.clone();
    let live_idx = &w.idx;
    let cfg2 = cfg.clone();
    let cfg3 = cfg.clone();
    macro_rules! gate {
        ($p:expr, $c:expr) => {{
            let i = *$p.borrow();
            *$p.borrow_mut() += 1;
            if fault == Fault::FailBefore(i) {
                return Err("injected".into());
            }
            if fault == Fault::CrashBefore(i) {
                *$c.borrow_mut() = true;
                return Err("crash".into());
            }
            i
        }};
    }
    let obs_load = move |d: &Durable, cfg: &HnswConfig, idx: Result<HnswIndex, String>| -> Value {
        let _ = (d, cfg);
        match idx {
            Ok(ix) => {
                let mut ids = ix.node_ids();
                ids.sort();
                json!({"e": "load", "ok": true, "ids": ids})
            }
            Err(e) => json!({"e": "load", "ok": false, "err": e}),
        }
    };
    let res = w
        .idx
        .flush_with(
            7,
            |id: u64, data: Vec<u8>| {
                let (d1, l1, p1, c1, cfg1) = (d1.clone(), l1.clone(), p1.clone(), c1.clone(), cfg1.clone());
                let node: HnswNode = cbor2::from_reader(&data[..]).expect("node decodes");
                let tag = tag_of(&node.vector);
                let cross = cross.clone();
                async move {
                    let i = gate!(p1, c1);
                    let mut nb: Vec<u64> = node.neighbors.iter().flatten().map(|x| x.0).collect();
                    nb.sort();
                    nb.dedup();
                    d1.borrow_mut().nodes.insert(id, data);
                    l1.borrow_mut().push(json!({"e": "node", "id": id, "tag": tag, "nb": nb}));
                    if every > 0 && i % every == 0 {
                        let cold = load(&d1.borrow(), &cfg1).await;
                        l1.borrow_mut().push(obs_load(&d1.borrow(), &cfg1, cold));
                    }
                    if let Some(c) = &cross
                        && c.pos == i
                    {
                        let r = live_idx.remove(c.id, 8);
                        l1.borrow_mut().push(json!({"e": "op", "op": "remove", "id": c.id, "ret": r as i64, "n": live_idx.len()}));
                        let ok = live_idx.insert_f32(c.id, c.vec.clone(), 8).is_ok();
                        l1.borrow_mut().push(json!({"e": "op", "op": "insert", "id": c.id, "tag": c.tag, "ret": ok as i64, "n": live_idx.len()}));
                    }
                    if fault == Fault::CrashAfter(i) {
                        *c1.borrow_mut() = true;
                        return Err("crash".into());
                    }
                    Ok(true)
                }
            },
            |data: Vec<u8>| async move {
                let _i = gate!(p2, c2);
                let ids = decode_ids(&data);
                d2.borrow_mut().ids = Some(data);
                l2.borrow_mut().push(json!({"e": "ids", "ids": ids}));
                let cold = load(&d2.borrow(), &cfg2).await;
                l2.borrow_mut().push(obs_load(&d2.borrow(), &cfg2, cold));
                if fault == Fault::CrashAfter(_i) || fault == Fault::CrashAfterIds {
                    *c2.borrow_mut() = true;
                    return Err("crash".into());
                }
                Ok(())
            },
            |data: Vec<u8>| async move {
                let _i = gate!(p3, c3);
                let m: MetaWire = cbor2::from_reader(&data[..]).expect("metadata decodes");
                d3.borrow_mut().meta = Some(data);
                let mut tomb = m.removed_nodes.clone();
                tomb.sort();
                l3.borrow_mut().push(json!({"e": "meta", "tomb": tomb, "entry": m.entry_point.0}));
                let cold = load(&d3.borrow(), &cfg3).await;
                l3.borrow_mut().push(obs_load(&d3.borrow(), &cfg3, cold));
                if fault == Fault::CrashAfter(_i) {
                    *c3.borrow_mut() = true;
                    return Err("crash".into());
                }
                Ok(())
            },
        )
        .await
        .map_err(|e| format!("{e:?}"));
    let c = *crashed.borrow();
    (c, res)
}

fn search_event(w: &World, idx: &HnswIndex, q: &[f32], k: usize, kind: &str) -> Value {
    match idx.search_f32(q, k) {
        Ok(r) => {
            let res: Vec<Value> = r.iter().map(|(id, d)| json!([id, bits(*d), w.true_dist(q, *id)])).collect();
            json!({"e": "search", "k": k, "kind": kind, "res": res})
        }
        Err(e) => json!({"e": "search_err", "k": k, "kind": kind, "err": format!("{e:?}").chars().take(120).collect::<String>()}),
    }
}

fn query_vector(w: &World, kind: &str, salt: u64) -> Vec<f32> {
    let dim = w.cfg.dimension;
    let mut rng = SplitMix64(w.seed ^ salt.wrapping_mul(0x9E37_79B9));
    match kind {
        "stored" if !w.truth.is_empty() => {
            let n = (rng.next_u64() as usize) % w.truth.len();
            w.truth.values().nth(n).unwrap().1.clone()
        }
        "far" => rng.next_vector(dim).iter().map(|x| x * 50.0 - 20.0).collect(),
        "zero" => vec![0.0; dim],
        _ => rng.next_vector(dim),
    }
}

async fn crash_reload(w: &mut World, log: &Rc<RefCell<Vec<Value>>>) {
    let cold = load(&w.durable.borrow(), &w.cfg).await.expect("load");
    w.idx = cold;
    let (ids, tags, dangling) = w.observe(&w.idx);
    w.held = ids.iter().cloned().zip(tags.iter().cloned()).collect();
    let mut tomb = w.idx.removed_node_ids();
    tomb.sort();
    log.borrow_mut().push(json!({"e": "crash", "ids": ids, "tags": tags, "dangling": dangling, "tomb": tomb}));
}

/// Re-index what the durable state lost: make the index agree with the harness's truth again,
/// the way recovery replays unflushed documents (remove stale, insert missing / changed).
fn reindex(w: &mut World, log: &Rc<RefCell<Vec<Value>>>) {
    let (ids, tags, _) = w.observe(&w.idx);
    let have: BTreeMap<u64, i64> = ids.into_iter().zip(tags).collect();
    let mut actions = Vec::new();
    for (id, tag) in &have {
        match w.truth.get(id) {
            Some((t, _)) if t == tag => {}
            _ => {
                let r = w.idx.remove(*id, 5);
                actions.push(json!(["remove", id, r]));
            }
        }
    }
    let truth: Vec<(u64, i64, Vec<f32>)> = w.truth.iter().map(|(id, (t, v))| (*id, *t, v.clone())).collect();
    for (id, tag, v) in truth {
        if have.get(&id) != Some(&tag) {
            let r = w.idx.insert_f32(id, v, 6).is_ok();
            actions.push(json!(["insert", id, r]));
        }
    }
    w.held = w.truth.iter().map(|(id, (t, _))| (*id, *t)).collect();
    let (ids, tags, dangling) = w.observe(&w.idx);
    log.borrow_mut().push(json!({"e": "reindex", "actions": actions, "ids": ids, "tags": tags, "dangling": dangling}));
}

async fn run_small(wl: &Value, out: &mut Vec<Value>) {
    let cfg = HnswConfig {
        dimension: wl["dim"].as_u64().unwrap() as usize,
        distance_metric: metric_of(wl["metric"].as_str().unwrap()),
        select_neighbors_strategy: if wl["strategy"] == "simple" { SelectNeighborsStrategy::Simple } else { SelectNeighborsStrategy::Heuristic },
        max_connections: wl["m"].as_u64().unwrap_or(4) as u8,
        ef_construction: 20,
        ef_search: 20,
        reconnect_on_delete: wl["reconnect"].as_bool().unwrap_or(false),
        ..Default::default()
    };
    let mut w = World::new(cfg, wl["seed"].as_u64().unwrap_or(1));
    let log: Rc<RefCell<Vec<Value>>> = Rc::new(RefCell::new(Vec::new()));
    log.borrow_mut().push(json!({"e": "reset", "tag": wl["name"]}));
    let mut salt = 0u64;
    for op in wl["ops"].as_array().unwrap() {
        salt += 1;
        let id = op["id"].as_u64().unwrap_or(0);
        match op["op"].as_str().unwrap() {
            "insert" => {
                let (tag, v) = w.fresh_vector();
                let ok = w.idx.insert_f32(id, v.clone(), salt).is_ok();
                if ok {
                    w.truth.insert(id, (tag, v));
                    w.held.insert(id, tag);
                }
                log.borrow_mut().push(json!({"e": "op", "op": "insert", "id": id, "tag": tag, "ret": ok as i64, "n": w.idx.len()}));
            }
            "remove" => {
                let r = w.idx.remove(id, salt);
                w.truth.remove(&id);
                w.held.remove(&id);
                log.borrow_mut().push(json!({"e": "op", "op": "remove", "id": id, "ret": r as i64, "n": w.idx.len()}));
            }
            "search" => {
                let kind = op["kind"].as_str().unwrap_or("random");
                let q = query_vector(&w, kind, salt);
                let n = w.idx.len();
                for k in [1usize, 2, n.max(1), n + 1] {
                    let e = search_event(&w, &w.idx, &q, k, kind);
                    log.borrow_mut().push(e);
                }
            }
            "flush" => {
                let at = op["at"].as_u64().unwrap_or(0) as usize;
                let fault = match op["mode"].as_str().unwrap_or("clean") {
                    "crash_before" => Fault::CrashBefore(at),
                    "crash_after" => Fault::CrashAfter(at),
                    "fail_before" => Fault::FailBefore(at),
                    "crash_after_ids" => Fault::CrashAfterIds,
                    _ => Fault::None,
                };
                log.borrow_mut().push(json!({"e": "fcall"}));
                let cross = if op["cross_id"].is_u64() {
                    let (tag, vec) = w.fresh_vector();
                    Some(Cross { pos: op["cross_at"].as_u64().unwrap_or(0) as usize, id: op["cross_id"].as_u64().unwrap(), tag, vec })
                } else {
                    None
                };
                let (crashed, res) = flush_logged(&w, fault, &log, 1, cross.clone()).await;
                if let Some(c) = &cross {
                    // did the crossing happen? (the flush may have had fewer node writes)
                    let happened = log.borrow().iter().rev().take(200).any(|e| e["e"] == "op" && e["tag"] == json!(c.tag));
                    if happened {
                        w.truth.insert(c.id, (c.tag, c.vec.clone()));
                        w.held.insert(c.id, c.tag);
                    }
                }
                if crashed {
                    crash_reload(&mut w, &log).await;
                    continue;
                }
                match res {
                    Ok(saved) => log.borrow_mut().push(json!({"e": "fret", "saved": saved})),
                    Err(_) => {
                        log.borrow_mut().push(json!({"e": "ffail"}));
                        continue;
                    }
                }
                // the wrapper purges tombstoned blobs after a successful flush
                let npurge = op["purge"].as_u64().unwrap_or(u64::MAX);
                let d = w.durable.clone();
                let l = log.clone();
                let cnt = Rc::new(RefCell::new(0u64));
                let cfg = w.cfg.clone();
                let c2 = cnt.clone();
                let _ = w
                    .idx
                    .purge_removed_nodes(async |id: u64| {
                        if *c2.borrow() >= npurge {
                            return Ok(false);
                        }
                        *c2.borrow_mut() += 1;
                        d.borrow_mut().nodes.remove(&id);
                        l.borrow_mut().push(json!({"e": "purge", "id": id}));
                        let cold = load(&d.borrow(), &cfg).await;
                        let mut ids = cold.as_ref().map(|c| c.node_ids()).unwrap_or_default();
                        ids.sort();
                        l.borrow_mut().push(json!({"e": "load", "ok": cold.is_ok(), "ids": ids}));
                        Ok(true)
                    })
                    .await;
                let mut left = w.idx.removed_node_ids();
                left.sort();
                log.borrow_mut().push(json!({"e": "purged", "tomb": left}));
                if op["crash_after_purge"].as_bool().unwrap_or(false) {
                    crash_reload(&mut w, &log).await;
                }
            }
            "reload" => crash_reload(&mut w, &log).await,
            "reindex" => reindex(&mut w, &log),
            o => panic!("op {o}"),
        }
    }
    out.extend(log.borrow_mut().drain(..));
}

// ---------------------------------------------------------------------------------------------
// the documented recall workloads

fn ground_truth(w: &World, q: &[f32], k: usize) -> (Vec<u64>, f32) {
    let m = w.cfg.distance_metric;
    let mut scored: Vec<(u64, f32)> = w.truth.iter().map(|(id, (_, v))| (*id, m.compute_f32(q, v).unwrap())).collect();
    scored.sort_by(|a, b| a.1.partial_cmp(&b.1).unwrap().then(a.0.cmp(&b.0)));
    scored.truncate(k);
    let kth = scored.last().map(|x| x.1).unwrap_or(0.0);
    (scored.into_iter().map(|x| x.0).collect(), kth)
}

/// (avg recall per mille, min per mille, unsound results, failed searches)
fn measure(w: &World, idx: &HnswIndex, queries: &[Vec<f32>], k: usize) -> (i64, i64, u64, u64) {
    let m = w.cfg.distance_metric;
    let mut total = 0.0;
    let mut min: f64 = 1.0;
    let mut unsound = 0u64;
    let mut failed = 0u64;
    for q in queries {
        let res = match idx.search_f32(q, k) {
            Ok(r) => r,
            Err(_) => {
                failed += 1;
                Vec::new()
            }
        };
        let mut seen = BTreeSet::new();
        let mut prev = f32::NEG_INFINITY;
        if res.len() > k {
            unsound += 1;
        }
        for (id, d) in &res {
            let ok = seen.insert(*id) && d.is_finite() && *d >= prev && w.true_dist(q, *id) == bits(*d);
            if !ok {
                unsound += 1;
            }
            prev = *d;
        }
        let (truth, kth) = ground_truth(w, q, k);
        let thr = kth * 1.001 + 1e-6;
        let hits = res.iter().take(k).filter(|(id, _)| {
            truth.contains(id) || w.truth.get(id).is_some_and(|(_, v)| m.compute_f32(q, v).unwrap() <= thr)
        }).count();
        let r = hits as f64 / k as f64;
        total += r;
        min = min.min(r);
    }
    (((total / queries.len() as f64) * 1000.0).round() as i64, (min * 1000.0).round() as i64, unsound, failed)
}

fn recall_event(w: &World, idx: &HnswIndex, queries: &[Vec<f32>], phase: &str, wl: &str, extra: Value) -> Value {
    let (avg, min, unsound, failed) = measure(w, idx, queries, 10);
    json!({"e": "recall", "wl": wl, "phase": phase, "avg": avg, "min": min, "unsound": unsound, "failed": failed,
           "n": idx.len(), "truth": w.truth.len(), "x": extra})
}

fn build(cfg: HnswConfig, n: usize, nq: usize, seed: u64) -> (World, Vec<Vec<f32>>) {
    let mut w = World::new(cfg, seed);
    for id in 1..=(n as u64) {
        let (tag, v) = w.fresh_vector();
        w.idx.insert_f32(id, v.clone(), id).expect("insert");
        w.truth.insert(id, (tag, v));
        w.held.insert(id, tag);
    }
    let mut rng = SplitMix64(seed ^ 0xABCDEF);
    let dim = w.cfg.dimension;
    let queries = (0..nq).map(|_| rng.next_vector(dim)).collect();
    (w, queries)
}

/// The churn phase of the recall workloads: every 5th document is deleted; every 3rd is removed, the index is
/// flushed WITHOUT purging (the durable metadata now lists those tombstones), and then re-inserted with a
/// new vector.  Nothing of the re-insertion is flushed.
async fn churn(w: &mut World, n: usize, flush_between: bool) {
    for id in (1..=n as u64).filter(|i| i % 5 == 0) {
        w.idx.remove(id, 9);
        w.truth.remove(&id);
        w.held.remove(&id);
    }
    let victims: Vec<u64> = (1..=n as u64).filter(|i| i % 3 == 0 && i % 5 != 0).collect();
    for id in &victims {
        w.idx.remove(*id, 10);
        w.truth.remove(id);
        w.held.remove(id);
    }
    if flush_between {
        let (_c, r) = flush_logged(w, Fault::None, &Rc::new(RefCell::new(Vec::new())), 0, None).await;
        r.expect("flush");
    }
    for id in victims {
        let (tag, v) = w.fresh_vector();
        w.idx.insert_f32(id, v.clone(), 11).expect("reinsert");
        w.truth.insert(id, (tag, v));
        w.held.insert(id, tag);
    }
}

async fn run_recall(tier: &str, out: &mut Vec<Value>) {
    let quick = tier == "quick";
    let seeds: Vec<u64> = if quick { vec![42] } else { vec![42, 7, 99, 1234, 777, 31337] };
    let log: Rc<RefCell<Vec<Value>>> = Rc::new(RefCell::new(Vec::new()));
    for seed in seeds {
        for (metric, n, dim, nq, strategy) in [
            (DistanceMetric::Euclidean, if quick { 600 } else { 1000 }, 32usize, 40usize, SelectNeighborsStrategy::Heuristic),
            (DistanceMetric::Cosine, if quick { 500 } else { 800 }, 24, 40, SelectNeighborsStrategy::Heuristic),
            (DistanceMetric::Euclidean, 400, 16, 30, SelectNeighborsStrategy::Simple),
        ] {
            let wl = format!("{:?}-{}-{}-{:?}-{}", metric, n, dim, strategy, seed);
            log.borrow_mut().push(json!({"e": "reset", "tag": wl}));
            let cfg = HnswConfig { dimension: dim, distance_metric: metric, select_neighbors_strategy: strategy, ..Default::default() };
            let (mut w, queries) = build(cfg, n, nq, seed);
            let e = recall_event(&w, &w.idx, &queries, "fresh", &wl, json!({}));
            log.borrow_mut().push(e);
            // persistence round trip
            let (_c, r) = flush_logged(&w, Fault::None, &Rc::new(RefCell::new(Vec::new())), 0, None).await;
            r.expect("flush");
            let cold = load(&w.durable.borrow(), &w.cfg).await.expect("load");
            let e = recall_event(&w, &cold, &queries, "reloaded", &wl, json!({}));
            log.borrow_mut().push(e);
            // the same workload persisted INCREMENTALLY: six batches, a complete flush after each, so that
            // nodes persisted by an earlier flush gain reverse edges later and must be re-persisted; the
            // reloaded graph keeps the floor of the live one
            {
                let mut v = World::new(w.cfg.clone(), seed);
                let batch = n.div_ceil(6);
                for id in 1..=(n as u64) {
                    let (tag, vec) = v.fresh_vector();
                    v.idx.insert_f32(id, vec.clone(), id).expect("insert");
                    v.truth.insert(id, (tag, vec));
                    v.held.insert(id, tag);
                    if id as usize % batch == 0 || id as usize == n {
                        let (_c, r) = flush_logged(&v, Fault::None, &Rc::new(RefCell::new(Vec::new())), 0, None).await;
                        r.expect("flush");
                    }
                }
                let cold = load(&v.durable.borrow(), &v.cfg).await.expect("load");
                let e = recall_event(&v, &cold, &queries, "reloaded", &wl, json!({"incremental_flushes": 6}));
                log.borrow_mut().push(e);
            }
            // deletions (every 5th), then churn (remove ; flush without purge ; re-insert with a new vector)
            for id in (1..=n as u64).filter(|i| i % 5 == 0) {
                w.idx.remove(id, 9);
                w.truth.remove(&id);
                w.held.remove(&id);
            }
            let e = recall_event(&w, &w.idx, &queries, "deleted", &wl, json!({}));
            log.borrow_mut().push(e);
            churn(&mut w, n, true).await;
            let e = recall_event(&w, &w.idx, &queries, "churn", &wl, json!({}));
            log.borrow_mut().push(e);
            // the flush of all that, interrupted at sampled positions; then recovery by re-indexing
            let dirty_total = {
                let probe = Rc::new(RefCell::new(Vec::new()));
                let saved = w.durable.borrow().clone();
                let (_c, r) = flush_logged(&w, Fault::CrashBefore(usize::MAX), &probe, 0, None).await;
                let _ = r;
                *w.durable.borrow_mut() = saved;
                probe.borrow().iter().filter(|e| e["e"] == "node").count()
            };
            // NOTE: the probe flush above completed (its fault position is never reached), so the live index has
            // no dirty nodes any more; rebuild the same state deterministically for every crash position instead.
            let positions: Vec<usize> = {
                let total = dirty_total + 2;
                let step = if quick { (total / 6).max(1) } else { (total / 24).max(1) };
                let mut p: Vec<usize> = (0..total).step_by(step).collect();
                p.extend([total.saturating_sub(2), total.saturating_sub(1)]);
                p.sort();
                p.dedup();
                p
            };
            for pos in positions {
                for after in [false, true] {
                    // rebuild: base state flushed, then the same deletions + churn
                    let cfg = w.cfg.clone();
                    let (mut v, _) = build(cfg, n, 0, seed);
                    let (_c, r) = flush_logged(&v, Fault::None, &Rc::new(RefCell::new(Vec::new())), 0, None).await;
                    r.expect("flush");
                    churn(&mut v, n, true).await;
                    let sink = Rc::new(RefCell::new(Vec::new()));
                    let fault = if after { Fault::CrashAfter(pos) } else { Fault::CrashBefore(pos) };
                    let (crashed, _r) = flush_logged(&v, fault, &sink, 0, None).await;
                    if !crashed {
                        continue;
                    }
                    let cold = load(&v.durable.borrow(), &v.cfg).await.expect("load");
                    v.idx = cold;
                    let (ids, tags, dangling) = v.observe(&v.idx);
                    v.held = ids.iter().cloned().zip(tags.iter().cloned()).collect();
                    let stale = ids.iter().zip(&tags).filter(|(id, t)| v.truth.get(id).map(|x| x.0) != Some(**t)).count();
                    let before = measure(&v, &v.idx, &queries, 10);
                    let sink2 = Rc::new(RefCell::new(Vec::new()));
                    reindex(&mut v, &sink2);
                    let e = recall_event(&v, &v.idx, &queries, "recovered", &wl,
                        json!({"pos": pos, "after": after, "loaded": ids.len(), "stale_or_dead": stale, "dangling": dangling,
                               "failed_before_reindex": before.3, "unsound_before_reindex": before.2}));
                    log.borrow_mut().push(e);
                    // one more complete flush + purge + reload after recovery
                    let (_c, r) = flush_logged(&v, Fault::None, &Rc::new(RefCell::new(Vec::new())), 0, None).await;
                    if r.is_ok() {
                        let d = v.durable.clone();
                        let _ = v.idx.purge_removed_nodes(async |id: u64| {
                            d.borrow_mut().nodes.remove(&id);
                            Ok(true)
                        }).await;
                        let cold = load(&v.durable.borrow(), &v.cfg).await.expect("load");
                        let e = recall_event(&v, &cold, &queries, "recovered-reloaded", &wl, json!({"pos": pos, "after": after}));
                        log.borrow_mut().push(e);
                    }
                }
            }
            let _ = &mut w;
        }
    }
    out.extend(log.borrow_mut().drain(..));
}

fn main() {
    let args: Vec<String> = std::env::args().collect();
    let rt = tokio::runtime::Builder::new_current_thread().enable_all().build().unwrap();
    let mut log = Vec::new();
    match args[1].as_str() {
        "small" => {
            let f = std::io::BufReader::new(std::fs::File::open(&args[2]).unwrap());
            let ws: Vec<Value> = f.lines().map(|l| l.unwrap()).filter(|l| !l.trim().is_empty())
                .map(|l| serde_json::from_str(&l).unwrap()).collect();
            let mut ni = 1;
            for w in &ws {
                ni = ni.max(w["ni"].as_u64().unwrap());
                rt.block_on(run_small(w, &mut log));
            }
            let maxtag = log.iter().filter_map(|e| e.get("tag").and_then(|t| t.as_i64())).max().unwrap_or(1);
            let mut out = std::io::BufWriter::new(std::fs::File::create(&args[3]).unwrap());
            writeln!(out, "{}", json!({"e": "hdr", "ni": ni, "maxtag": maxtag})).unwrap();
            for e in &log {
                writeln!(out, "{}", e).unwrap();
            }
            println!("{}", json!({"summary": true, "histories": ws.len(), "events": log.len(),
                                  "searches": log.iter().filter(|e| e["e"] == "search").count(),
                                  "search_errs": log.iter().filter(|e| e["e"] == "search_err").count()}));
        }
        "recall" => {
            rt.block_on(run_recall(&args[2], &mut log));
            let mut out = std::io::BufWriter::new(std::fs::File::create(&args[3]).unwrap());
            writeln!(out, "{}", json!({"e": "hdr", "ni": 1, "maxtag": 1})).unwrap();
            for e in &log {
                writeln!(out, "{}", e).unwrap();
            }
            println!("{}", json!({"summary": true, "events": log.len()}));
        }
        m => panic!("mode {m}"),
    }
}
