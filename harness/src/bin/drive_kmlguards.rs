//! C16 driver (direction R): replays the abstract mutation plans enumerated by TLC from
//! spec/MC_KmlGuards.tla on the real anda_kip parser and tree validator.
//!
//! Every plan is rendered twice, independently of each other:
//!  (a) as KML text, fed to `parse_kip` and `parse_kml`;
//!  (b) as a JSON command tree (the serde encoding of `anda_kip::Command`, built by hand, never by
//!      the parser), decoded and fed to `validate_command` and to `Operation { ast }.parse()`.
//! The accepted / refused outcome is compared with the verdict TLC computed from KmlGuards.tla.
//! When the text is accepted, the parsed command must EQUAL the hand-built tree (the accepted tree
//! is exactly the cell: nothing dropped, nothing added); for the ASSERT shorthand the parsed command
//! must equal the tree of the expansion TLC computed (ExpandPlan), up to the names of the synthetic
//! handles.  An independent walker re-checks the bare safety facts on every accepted command.
//!
//!   drive_kmlguards run <cases.ndjson> <out.json>
//!   drive_kmlguards probe            (stdin: one command per line; prints accept/refuse + tree)

use anda_kip::{Command, MutationClause, Operation, UpdateAction, WhereClause};
use serde_json::{Map, Value, json};
use std::collections::{BTreeMap, BTreeSet};
use std::io::BufRead;
use std::panic::{AssertUnwindSafe, catch_unwind};

const PROTECTED: &[&str] = &["_system", "governance", "space_id", "space_seq"];

// ---------------------------------------------------------------------------
// helpers over the abstract syntax (serde_json values printed by TLC's ToJson)

fn s(v: &Value) -> &str {
    v.as_str().unwrap_or("")
}
fn tag(v: &Value) -> &str {
    v.get(0).and_then(|x| x.as_str()).unwrap_or("")
}
fn arr(v: &Value) -> &[Value] {
    v.as_array().map(|a| a.as_slice()).unwrap_or(&[])
}
fn quote(x: &str) -> String {
    Value::String(x.to_string()).to_string()
}

// ---------------------------------------------------------------------------
// (a) text

fn ref_text(r: &Value) -> String {
    match tag(r) {
        "h" => format!("?{}", s(&r[1])),
        "p" => format!(":{}", s(&r[1])),
        "id" => quote(s(&r[1])),
        _ => String::new(),
    }
}

fn val_text(v: &Value) -> String {
    match tag(v) {
        "num" => v[1].to_string(),
        "str" => quote(s(&v[1])),
        "bool" => "true".into(),
        "null" => "null".into(),
        "p" => format!(":{}", s(&v[1])),
        "h" | "var" => format!("?{}", s(&v[1])),
        "path" => format!("?{}.score", s(&v[1])),
        "expr" => format!("ADD(?{}.score, 1)", s(&v[1])),
        "exprp" => "ADD(:pv, 1)".into(),
        "arr" => format!("[{}]", arr(&v[1]).iter().map(val_text).collect::<Vec<_>>().join(", ")),
        "obj" => format!("{{{}: {}}}", s(&v[1]), val_text(&v[2])),
        _ => String::new(),
    }
}

fn key_text(e: &Value) -> String {
    if e["q"].as_bool().unwrap_or(false) { quote(s(&e["n"])) } else { s(&e["n"]).to_string() }
}

fn assignments_text(ents: &Value) -> String {
    let items: Vec<String> = arr(ents).iter().map(|e| format!("{}: {}", key_text(e), val_text(&e["v"]))).collect();
    format!("{{ {} }}", items.join(", "))
}

fn unset_text(ents: &Value) -> String {
    let items: Vec<String> = arr(ents).iter().map(key_text).collect();
    format!("{{ {} }}", items.join(", "))
}

fn edges_text(ents: &Value, with_options: bool) -> String {
    let items: Vec<String> = arr(ents)
        .iter()
        .map(|e| {
            let mut t = format!("({}, {})", quote(s(&e["n"])), val_text(&e["v"]));
            if with_options {
                if let Some(role) = e.get("role") {
                    t.push_str(&format!(" {{role: {}}}", quote(s(role))));
                } else if let Some(o) = e.get("o") {
                    t.push_str(&format!(" {{after: {}}}", val_text(o)));
                }
            }
            t
        })
        .collect();
    format!("{{ {} }}", items.join(" "))
}

fn action_text(a: &Value) -> String {
    let ents = &a["ents"];
    match s(&a["b"]) {
        "FIELDS" => format!("SET FIELDS {}", assignments_text(ents)),
        "ATTRS" => format!("SET ATTRIBUTES {}", assignments_text(ents)),
        "FACET" => format!("SET FACET \"Fx\" {}", assignments_text(ents)),
        "STRUCT" => format!("SET STRUCTURAL {}", edges_text(ents, true)),
        "UNATTRS" => format!("UNSET ATTRIBUTES {}", unset_text(ents)),
        "UNFACET" => format!("UNSET FACET \"Fx\" {}", unset_text(ents)),
        "UNSTRUCT" => format!("UNSET STRUCTURAL {}", edges_text(ents, false)),
        "UNFIELDS" => format!("UNSET FIELDS {}", unset_text(ents)),
        // the retention object outside SET RETENTION has no spelling of its own
        "RETENTION" => format!("SET RETENTION {}", assignments_text(ents)),
        other => format!("SET {other} {{ }}"),
    }
}

fn acts_text(c: &Value) -> String {
    arr(&c["acts"]).iter().map(action_text).collect::<Vec<_>>().join(" ")
}

fn where_item_text(it: &Value) -> String {
    match tag(it) {
        "pat" => {
            let (kind, v, sp) = (s(&it[1]), s(&it[2]), s(&it[3]));
            match (kind, sp) {
                ("concept", "bare") => format!("?{v} {{id: \"K-1\"}}"),
                ("concept", _) => format!("?{v} CONCEPT {{id: \"K-1\"}}"),
                ("proposition", "bare") => format!("?{v} (:ws, \"rel\", :wo)"),
                ("proposition", "id") => format!("?{v} PROPOSITION (id: \"P-1\")"),
                ("proposition", _) => format!("?{v} PROPOSITION (:ws, \"rel\", :wo)"),
                (k, _) => format!("?{v} {} {{id: \"K-1\"}}", k.to_uppercase()),
            }
        }
        "end" => format!("PROPOSITION (?{}, \"rel\", :wo)", s(&it[1])),
        "belief" => match s(&it[2]) {
            "var" => format!("?{} BELIEF (?bp)", s(&it[1])),
            "id" => format!("?{} BELIEF (id: \"P-1\")", s(&it[1])),
            _ => format!("?{} BELIEF (:ws, \"rel\", :wo)", s(&it[1])),
        },
        "slot" => format!("?{} BELIEF SLOT (:ws, \"rel\")", s(&it[1])),
        "filter" => format!("FILTER(?{}.score > 1)", s(&it[1])),
        "not" => format!("NOT {}", where_text(&it[1])),
        "opt" => format!("OPTIONAL {}", where_text(&it[1])),
        "union" => format!("UNION {}", where_text(&it[1])),
        _ => String::new(),
    }
}

fn where_text(w: &Value) -> String {
    format!("{{ {} }}", arr(w).iter().map(where_item_text).collect::<Vec<_>>().join(" "))
}

fn opt_where_text(c: &Value) -> String {
    if c["hasw"].as_bool().unwrap_or(false) { format!(" WHERE {}", where_text(&c["w"])) } else { String::new() }
}

fn tuple_text(t: &Value) -> String {
    match s(&t["form"]) {
        "tuple" => format!("({}, \"rel\", {})", ref_text(&t["s"]), ref_text(&t["o"])),
        "id" => "(id: \"P-1\")".into(),
        "idp" => "(id: :pid)".into(),
        "predvar" => format!("({}, ?pr, {})", ref_text(&t["s"]), ref_text(&t["o"])),
        "litsubj" => format!("(\"lit\", \"rel\", {})", ref_text(&t["o"])),
        "nestid" => format!("((id: \"P-1\"), \"rel\", {})", ref_text(&t["o"])),
        _ => "()".into(),
    }
}

fn handle_text(c: &Value) -> String {
    let n = s(&c["claim"]);
    if n.is_empty() { String::new() } else { format!("?{n} ") }
}

fn clause_text(c: &Value) -> String {
    let fam = s(&c["fam"]);
    let tgt = ref_text(&c["tgt"]);
    let by = ref_text(&c["by"]);
    match fam {
        "create_concept" => format!("CREATE CONCEPT {}{{ TYPE \"T\" {} }}", handle_text(c), acts_text(c)),
        "upsert_concept" => {
            let m = if c["nomatch"].as_bool().unwrap_or(false) {
                String::new()
            } else {
                let items: Vec<String> =
                    arr(&c["sel"]).iter().map(|e| format!("{}: {}", key_text(e), val_text(&e["v"]))).collect();
                format!("MATCH {{{}}} ", items.join(", "))
            };
            format!("UPSERT CONCEPT {}{{ {}{} }}", handle_text(c), m, acts_text(c))
        }
        "create_evidence" | "create_assertion" | "create_activity" => {
            let kw = fam.trim_start_matches("create_").to_uppercase();
            let ck = match c.get("ckey") {
                Some(k) if tag(k) != "none" => format!("CLIENT KEY {} ", val_text(k)),
                _ => String::new(),
            };
            format!("CREATE {kw} {}{{ {}{} }}", handle_text(c), ck, acts_text(c))
        }
        "ensure" => format!("ENSURE PROPOSITION {}{}", handle_text(c), tuple_text(&c["tup"])),
        "assert" => {
            let sup = if tag(&c["sup"]) == "none" { String::new() } else { format!(" SUPERSEDING {}", ref_text(&c["sup"])) };
            format!("ASSERT {}{} {}{}", handle_text(c), tuple_text(&c["tup"]), assignments_text(&c["mem"]), sup)
        }
        "update" => format!("UPDATE {tgt} {}{}", acts_text(c), opt_where_text(c)),
        "transition" => format!("TRANSITION ACTIVITY {tgt} TO \"completed\" {}", acts_text(c)),
        "set_retention" => {
            // the retention object comes first; any other block has no place in the statement
            let mut obj = String::new();
            let mut rest = Vec::new();
            for a in arr(&c["acts"]) {
                if s(&a["b"]) == "RETENTION" && obj.is_empty() {
                    obj = assignments_text(&a["ents"]);
                } else {
                    rest.push(action_text(a));
                }
            }
            format!("SET RETENTION {tgt} {obj} {}{}", rest.join(" "), opt_where_text(c))
        }
        "archive" => format!("ARCHIVE {tgt}{}", opt_where_text(c)),
        "tombstone" => format!("TOMBSTONE {tgt}{}", opt_where_text(c)),
        "retract" => format!("RETRACT ASSERTION {tgt}{}", opt_where_text(c)),
        "purge" => format!("PURGE {tgt}{} CONFIRM {}", opt_where_text(c), quote(s(&c["confirm"]))),
        "supersede" => format!("SUPERSEDE ASSERTION {tgt} BY {by}"),
        "correct" => format!("CORRECT EVIDENCE {tgt} BY {by}"),
        "merge" => format!("MERGE CONCEPT {tgt} INTO {by}{}", opt_where_text(c)),
        "export" => format!("EXPORT CAPSULE {tgt} WHERE {}", where_text(&c["w"])),
        other => format!("UNKNOWN {other}"),
    }
}

fn plan_text(plan: &Value) -> String {
    let cs = arr(plan);
    if cs.len() == 1 {
        clause_text(&cs[0])
    } else {
        format!("MUTATE {{ {} }}", cs.iter().map(clause_text).collect::<Vec<_>>().join(" "))
    }
}

// ---------------------------------------------------------------------------
// (b) tree.  None = the AST type cannot carry this plan (a block the clause has no slot for, a
// bare-id ENSURE, the ASSERT shorthand itself, a second block of the same kind).

fn kip_literal(v: &Value) -> Option<Value> {
    Some(match tag(v) {
        "num" => json!({"Number": v[1]}),
        "str" => json!({"String": s(&v[1])}),
        "bool" => json!({"Bool": true}),
        "null" => json!("Null"),
        "arr" => {
            let mut out = Vec::new();
            for x in arr(&v[1]) {
                out.push(kip_literal(x)?);
            }
            json!({"Array": out})
        }
        "obj" => {
            let inner = kip_literal(&v[2])?;
            let mut m = Map::new();
            m.insert(s(&v[1]).to_string(), inner);
            json!({"Object": m})
        }
        _ => return None,
    })
}

fn path_json(var: &str) -> Value {
    json!({"var": var, "path": [{"Field": "score"}]})
}

/// BoundValue / MutationValue (same tags; `Expr` only at the top of a MutationValue).
fn value_tree(v: &Value) -> Value {
    if let Some(lit) = kip_literal(v) {
        return json!({"Value": lit});
    }
    match tag(v) {
        "p" => json!({"Param": s(&v[1])}),
        "h" => json!({"Handle": s(&v[1])}),
        "path" => json!({"Variable": path_json(s(&v[1]))}),
        "expr" => json!({"Expr": {"Function": {"func": "Add", "args": [{"Variable": path_json(s(&v[1]))}, {"Number": 1}]}}}),
        "exprp" => json!({"Expr": {"Function": {"func": "Add", "args": [{"Param": "pv"}, {"Number": 1}]}}}),
        "arr" => json!({"Array": arr(&v[1]).iter().map(value_tree).collect::<Vec<_>>()}),
        "obj" => json!({"Object": [[s(&v[1]), value_tree(&v[2])]]}),
        _ => Value::Null,
    }
}

fn scalar_tree(v: &Value) -> Option<Value> {
    match tag(v) {
        "p" => Some(json!({"Param": s(&v[1])})),
        "num" | "str" | "bool" | "null" => Some(json!({"Literal": kip_literal(v)?})),
        _ => None,
    }
}

fn ref_tree(r: &Value) -> Value {
    match tag(r) {
        "h" => json!({"Handle": s(&r[1])}),
        "p" => json!({"Param": s(&r[1])}),
        "id" => json!({"Id": s(&r[1])}),
        _ => Value::Null,
    }
}

fn term_tree(r: &Value) -> Value {
    match tag(r) {
        "h" => json!({"Variable": s(&r[1])}),
        "p" => json!({"Param": s(&r[1])}),
        _ => Value::Null,
    }
}

fn assignments_tree(ents: &Value) -> Value {
    Value::Array(arr(ents).iter().map(|e| json!([s(&e["n"]), value_tree(&e["v"])])).collect())
}

fn names_tree(ents: &Value) -> Value {
    Value::Array(arr(ents).iter().map(|e| json!(s(&e["n"]))).collect())
}

fn edges_tree(ents: &Value) -> Value {
    Value::Array(
        arr(ents)
            .iter()
            .map(|e| {
                let options = if let Some(role) = e.get("role") {
                    json!({"role": {"Value": {"String": s(role)}}})
                } else if let Some(o) = e.get("o") {
                    json!({"after": value_tree(o)})
                } else {
                    Value::Null
                };
                json!({"field": {"Name": s(&e["n"])}, "value": value_tree(&e["v"]), "options": options})
            })
            .collect(),
    )
}

fn removals_tree(ents: &Value) -> Value {
    Value::Array(arr(ents).iter().map(|e| json!({"field": {"Name": s(&e["n"])}, "value": value_tree(&e["v"])})).collect())
}

fn wtuple(subject: Value) -> Value {
    json!({"subject": subject, "predicate": {"Atom": {"Literal": "rel"}}, "object": {"Param": "wo"}})
}

fn where_item_tree(it: &Value) -> Value {
    let idm = json!({"id": {"Literal": {"String": "K-1"}}});
    match tag(it) {
        "pat" => {
            let (kind, v, sp) = (s(&it[1]), s(&it[2]), s(&it[3]));
            match kind {
                "concept" => json!({"Concept": {"variable": v, "matcher": idm}}),
                "assertion" => json!({"Assertion": {"variable": v, "matcher": idm}}),
                "evidence" => json!({"Evidence": {"variable": v, "matcher": idm}}),
                "activity" => json!({"Activity": {"variable": v, "matcher": idm}}),
                _ => {
                    let matcher = if sp == "id" {
                        json!({"Id": {"Literal": {"String": "P-1"}}})
                    } else {
                        json!({"Tuple": wtuple(json!({"Param": "ws"}))})
                    };
                    json!({"Proposition": {"variable": v, "matcher": matcher}})
                }
            }
        }
        "end" => json!({"Proposition": {"variable": null, "matcher": {"Tuple": wtuple(json!({"Variable": s(&it[1])}))}}}),
        "belief" => {
            let target = match s(&it[2]) {
                "var" => json!({"Proposition": "bp"}),
                "id" => json!({"Id": {"Literal": {"String": "P-1"}}}),
                _ => json!({"Tuple": wtuple(json!({"Param": "ws"}))}),
            };
            json!({"Belief": {"variable": s(&it[1]), "target": target}})
        }
        "slot" => json!({"BeliefSlot": {"variable": s(&it[1]), "subject": {"Param": "ws"}, "predicate": {"Literal": "rel"}}}),
        "filter" => json!({"Filter": {"expression": {"Comparison": {
            "left": {"Variable": path_json(s(&it[1]))}, "operator": "GreaterThan", "right": {"Literal": {"Number": 1}}}}}}),
        "not" => json!({"Not": where_tree(&it[1])}),
        "opt" => json!({"Optional": where_tree(&it[1])}),
        "union" => json!({"Union": where_tree(&it[1])}),
        _ => Value::Null,
    }
}

fn where_tree(w: &Value) -> Value {
    Value::Array(arr(w).iter().map(where_item_tree).collect())
}

fn opt_where_tree(c: &Value) -> Value {
    if c["hasw"].as_bool().unwrap_or(false) { where_tree(&c["w"]) } else { Value::Null }
}

/// Folds the actions of a body family into the slots its struct has.
struct Slots {
    one: BTreeMap<&'static str, Value>,
    set_facets: Vec<Value>,
    unset_facets: Vec<Value>,
}

fn slots(c: &Value, allowed: &[&str]) -> Option<Slots> {
    let mut out = Slots { one: BTreeMap::new(), set_facets: vec![], unset_facets: vec![] };
    for a in arr(&c["acts"]) {
        let b = s(&a["b"]);
        if !allowed.contains(&b) {
            return None;
        }
        let ents = &a["ents"];
        let (slot, v): (&'static str, Value) = match b {
            "FIELDS" => ("set_fields", assignments_tree(ents)),
            "ATTRS" => ("set_attributes", assignments_tree(ents)),
            "RETENTION" => ("values", assignments_tree(ents)),
            "STRUCT" => ("set_structural", edges_tree(ents)),
            "UNATTRS" => ("unset_attributes", names_tree(ents)),
            "UNSTRUCT" => ("unset_structural", removals_tree(ents)),
            "FACET" => {
                out.set_facets.push(json!({"facet": {"Name": "Fx"}, "values": assignments_tree(ents)}));
                continue;
            }
            "UNFACET" => {
                out.unset_facets.push(json!({"facet": {"Name": "Fx"}, "fields": names_tree(ents)}));
                continue;
            }
            _ => return None,
        };
        if out.one.insert(slot, v).is_some() {
            return None;
        }
    }
    Some(out)
}

fn slot(sl: &Slots, name: &str) -> Value {
    sl.one.get(name).cloned().unwrap_or(Value::Null)
}

fn clause_tree(c: &Value) -> Option<Value> {
    let fam = s(&c["fam"]);
    let claim = s(&c["claim"]);
    Some(match fam {
        "create_concept" => {
            let sl = slots(c, &["FIELDS", "ATTRS", "FACET", "STRUCT"])?;
            json!({"CreateConcept": {"handle": claim, "type": {"Name": "T"}, "client_key": null, "name": null,
                "set_fields": slot(&sl, "set_fields"), "set_attributes": slot(&sl, "set_attributes"),
                "set_facets": sl.set_facets, "set_structural": slot(&sl, "set_structural")}})
        }
        "upsert_concept" => {
            let sl = slots(c, &["FIELDS", "ATTRS", "FACET", "STRUCT", "UNATTRS", "UNFACET", "UNSTRUCT"])?;
            let m = if c["nomatch"].as_bool().unwrap_or(false) {
                Value::Null
            } else {
                let mut m = Map::new();
                for e in arr(&c["sel"]) {
                    let v = &e["v"];
                    let mv = match tag(v) {
                        "p" => json!({"Param": s(&v[1])}),
                        "var" => json!({"Variable": s(&v[1])}),
                        _ => json!({"Literal": kip_literal(v)?}),
                    };
                    if m.insert(s(&e["n"]).to_string(), mv).is_some() {
                        return None;
                    }
                }
                Value::Object(m)
            };
            json!({"UpsertConcept": {"handle": claim, "match": m, "expect_version": null,
                "set_fields": slot(&sl, "set_fields"), "set_attributes": slot(&sl, "set_attributes"),
                "set_facets": sl.set_facets, "unset_attributes": slot(&sl, "unset_attributes"),
                "unset_facets": sl.unset_facets, "set_structural": slot(&sl, "set_structural"),
                "unset_structural": slot(&sl, "unset_structural")}})
        }
        "create_evidence" | "create_assertion" | "create_activity" => {
            let sl = slots(c, &["FIELDS", "FACET", "STRUCT"])?;
            let ck = match c.get("ckey") {
                Some(k) if tag(k) != "none" => scalar_tree(k)?,
                _ => Value::Null,
            };
            let variant = match fam {
                "create_evidence" => "CreateEvidence",
                "create_assertion" => "CreateAssertion",
                _ => "CreateActivity",
            };
            json!({variant: {"handle": claim, "client_key": ck, "set_fields": slot(&sl, "set_fields"),
                "set_facets": sl.set_facets, "set_structural": slot(&sl, "set_structural")}})
        }
        "ensure" => {
            let t = &c["tup"];
            let (subject, predicate) = match s(&t["form"]) {
                "tuple" => (term_tree(&t["s"]), json!({"Literal": "rel"})),
                "predvar" => (term_tree(&t["s"]), json!({"Variable": "pr"})),
                "litsubj" => (json!({"Literal": {"String": "lit"}}), json!({"Literal": "rel"})),
                "nestid" => (json!({"Proposition": {"Id": {"Literal": {"String": "P-1"}}}}), json!({"Literal": "rel"})),
                _ => return None,
            };
            let handle = if claim.is_empty() { Value::Null } else { json!(claim) };
            json!({"EnsureProposition": {"handle": handle, "subject": subject, "predicate": predicate,
                "object": term_tree(&t["o"]), "expect_version": null}})
        }
        "assert" => return None,
        "update" => {
            let mut actions = Vec::new();
            for a in arr(&c["acts"]) {
                let ents = &a["ents"];
                actions.push(match s(&a["b"]) {
                    "FIELDS" => json!({"SetFields": assignments_tree(ents)}),
                    "ATTRS" => json!({"SetAttributes": assignments_tree(ents)}),
                    "FACET" => json!({"SetFacet": {"facet": {"Name": "Fx"}, "values": assignments_tree(ents)}}),
                    "UNATTRS" => json!({"UnsetAttributes": names_tree(ents)}),
                    "UNFACET" => json!({"UnsetFacet": {"facet": {"Name": "Fx"}, "fields": names_tree(ents)}}),
                    "STRUCT" => json!({"SetStructural": edges_tree(ents)}),
                    "UNSTRUCT" => json!({"UnsetStructural": removals_tree(ents)}),
                    _ => return None,
                });
            }
            json!({"Update": {"target": ref_tree(&c["tgt"]), "expect_version": null, "actions": actions,
                "where_clauses": opt_where_tree(c), "limit": null}})
        }
        "transition" => {
            let sl = slots(c, &["FIELDS", "STRUCT"])?;
            json!({"TransitionActivity": {"target": ref_tree(&c["tgt"]), "to": {"Literal": {"String": "completed"}},
                "set_fields": slot(&sl, "set_fields"), "set_structural": slot(&sl, "set_structural"), "expect_state": null}})
        }
        "set_retention" => {
            let sl = slots(c, &["RETENTION"])?;
            let values = sl.one.get("values").cloned()?;
            json!({"SetRetention": {"target": ref_tree(&c["tgt"]), "values": values, "where_clauses": opt_where_tree(c),
                "limit": null, "expect_version": null}})
        }
        "archive" | "tombstone" => {
            let variant = if fam == "archive" { "Archive" } else { "Tombstone" };
            json!({variant: {"target": ref_tree(&c["tgt"]), "where_clauses": opt_where_tree(c), "limit": null, "expect_state": null}})
        }
        "retract" => json!({"RetractAssertion": {"target": ref_tree(&c["tgt"]), "where_clauses": opt_where_tree(c),
            "limit": null, "expect_state": null}}),
        "purge" => json!({"Purge": {"target": ref_tree(&c["tgt"]), "where_clauses": opt_where_tree(c), "limit": null,
            "reference_policy": null, "confirm": s(&c["confirm"])}}),
        "supersede" => json!({"SupersedeAssertion": {"target": ref_tree(&c["tgt"]), "by": ref_tree(&c["by"]), "expect_state": null}}),
        "correct" => json!({"CorrectEvidence": {"target": ref_tree(&c["tgt"]), "by": ref_tree(&c["by"]), "expect_state": null}}),
        "merge" => json!({"MergeConcept": {"source": ref_tree(&c["tgt"]), "into": ref_tree(&c["by"]),
            "where_clauses": opt_where_tree(c), "expect_version": null}}),
        _ => return None,
    })
}

fn plan_tree(plan: &Value, explicit: bool) -> Option<Value> {
    let cs = arr(plan);
    if cs.len() == 1 && s(&cs[0]["fam"]) == "export" {
        let c = &cs[0];
        return Some(json!({"Meta": {"ExportCapsule": {"target": ref_tree(&c["tgt"]), "where_clauses": where_tree(&c["w"]),
            "options": null, "as_of": null}}}));
    }
    let mut clauses = Vec::new();
    for c in cs {
        clauses.push(clause_tree(c)?);
    }
    Some(json!({"Kml": {"explicit_transaction": explicit, "clauses": clauses}}))
}

// ---------------------------------------------------------------------------
// running the real code

#[derive(Clone, Debug)]
enum Outcome {
    Accept(Box<Command>),
    Refuse(String),
    Panic(String),
}

impl Outcome {
    fn label(&self) -> String {
        match self {
            Outcome::Accept(_) => "accept".into(),
            Outcome::Refuse(m) => format!("refuse: {m}"),
            Outcome::Panic(m) => format!("panic: {m}"),
        }
    }
    fn accepted(&self) -> bool {
        matches!(self, Outcome::Accept(_))
    }
    fn kind(&self) -> &'static str {
        match self {
            Outcome::Accept(_) => "accept",
            Outcome::Refuse(_) => "refuse",
            Outcome::Panic(_) => "panic",
        }
    }
}

fn guarded<F: FnOnce() -> Result<Command, anda_kip::KipError>>(f: F) -> Outcome {
    match catch_unwind(AssertUnwindSafe(f)) {
        Ok(Ok(c)) => Outcome::Accept(Box::new(c)),
        Ok(Err(e)) => Outcome::Refuse(format!("{:?} {}", e.code, e.message.lines().last().unwrap_or("").trim())),
        Err(p) => Outcome::Panic(
            p.downcast_ref::<String>().cloned().or_else(|| p.downcast_ref::<&str>().map(|x| x.to_string())).unwrap_or_default(),
        ),
    }
}

fn run_text(text: &str) -> (Outcome, Outcome) {
    let a = guarded(|| anda_kip::parse_kip(text));
    let b = if text.trim_start().starts_with("EXPORT") {
        // parse_meta is grammar only; the validating entry point for META text is parse_kip
        a.clone()
    } else {
        guarded(|| anda_kip::parse_kml(text).map(Command::Kml))
    };
    (a, b)
}

fn run_tree(tree: &Value) -> (Outcome, Outcome) {
    let cmd: Command = match serde_json::from_value(tree.clone()) {
        Ok(c) => c,
        Err(e) => {
            let o = Outcome::Panic(format!("harness tree does not decode: {e}"));
            return (o.clone(), o);
        }
    };
    let c1 = cmd.clone();
    let a = guarded(move || anda_kip::validate_command(&c1).map(|_| c1.clone()));
    let op = Operation { ast: Some(cmd), ..Default::default() };
    let b = guarded(move || op.parse());
    (a, b)
}

// ---------------------------------------------------------------------------
// the independent walker: bare safety facts on a command the real code accepted

fn where_has_belief(ws: &[WhereClause]) -> bool {
    ws.iter().any(|w| match w {
        WhereClause::Belief { .. } | WhereClause::BeliefSlot { .. } => true,
        WhereClause::Not(i) | WhereClause::Optional(i) | WhereClause::Union(i) => where_has_belief(i),
        _ => false,
    })
}

fn akeys(a: &Option<anda_kip::Assignments>) -> Vec<&str> {
    a.as_ref().map(|a| a.iter().map(|(k, _)| k.as_str()).collect()).unwrap_or_default()
}

fn walk(cmd: &Command) -> Vec<String> {
    let mut bad = Vec::new();
    let check_keys = |keys: Vec<&str>, what: &str, bad: &mut Vec<String>| {
        for k in keys {
            if PROTECTED.contains(&k) {
                bad.push(format!("{what} names engine-owned `{k}`"));
            }
        }
    };
    match cmd {
        Command::Kml(st) => {
            let mut claims = BTreeSet::new();
            for c in &st.clauses {
                if let Some(h) = c.handle() {
                    if !claims.insert(h.to_string()) {
                        bad.push(format!("?{h} claimed twice"));
                    }
                }
                let wh: Option<&Vec<WhereClause>> = match c {
                    MutationClause::Update(u) => u.where_clauses.as_ref(),
                    MutationClause::RetractAssertion(u) => u.where_clauses.as_ref(),
                    MutationClause::SetRetention(u) => u.where_clauses.as_ref(),
                    MutationClause::Archive(u) | MutationClause::Tombstone(u) => u.where_clauses.as_ref(),
                    MutationClause::Purge(u) => u.where_clauses.as_ref(),
                    MutationClause::MergeConcept(u) => u.where_clauses.as_ref(),
                    _ => None,
                };
                if wh.is_some_and(|w| where_has_belief(w)) {
                    bad.push("a belief projection selects a mutation target".into());
                }
                match c {
                    MutationClause::CreateConcept(x) => {
                        check_keys(akeys(&x.set_fields), "SET FIELDS", &mut bad);
                        check_keys(akeys(&x.set_attributes), "SET ATTRIBUTES", &mut bad);
                        for f in &x.set_facets {
                            check_keys(f.values.iter().map(|(k, _)| k.as_str()).collect(), "SET FACET", &mut bad);
                        }
                    }
                    MutationClause::UpsertConcept(x) => {
                        check_keys(akeys(&x.set_fields), "SET FIELDS", &mut bad);
                        check_keys(akeys(&x.set_attributes), "SET ATTRIBUTES", &mut bad);
                        for f in &x.set_facets {
                            check_keys(f.values.iter().map(|(k, _)| k.as_str()).collect(), "SET FACET", &mut bad);
                        }
                        check_keys(x.unset_attributes.iter().flatten().map(|k| k.as_str()).collect(), "UNSET ATTRIBUTES", &mut bad);
                        for f in &x.unset_facets {
                            check_keys(f.fields.iter().map(|k| k.as_str()).collect(), "UNSET FACET", &mut bad);
                        }
                        let stable = x.r#match.as_ref().is_some_and(|m| {
                            ["id", "key"].iter().any(|k| {
                                matches!(m.get(*k), Some(anda_kip::MatchValue::Literal(_) | anda_kip::MatchValue::Param(_)))
                            })
                        });
                        if !stable {
                            bad.push("UPSERT without a stable identity selector".into());
                        }
                    }
                    MutationClause::CreateEvidence(x) | MutationClause::CreateAssertion(x) | MutationClause::CreateActivity(x) => {
                        check_keys(akeys(&x.set_fields), "SET FIELDS", &mut bad);
                        for f in &x.set_facets {
                            check_keys(f.values.iter().map(|(k, _)| k.as_str()).collect(), "SET FACET", &mut bad);
                        }
                    }
                    MutationClause::Update(x) => {
                        for a in &x.actions {
                            match a {
                                UpdateAction::SetFields(v) | UpdateAction::SetAttributes(v) => {
                                    check_keys(v.iter().map(|(k, _)| k.as_str()).collect(), "UPDATE SET", &mut bad)
                                }
                                UpdateAction::SetFacet(f) => {
                                    check_keys(f.values.iter().map(|(k, _)| k.as_str()).collect(), "UPDATE SET FACET", &mut bad)
                                }
                                UpdateAction::UnsetAttributes(f) => check_keys(f.iter().map(|k| k.as_str()).collect(), "UPDATE UNSET", &mut bad),
                                UpdateAction::UnsetFacet(f) => {
                                    check_keys(f.fields.iter().map(|k| k.as_str()).collect(), "UPDATE UNSET FACET", &mut bad)
                                }
                                _ => {}
                            }
                        }
                    }
                    MutationClause::TransitionActivity(x) => check_keys(akeys(&x.set_fields), "TRANSITION SET FIELDS", &mut bad),
                    MutationClause::SetRetention(x) => check_keys(x.values.iter().map(|(k, _)| k.as_str()).collect(), "SET RETENTION", &mut bad),
                    MutationClause::Purge(x) => {
                        if x.confirm != "PURGE" {
                            bad.push("PURGE without its confirmation".into());
                        }
                    }
                    _ => {}
                }
            }
            if st.clauses.is_empty() {
                bad.push("empty plan".into());
            }
        }
        Command::Meta(anda_kip::MetaCommand::ExportCapsule(e)) => {
            if where_has_belief(&e.where_clauses) {
                bad.push("a belief projection selects an export".into());
            }
        }
        _ => {}
    }
    bad
}

// ---------------------------------------------------------------------------
// comparison of trees

/// Orders assignment lists by key: `{a: 1, b: 2}` and `{b: 2, a: 1}` assign the same fields.
fn normalize(v: &mut Value) {
    match v {
        Value::Object(m) => {
            for (k, x) in m.iter_mut() {
                if (k == "set_fields" || k == "set_attributes" || k == "values") && x.is_array() {
                    if let Some(a) = x.as_array_mut() {
                        a.sort_by(|p, q| p[0].as_str().cmp(&q[0].as_str()));
                    }
                }
                normalize(x);
            }
        }
        Value::Array(a) => a.iter_mut().for_each(normalize),
        _ => {}
    }
}

fn rename(v: &mut Value, map: &BTreeMap<String, String>) {
    match v {
        Value::Object(m) => {
            for (k, x) in m.iter_mut() {
                if k == "Handle" || k == "handle" {
                    if let Some(n) = x.as_str().and_then(|n| map.get(n)) {
                        *x = Value::String(n.clone());
                        continue;
                    }
                }
                rename(x, map);
            }
        }
        Value::Array(a) => a.iter_mut().for_each(|x| rename(x, map)),
        _ => {}
    }
}

fn claim_of(clause: &Value) -> Option<String> {
    clause.as_object()?.values().next()?.get("handle")?.as_str().map(|x| x.to_string())
}

/// `expected` carries the synthetic handles "#a<k>" / "#p<k>"; the implementation is free to name
/// them as it likes as long as the names are fresh.  Maps them position by position.
fn align_synthetic(expected: &mut Value, actual: &Value) -> Result<(), String> {
    let ecl = expected["Kml"]["clauses"].as_array().cloned().unwrap_or_default();
    let acl = actual["Kml"]["clauses"].as_array().cloned().unwrap_or_default();
    if ecl.len() != acl.len() {
        return Err(format!("expected {} clauses, the parser produced {}", ecl.len(), acl.len()));
    }
    let mut map = BTreeMap::new();
    let mut authored = BTreeSet::new();
    for (e, a) in ecl.iter().zip(acl.iter()) {
        if let (Some(en), Some(an)) = (claim_of(e), claim_of(a)) {
            if en.starts_with('#') {
                map.insert(en, an);
            } else {
                authored.insert(en);
            }
        }
    }
    let fresh: BTreeSet<&String> = map.values().collect();
    if fresh.len() != map.len() || map.values().any(|n| authored.contains(n)) {
        return Err(format!("synthetic handles are not fresh: {map:?}"));
    }
    rename(expected, &map);
    Ok(())
}

// ---------------------------------------------------------------------------

#[derive(Default)]
struct Stats {
    cases: u64,
    text_runs: u64,
    tree_runs: u64,
    text_accept: u64,
    text_refuse: u64,
    tree_accept: u64,
    tree_refuse: u64,
    tree_unrepresentable: u64,
    either: u64,
    equal_trees: u64,
    expansions: u64,
    walked: u64,
    mismatches: u64,
    by_family: BTreeMap<String, (u64, u64, u64)>,
}

fn run_cases(path: &str, out_path: &str) {
    let f = std::fs::File::open(path).expect("cases file");
    let mut st = Stats::default();
    let mut mism: Vec<Value> = Vec::new();
    let mut samples: Vec<Value> = Vec::new();
    let mut texts: BTreeSet<u64> = BTreeSet::new();
    let mut nontrivial = 0u64;
    let max_keep: usize = std::env::var("KMLG_MAX_KEEP").ok().and_then(|x| x.parse().ok()).unwrap_or(400);
    std::panic::set_hook(Box::new(|_| {}));
    for line in std::io::BufReader::new(f).lines() {
        let line = line.unwrap();
        if line.trim().is_empty() {
            continue;
        }
        let case: Value = serde_json::from_str(&line).expect("case json");
        st.cases += 1;
        let fam = s(&case["f"]).to_string();
        let exp = s(&case["exp"]).to_string();
        let plan = &case["plan"];
        let multi = arr(plan).len() != 1;
        let text = plan_text(plan);
        {
            use std::hash::{Hash, Hasher};
            let mut h = std::collections::hash_map::DefaultHasher::new();
            text.hash(&mut h);
            if texts.insert(h.finish()) && exp == "refuse" {
                nontrivial += 1;
            }
        }
        let has_assert = arr(plan).iter().any(|c| s(&c["fam"]) == "assert");
        let tree = plan_tree(plan, multi);
        let xtree = if has_assert && !arr(&case["x"]).is_empty() { plan_tree(&case["x"], multi) } else { None };

        let report = |kind: &str, detail: String, tres: &str, jres: &str, mism: &mut Vec<Value>, st: &mut Stats| {
            st.mismatches += 1;
            if mism.len() < max_keep {
                mism.push(json!({"mismatch": kind, "detail": detail, "f": fam, "i": case["i"], "exp": exp, "must": case["must"],
                    "may": case["may"], "text": text, "text_result": tres, "tree": tree, "tree_result": jres, "case": case}));
            }
        };

        // (a) text
        let (t1, t2) = run_text(&text);
        st.text_runs += 1;
        let tl = t1.label();
        let e = st.by_family.entry(fam.clone()).or_default();
        e.0 += 1;
        if t1.accepted() {
            st.text_accept += 1;
            e.1 += 1;
        } else {
            st.text_refuse += 1;
            e.2 += 1;
        }
        if let Outcome::Panic(m) = &t1 {
            report("panic_text", m.clone(), &tl, "", &mut mism, &mut st);
        }
        if t1.kind() != t2.kind() {
            report("entry_points_disagree", format!("parse_kip: {} / parse_kml: {}", tl, t2.label()), &tl, "", &mut mism, &mut st);
        }
        match (exp.as_str(), t1.accepted()) {
            ("refuse", true) => report("text_accepts_forbidden", String::new(), &tl, "", &mut mism, &mut st),
            ("accept", false) => report("text_refuses_allowed", String::new(), &tl, "", &mut mism, &mut st),
            ("either", _) => st.either += 1,
            _ => {}
        }
        if let Outcome::Accept(cmd) = &t1 {
            st.walked += 1;
            for b in walk(cmd) {
                report("walker_text", b, &tl, "", &mut mism, &mut st);
            }
            let mut actual = serde_json::to_value(&**cmd).unwrap();
            normalize(&mut actual);
            if has_assert {
                // exactly the expansion the specification computes
                if let Some(mut xt) = xtree.clone() {
                    normalize(&mut xt);
                    match align_synthetic(&mut xt, &actual) {
                        Err(m) => report("expansion_differs", m, &tl, "", &mut mism, &mut st),
                        Ok(()) => {
                            if xt != actual {
                                report("expansion_differs", format!("expected {xt} / parsed {actual}"), &tl, "", &mut mism, &mut st);
                            } else {
                                st.expansions += 1;
                            }
                        }
                    }
                } else if exp != "refuse" {
                    report("harness", "no expansion tree for an ASSERT plan".into(), &tl, "", &mut mism, &mut st);
                }
            } else if let Some(mut t) = tree.clone() {
                normalize(&mut t);
                if t != actual {
                    report("tree_differs_from_text", format!("built {t} / parsed {actual}"), &tl, "", &mut mism, &mut st);
                } else {
                    st.equal_trees += 1;
                }
            } else {
                report("harness", "text accepted but the harness has no tree for it".into(), &tl, "", &mut mism, &mut st);
            }
        }

        // (b) tree: the plan itself, or for the shorthand its expansion
        let injected = if has_assert { xtree.clone() } else { tree.clone() };
        match injected {
            None => st.tree_unrepresentable += 1,
            Some(t) => {
                let (j1, j2) = run_tree(&t);
                st.tree_runs += 1;
                let jl = j1.label();
                if j1.accepted() {
                    st.tree_accept += 1;
                } else {
                    st.tree_refuse += 1;
                }
                if let Outcome::Panic(m) = &j1 {
                    report("panic_tree", m.clone(), &tl, &jl, &mut mism, &mut st);
                }
                if j1.kind() != j2.kind() {
                    report("entry_points_disagree", format!("validate_command: {} / Operation.parse: {}", jl, j2.label()), &tl, &jl, &mut mism, &mut st);
                }
                match (exp.as_str(), j1.accepted()) {
                    ("refuse", true) => report("tree_accepts_forbidden", String::new(), &tl, &jl, &mut mism, &mut st),
                    ("accept", false) => report("tree_refuses_allowed", String::new(), &tl, &jl, &mut mism, &mut st),
                    _ => {}
                }
                if let Outcome::Accept(cmd) = &j1 {
                    st.walked += 1;
                    for b in walk(cmd) {
                        report("walker_tree", b, &tl, &jl, &mut mism, &mut st);
                    }
                }
            }
        }
        if samples.len() < 6 && (st.cases % 9973 == 1) {
            samples.push(json!({"f": fam, "exp": exp, "must": case["must"], "text": text, "text_result": tl}));
        }
    }
    let fams: Map<String, Value> = st
        .by_family
        .iter()
        .map(|(k, v)| (k.clone(), json!({"cases": v.0, "text_accepted": v.1, "text_refused": v.2})))
        .collect();
    let summary = json!({"summary": true, "cases": st.cases, "text_runs": st.text_runs, "tree_runs": st.tree_runs,
        "text_accept": st.text_accept, "text_refuse": st.text_refuse, "tree_accept": st.tree_accept, "tree_refuse": st.tree_refuse,
        "tree_unrepresentable": st.tree_unrepresentable, "either": st.either, "equal_trees": st.equal_trees,
        "expansions_equal": st.expansions, "walked": st.walked, "distinct_texts": texts.len(), "distinct_refused": nontrivial,
        "mismatches": st.mismatches, "by_family": fams, "samples": samples});
    let out = json!({"summary": summary, "mismatches": mism});
    std::fs::write(out_path, serde_json::to_string(&out).unwrap()).expect("write out");
    println!("{}", summary);
}

fn probe() {
    let stdin = std::io::stdin();
    for line in stdin.lock().lines() {
        let line = line.unwrap();
        if line.trim().is_empty() {
            continue;
        }
        match anda_kip::parse_kip(&line) {
            Ok(cmd) => println!("ACCEPT {}\n   {}", line, serde_json::to_string(&cmd).unwrap()),
            Err(e) => println!("REFUSE {}\n   {:?} {}", line, e.code, e.message.lines().last().unwrap_or("")),
        }
    }
}

fn main() {
    let args: Vec<String> = std::env::args().collect();
    match args.get(1).map(|x| x.as_str()) {
        Some("run") => run_cases(&args[2], &args[3]),
        Some("probe") => probe(),
        _ => {
            eprintln!("usage: drive_kmlguards run <cases.ndjson> <out.json> | probe");
            std::process::exit(2);
        }
    }
}
