use std::io::BufRead;
fn main() {
    let stdin = std::io::stdin();
    for line in stdin.lock().lines() {
        let line = line.unwrap();
        if line.trim().is_empty() { continue; }
        match anda_kip::parse_kip(&line) {
            Ok(cmd) => println!("ACCEPT {}\n   {}", line, serde_json::to_string(&cmd).unwrap()),
            Err(e) => println!("REFUSE {}\n   {:?} {}", line, e.code, e.message.lines().last().unwrap_or("")),
        }
    }
}
