//! probe (temporary)
use anda_cognitive_nexus::{
    CognitiveNexus, ElementId,
    governance::{
        AuthContext, SYSTEM_PRINCIPAL,
        rows::{AuthorityConstraints, AuthorityScope, principal_class},
        store::{GrantDraft, PrincipalDraft},
    },
    nexus::{DEFAULT_SPACE, Session},
};
use anda_kip::{Executor, Request, Response};
use serde_json::{Value, json};
use verif_harness::nexus::fresh;

async fn run_as(session: &Session, command: &str, extra: Value) -> Response {
    let mut req = json!({"kip": "2.0", "operations": [{"command": command}]});
    if let Some(o) = extra.as_object() {
        for (k, v) in o {
            req[k] = v.clone();
        }
    }
    let request = serde_json::from_value::<Request>(req).unwrap();
    let parsed = match request.operations[0].parse() {
        Ok(p) => p,
        Err(e) => panic!("parse {command}: {e}"),
    };
    session.execute(parsed, &request, &request.operations[0]).await
}

fn show(tag: &str, r: &Response) {
    println!("--- {tag}\n{}", serde_json::to_string_pretty(&serde_json::to_value(r).unwrap()).unwrap());
}

#[tokio::main]
async fn main() {
    let nexus: CognitiveNexus = fresh("probe").await;
    let owner = nexus.system_session();
    let labels = ["public", "secret", "", "private"];
    for (i, l) in labels.iter().enumerate() {
        let cmd = format!(
            r#"CREATE CONCEPT ?c {{ TYPE "{}" NAME "N{}" SET ATTRIBUTES {{tag: "zebra{}", rank: {}}} }}"#,
            if i % 2 == 0 { "Person" } else { "Preference" },
            i + 1,
            i + 1,
            10 - i
        );
        let r = run_as(&owner, &cmd, json!({})).await;
        if i == 0 || r.status != anda_kip::TopLevelStatus::Succeeded {
            show("create", &r);
        }
        if !l.is_empty() {
            owner.classify(DEFAULT_SPACE, ElementId::new(anda_kip::ElementKind::Concept, i as u64 + 1), l).await.unwrap();
        }
    }
    let r = run_as(&owner, r#"ENSURE PROPOSITION ?p ({id: "C-1"}, "mentions", {id: "C-2"})"#, json!({})).await;
    show("ensure", &r);
    let r = run_as(&owner, r#"FIND(?p) WHERE { ?p PROPOSITION (?s, "mentions", ?o) }"#, json!({})).await;
    show("prop", &r);
    let r = run_as(&owner, r#"FIND(?c) WHERE { ?c CONCEPT {id: "C-2"} }"#, json!({})).await;
    show("owner C-2", &r);
    let gov = nexus.governance();
    gov.ensure_principal(PrincipalDraft {
        principal_id: "kip:principal:a".into(),
        principal_class: principal_class::AGENT.into(),
        display_name: "a".into(),
        auth_provider: "t".into(),
        auth_subject: "a".into(),
    })
    .await
    .unwrap();
    gov.create_grant(
        GrantDraft {
            space_id: DEFAULT_SPACE.into(),
            grantee_principal: "kip:principal:a".into(),
            actions: ["read", "search", "discover", "read_history", "export"].iter().map(|s| s.to_string()).collect(),
            scope: AuthorityScope::default(),
            constraints: AuthorityConstraints { max_classification: "internal".into(), export: true, ..Default::default() },
            ..Default::default()
        },
        SYSTEM_PRINCIPAL,
    )
    .await
    .unwrap();
    let a = nexus.session(AuthContext::principal("kip:principal:a"));
    for cmd in [
        r#"FIND(?c.id, ?c.name) WHERE { ?c CONCEPT {} }"#,
        r#"FIND(?p, ?s, ?o.name) WHERE { ?p PROPOSITION (?s, "mentions", ?o) }"#,
        r#"HISTORY SPACE"#,
        r#"HISTORY SPACE LIMIT 2"#,
        r#"HISTORY ELEMENT "C-2" LIMIT 1"#,
        r#"HISTORY ELEMENT "C-99" LIMIT 1"#,
        r#"SEARCH CONCEPT "zebra2""#,
        r#"SEARCH CONCEPT "N1" LIMIT 1"#,
        r#"DESCRIBE PRIMER"#,
        r#"SNAPSHOT"#,
        r#"EXPORT CAPSULE ?c WHERE { ?c CONCEPT {} }"#,
        r#"CHANGES AFTER SEQ 0"#,
        r#"FIND(?c.name) WHERE { ?c CONCEPT {} } AS OF SEQ 3"#,
        r#"DESCRIBE ACCESS"#,
    ] {
        let r = run_as(&a, cmd, json!({})).await;
        show(&format!("a: {cmd}"), &r);
    }
    let r = run_as(&owner, "HISTORY SPACE", json!({})).await;
    show("owner history", &r);
    let txs = r.first_result().unwrap().as_array().unwrap().clone();
    for t in &txs {
        let id = t["tx_id"].as_str().unwrap();
        let r = run_as(&a, &format!(r#"DESCRIBE TRANSACTION "{id}""#), json!({})).await;
        println!("a: DESCRIBE TRANSACTION {id} -> {}", serde_json::to_string(&r.first_result()).unwrap());
    }
    let e = nexus.store.get_element(ElementId::new(anda_kip::ElementKind::Concept, 2)).await.unwrap();
    println!("gov block C-2: {}", e.governance());
}
