//! C19 driver: replays the governance configurations enumerated by TLC (spec/MC_Governance.tla) on a real
//! CognitiveNexus.
//!
//!   drive_governance run <cases.jsonl>
//!
//! Part 1 (non-interference).  Per population one FULL store is built by the owner (the system session) with KML +
//! Session::classify.  Every configuration is written through the HOST CONTROL PLANE (GovernanceStore:
//! ensure_principal, set_principal_status, put_group, create_grant / revoke_grant, create_delegation /
//! revoke_delegation, publish_policy; Store::put_space for owners / bound policy / Space status) with principals,
//! group and policy ids that are fresh per case.  For every evaluated principal p a battery of KQL / META commands
//! is executed through Session::execute and compared with
//!   - the gate TLC computed (a command whose permissions p does not hold at Space scope must answer NotAuthorized),
//!   - the OWNER's answer to the same command on a CLONE that holds only the elements TLC says p may read (with the
//!     members TLC says the read masks left out): same rows, same order, same counts, same pages and cursors, an
//!     id of a hidden element answers like an id that was never written,
//!   - for AS OF / snapshot-token reads: the owner's answer at the same coordinate of the same store restricted to
//!     the readable ids.
//! Part 2 (only the control plane changes authority).  For `mut` cases a disposable store is built, the gov_*
//! collections and every element's governance block are dumped, a battery of KML / KQL / META commands is sent by
//! the non-owner writers, and the dump is taken again: every gov_* collection except gov_audit must be
//! byte-identical, gov_audit may only have grown (every earlier record byte-identical), and every element that
//! existed before must carry a byte-identical governance block.
//!
//! Output: one JSON line per mismatch ({"mismatch":true,...}) and a final {"summary":true,...} line.
use anda_cognitive_nexus::{
    CognitiveNexus, ElementId,
    governance::{
        AuthContext, SYSTEM_PRINCIPAL,
        rows::{AuthorityConditions, AuthorityConstraints, AuthorityScope, PolicyStatement, principal_class},
        store::{DelegationDraft, GrantDraft, GroupDraft, PolicyDraft, PrincipalDraft, delegation_id},
    },
    nexus::{DEFAULT_SPACE, Session},
};
use anda_kip::{Executor, Request};
use futures::FutureExt;
use serde_json::{Map, Value, json};
use std::collections::{BTreeMap, HashMap};
use std::io::BufRead;
use std::panic::AssertUnwindSafe;
use verif_harness::nexus::fresh;

const CLS: [&str; 5] = ["public", "internal", "private", "sensitive", "secret"];
const INFL: [&str; 4] = ["descriptive", "advisory", "behavioral", "executable"];

fn cls_label(rank: i64) -> String {
    if rank < 0 { String::new() } else { CLS[rank as usize].to_string() }
}

fn time_of(t: i64) -> String {
    // Governance.tla: Now = 10; 0 = unstated
    if t == 0 {
        String::new()
    } else {
        format!("{}-01-01T00:00:00.000Z", 2026 + (t - 10))
    }
}

fn strs(v: &Value) -> Vec<String> {
    v.as_array().map(|a| a.iter().filter_map(|x| x.as_str().map(String::from)).collect()).unwrap_or_default()
}
fn ints(v: &Value) -> Vec<i64> {
    v.as_array().map(|a| a.iter().filter_map(|x| x.as_i64()).collect()).unwrap_or_default()
}

/// The text every population element carries: (name, tag words, rank).  Every tag has four words, so BM25 orders
/// "zebra" by term frequency whatever the corpus statistics of the store are.
fn texts(pop: &str, i: usize) -> (String, &'static str, i64) {
    let a = ["zebra zebra zebra alpha", "zebra zebra beta beta", "zebra gamma gamma gamma", "zebra zebra zebra zebra",
             "", ""];
    let b = ["zebra zebra zebra zebra", "zebra zebra zebra zebra", "zebra zebra zebra zebra", "zebra zebra zebra zebra",
             "zebra zebra alpha alpha", "zebra beta beta beta"];
    let ranks = [3, 1, 4, 2, 6, 5];
    (format!("N{i}"), if pop == "B" { b[i - 1] } else { a[i - 1] }, ranks[i - 1])
}

// ------------------------------------------------------------------------------------------------------------
// running commands

struct Extra {
    token: Option<String>,
    purpose: Option<String>,
}

/// Runs one command; a panic in the code under test is data.
async fn exec(session: &Session, command: &str, params: Value, extra: &Extra) -> Value {
    let mut req = json!({"kip": "2.0", "operations": [{"command": command, "parameters": params}]});
    if let Some(t) = &extra.token {
        req["read"] = json!({"snapshot_token": t});
    }
    if let Some(p) = &extra.purpose {
        req["context"] = json!({"purpose": p});
    }
    let request = match serde_json::from_value::<Request>(req) {
        Ok(r) => r,
        Err(e) => return json!({"tool": format!("request: {e}")}),
    };
    let parsed = match request.operations[0].parse() {
        Ok(p) => p,
        Err(e) => return json!({"parse_error": format!("{e}")}),
    };
    let fut = AssertUnwindSafe(session.execute(parsed, &request, &request.operations[0])).catch_unwind();
    match fut.await {
        Ok(resp) => serde_json::to_value(&resp).unwrap_or(json!({"tool": "response not serialisable"})),
        Err(p) => {
            let msg = p.downcast_ref::<String>().cloned().or_else(|| p.downcast_ref::<&str>().map(|s| s.to_string()));
            json!({"panic": msg.unwrap_or_default()})
        }
    }
}

fn err_code(resp: &Value) -> Option<String> {
    if let Some(p) = resp.get("panic") {
        return Some(format!("PANIC: {p}"));
    }
    if let Some(p) = resp.get("parse_error") {
        return Some(format!("PARSE: {p}"));
    }
    if let Some(p) = resp.get("tool") {
        return Some(format!("TOOL: {p}"));
    }
    if let Some(c) = resp["error"]["code"].as_str() {
        return Some(c.to_string());
    }
    if let Some(c) = resp["results"][0]["error"]["code"].as_str() {
        return Some(c.to_string());
    }
    if resp["status"].as_str() != Some("succeeded") {
        return Some(format!("status:{}", resp["status"]));
    }
    None
}
fn result_of(resp: &Value) -> Value {
    resp["results"][0]["result"].clone()
}
fn cursor_of(resp: &Value) -> Option<String> {
    resp["next_cursor"].as_str().or(resp["results"][0]["next_cursor"].as_str()).map(String::from)
}

// ------------------------------------------------------------------------------------------------------------
// stores

struct Elem {
    kind: String,
    typ: String,
    cls: i64,
    refs: Vec<i64>,
}

fn elems_of(case: &Value) -> Vec<Elem> {
    case["elems"].as_array().unwrap().iter().map(|e| Elem {
        kind: e["kind"].as_str().unwrap().to_string(),
        typ: e["type"].as_str().unwrap().to_string(),
        cls: e["cls"].as_i64().unwrap(),
        refs: { let mut r = ints(&e["refs"]); r.sort(); r },
    }).collect()
}

struct Pop {
    nexus: CognitiveNexus,
    /// element index (1-based) -> element id in this store
    ids: Vec<Option<String>>,
    /// element index -> the transaction that created it
    tx_create: Vec<Option<String>>,
    /// Space sequence after the element was created / after it was classified
    seq_created: Vec<u64>,
    seq_done: Vec<u64>,
    /// type name -> exact schema reference
    types: HashMap<String, String>,
    idmap: HashMap<String, usize>,
}

impl Pop {
    fn missing_id(kind: &str) -> &'static str {
        if kind == "proposition" { "P-9999" } else { "C-9999" }
    }
    fn subst(&self, template: &str, elems: &[Elem]) -> String {
        let mut s = template.to_string();
        for i in 1..=elems.len() {
            let id = self.ids[i].clone().unwrap_or_else(|| Self::missing_id(&elems[i - 1].kind).to_string());
            s = s.replace(&format!("{{E{i}}}"), &id);
            let tx = self.tx_create[i].clone().unwrap_or_else(|| format!("{DEFAULT_SPACE}#9999"));
            s = s.replace(&format!("{{TX{i}}}"), &tx);
        }
        s
    }
}

struct Shape {
    present: Vec<bool>,
    hide_name: Vec<bool>,
    hide_attrs: Vec<bool>,
}

impl Shape {
    fn full(n: usize) -> Self {
        Shape { present: vec![true; n + 1], hide_name: vec![false; n + 1], hide_attrs: vec![false; n + 1] }
    }
    fn key(&self) -> String {
        (1..self.present.len())
            .filter(|i| self.present[*i])
            .map(|i| format!("{i}{}{}", if self.hide_name[i] { "n" } else { "" }, if self.hide_attrs[i] { "a" } else { "" }))
            .collect::<Vec<_>>()
            .join(",")
    }
}

static COUNTER: std::sync::atomic::AtomicU64 = std::sync::atomic::AtomicU64::new(0);

async fn build_pop(pop: &str, elems: &[Elem], shape: &Shape) -> Pop {
    let n = COUNTER.fetch_add(1, std::sync::atomic::Ordering::SeqCst);
    let nexus = fresh(&format!("gov{}_{n}", std::process::id())).await;
    let owner = nexus.system_session();
    let none = Extra { token: None, purpose: None };
    let mut p = Pop {
        nexus: nexus.clone(),
        ids: vec![None; elems.len() + 1],
        tx_create: vec![None; elems.len() + 1],
        seq_created: vec![0; elems.len() + 1],
        seq_done: vec![0; elems.len() + 1],
        types: HashMap::new(),
        idmap: HashMap::new(),
    };
    for (k, e) in elems.iter().enumerate() {
        let i = k + 1;
        let cur = nexus.store.get_space(DEFAULT_SPACE).await.unwrap().seq;
        p.seq_created[i] = cur;
        p.seq_done[i] = cur;
        if !shape.present[i] {
            continue;
        }
        let (name, tag, rank) = texts(pop, i);
        let resp = if e.kind == "concept" {
            let mut body = format!(r#"TYPE "{}""#, e.typ);
            if !shape.hide_name[i] {
                body.push_str(&format!(r#" NAME "{name}""#));
            }
            if !shape.hide_attrs[i] {
                body.push_str(&format!(r#" SET ATTRIBUTES {{tag: "{tag}", rank: {rank}}}"#));
            }
            exec(&owner, &format!("CREATE CONCEPT ?x {{ {body} }}"), json!({}), &none).await
        } else {
            let (s, o) = (e.refs[0] as usize, e.refs[1] as usize);
            let (Some(s), Some(o)) = (p.ids[s].clone(), p.ids[o].clone()) else {
                continue; // an endpoint does not exist in this clone: the tuple cannot either
            };
            exec(&owner, &format!(r#"ENSURE PROPOSITION ?x (:s, "{}", :o)"#, e.typ), json!({"s": s, "o": o}), &none).await
        };
        if let Some(c) = err_code(&resp) {
            // the harness's own population is not accepted: a tool error, not a finding
            eprintln!("population element {i} could not be created: {c} {resp}");
            std::process::exit(3);
        }
        let id = result_of(&resp)["handles"]["x"].as_str().expect("handle").to_string();
        p.tx_create[i] = resp["receipt"]["tx_id"].as_str().map(String::from);
        p.seq_created[i] = resp["receipt"]["space_seq"].as_u64().unwrap_or(0);
        if e.cls >= 0 {
            let eid: ElementId = id.parse().unwrap();
            owner.classify(DEFAULT_SPACE, eid, &cls_label(e.cls)).await.expect("classify");
        }
        p.seq_done[i] = nexus.store.get_space(DEFAULT_SPACE).await.unwrap().seq;
        let el = nexus.store.get_element(id.parse().unwrap()).await.unwrap();
        p.types.insert(e.typ.clone(), el.schema_ref().to_string());
        p.idmap.insert(id.clone(), i);
        p.ids[i] = Some(id);
    }
    p
}

// ------------------------------------------------------------------------------------------------------------
// normalisation: what two stores can be compared on

const ELEMENT_KEYS: [&str; 9] =
    ["id", "kind", "name", "attributes", "schema_ref", "governance", "subject", "object", "predicate_ref"];
const VOLATILE: [&str; 17] = [
    "_system", "committed_at", "tx_id", "space_seq", "snapshot_seq", "created_at", "updated_at", "score",
    "search_context", "caveat", "integrity", "source", "manifest", "schema", "context",
    "schema_environment_version", "snapshot_token",
];

fn empty(v: &Value) -> bool {
    match v {
        Value::Null => true,
        Value::String(s) => s.is_empty(),
        Value::Object(o) => o.is_empty(),
        Value::Array(a) => a.is_empty(),
        _ => false,
    }
}

fn norm(v: &Value, pop: &Pop) -> Value {
    match v {
        Value::String(s) => match pop.idmap.get(s) {
            Some(k) => Value::String(format!("#{k}")),
            None => v.clone(),
        },
        Value::Array(a) => Value::Array(a.iter().map(|x| norm(x, pop)).collect()),
        Value::Object(o) => {
            let is_element = o.contains_key("id") && o.contains_key("kind") && o.contains_key("space_id");
            let mut out = Map::new();
            for (k, x) in o {
                if VOLATILE.contains(&k.as_str()) {
                    continue;
                }
                if is_element && !ELEMENT_KEYS.contains(&k.as_str()) {
                    continue;
                }
                let nx = norm(x, pop);
                if is_element && empty(&nx) {
                    continue;
                }
                out.insert(k.clone(), nx);
            }
            Value::Object(out)
        }
        _ => v.clone(),
    }
}

// ------------------------------------------------------------------------------------------------------------
// the battery

#[derive(Clone, PartialEq)]
enum Mode {
    Plain,
    /// follow next_cursor to the end; the answer is the list of pages and the list of cursors
    Paged,
    /// only whether it is permitted is comparable (the payload is a coordinate of the store)
    GateOnly,
    /// DESCRIBE ACCESS: the permission names held at Space scope
    Access,
    /// DESCRIBE PRIMER: Space-wide counts withheld unless the authority reaches the whole Space
    Primer,
    /// a read at a past coordinate: compared with the owner's answer at the same coordinate, restricted
    AsOf(usize),
    /// the same through read.snapshot_token
    Token(usize),
}

#[derive(Clone)]
struct Cmd {
    name: String,
    text: String,
    needs: Vec<&'static str>,
    mode: Mode,
    /// touches propositions (undecidable when a readable tuple has a hidden endpoint / masked members)
    props: bool,
    /// the masked member the command probes (for the classification of a mismatch)
    probe: &'static str,
}

fn cmd(name: &str, text: &str, needs: &[&'static str], mode: Mode, props: bool, probe: &'static str) -> Cmd {
    Cmd { name: name.to_string(), text: text.to_string(), needs: needs.to_vec(), mode, props, probe }
}

fn battery(elems: &[Elem]) -> Vec<Cmd> {
    let r = &["read"][..];
    let rh = &["read", "read_history"][..];
    let mut b = vec![
        cmd("describe-access", "DESCRIBE ACCESS", &[], Mode::Access, false, ""),
        cmd("describe-primer", "DESCRIBE PRIMER", &["discover"], Mode::Primer, false, ""),
        cmd("list", r#"FIND(?c.id, ?c.name, ?c.attributes.tag) WHERE { ?c CONCEPT {} }"#, r, Mode::Plain, false, ""),
        cmd("whole-elements", r#"FIND(?c) WHERE { ?c CONCEPT {type: "Person"} }"#, r, Mode::Plain, false, ""),
        cmd("order-by-masked", r#"FIND(?c.id) WHERE { ?c CONCEPT {} } ORDER BY ?c.attributes.rank ASC"#, r, Mode::Plain, false, "attrs"),
        cmd("order-by-name-desc-paged", r#"FIND(?c.id, ?c.name) WHERE { ?c CONCEPT {} } ORDER BY ?c.name DESC LIMIT 2"#, r, Mode::Paged, false, "name"),
        cmd("page-by-one", r#"FIND(?c.id) WHERE { ?c CONCEPT {} } LIMIT 1"#, r, Mode::Paged, false, ""),
        cmd("count", r#"FIND(COUNT(?c)) WHERE { ?c CONCEPT {} }"#, r, Mode::Plain, false, ""),
        cmd("aggregates", r#"FIND(COUNT(?c), MAX(?c.attributes.rank), SUM(?c.attributes.rank)) WHERE { ?c CONCEPT {type: "Person"} }"#, r, Mode::Plain, false, "attrs"),
        cmd("count-distinct-type", r#"FIND(COUNT(DISTINCT ?c.schema_ref)) WHERE { ?c CONCEPT {} }"#, r, Mode::Plain, false, ""),
        cmd("filter-masked", r#"FIND(?c.id) WHERE { ?c CONCEPT {} FILTER(?c.attributes.rank > 1) }"#, r, Mode::Plain, false, "attrs"),
        cmd("filter-name", r#"FIND(?c.id) WHERE { ?c CONCEPT {} FILTER(?c.name == "N4" || ?c.name == "N1") }"#, r, Mode::Plain, false, "name"),
        cmd("tuples-prefers", r#"FIND(?p.id, ?s.id, ?o.name) WHERE { ?p PROPOSITION (?s, "prefers", ?o) }"#, r, Mode::Plain, true, ""),
        cmd("tuples-mentions", r#"FIND(?p.id, ?s.name, ?o.id) WHERE { ?p PROPOSITION (?s, "mentions", ?o) }"#, r, Mode::Plain, true, ""),
        cmd("tuples-count", r#"FIND(COUNT(?s)) WHERE { (?s, "mentions", ?o) }"#, r, Mode::Plain, true, ""),
        cmd("optional", r#"FIND(?c.id, ?o.id) WHERE { ?c CONCEPT {type: "Person"} OPTIONAL { (?c, "prefers", ?o) } }"#, r, Mode::Plain, true, ""),
        cmd("not", r#"FIND(?c.id) WHERE { ?c CONCEPT {type: "Person"} NOT { (?c, "mentions", ?o) } }"#, r, Mode::Plain, true, ""),
        cmd("union", r#"FIND(?c.id) WHERE { ?c CONCEPT {type: "Preference"} UNION { ?c CONCEPT {name: "N4"} } }"#, r, Mode::Plain, false, "name"),
        cmd("search", r#"SEARCH CONCEPT "zebra""#, &["search"], Mode::Plain, false, "attrs"),
        cmd("search-paged", r#"SEARCH CONCEPT "zebra" LIMIT 1"#, &["search"], Mode::Paged, false, "attrs"),
        cmd("search-hidden-word", r#"SEARCH CONCEPT "alpha""#, &["search"], Mode::Plain, false, "attrs"),
        cmd("search-name", r#"SEARCH CONCEPT "N4""#, &["search"], Mode::Plain, false, "name"),
        cmd("search-cognition", r#"SEARCH COGNITION "zebra" LIMIT 3"#, &["search"], Mode::Paged, false, "attrs"),
        cmd("history-space", "HISTORY SPACE", rh, Mode::Plain, true, ""),
        cmd("history-space-1", "HISTORY SPACE LIMIT 1", rh, Mode::Paged, true, ""),
        cmd("history-space-2", "HISTORY SPACE LIMIT 2", rh, Mode::Paged, true, ""),
        cmd("history-space-3", "HISTORY SPACE LIMIT 3", rh, Mode::Paged, true, ""),
        cmd("history-space-range", "HISTORY SPACE FROM SEQ 1 LIMIT 4", rh, Mode::Paged, true, ""),
        cmd("changes", "CHANGES AFTER SEQ 0", rh, Mode::Plain, true, ""),
        cmd("snapshot", "SNAPSHOT", &["read_history"], Mode::GateOnly, false, ""),
        cmd("export-concepts", r#"EXPORT CAPSULE ?c WHERE { ?c CONCEPT {} }"#, &["export"], Mode::Plain, true, ""),
        cmd("export-tuples", r#"EXPORT CAPSULE ?p WHERE { ?p PROPOSITION (?s, "prefers", ?o) }"#, &["export"], Mode::Plain, true, ""),
    ];
    for (k, e) in elems.iter().enumerate() {
        let i = k + 1;
        if e.kind == "concept" {
            b.push(cmd(&format!("by-id-{i}"), &format!(r#"FIND(?c.id, ?c.name) WHERE {{ ?c CONCEPT {{id: "{{E{i}}}"}} }}"#), r, Mode::Plain, false, ""));
            b.push(cmd(&format!("name-matcher-{i}"), &format!(r#"FIND(?c.id) WHERE {{ ?c CONCEPT {{name: "N{i}"}} }}"#), r, Mode::Plain, false, "name"));
            b.push(cmd(&format!("export-by-id-{i}"), &format!(r#"EXPORT CAPSULE ?c WHERE {{ ?c CONCEPT {{id: "{{E{i}}}"}} }}"#), &["export"], Mode::Plain, true, ""));
        } else {
            b.push(cmd(&format!("by-id-{i}"), &format!(r#"FIND(?p.id) WHERE {{ ?p PROPOSITION (id: "{{E{i}}}") }}"#), r, Mode::Plain, true, ""));
        }
        b.push(cmd(&format!("history-element-{i}"), &format!(r#"HISTORY ELEMENT "{{E{i}}}""#), rh, Mode::Plain, e.kind != "concept", ""));
        b.push(cmd(&format!("history-element-paged-{i}"), &format!(r#"HISTORY ELEMENT "{{E{i}}}" LIMIT 1"#), rh, Mode::Paged, e.kind != "concept", ""));
        b.push(cmd(&format!("describe-transaction-{i}"), &format!(r#"DESCRIBE TRANSACTION "{{TX{i}}}""#), &["read_history"], Mode::Plain, e.kind != "concept", ""));
        b.push(cmd(&format!("as-of-created-{i}"), r#"FIND(?c.id) WHERE { ?c CONCEPT {} }"#, rh, Mode::AsOf(i), false, ""));
    }
    let n = elems.len();
    b.push(cmd("as-of-tuples", r#"FIND(?p.id) WHERE { ?p PROPOSITION (?s, "mentions", ?o) }"#, rh, Mode::AsOf(n), true, ""));
    b.push(cmd("snapshot-token-read", r#"FIND(?c.id) WHERE { ?c CONCEPT {} }"#, rh, Mode::Token(n), false, ""));
    b.push(cmd("snapshot-token-early", r#"FIND(?c.id) WHERE { ?c CONCEPT {} }"#, rh, Mode::Token(2), false, ""));
    b
}

/// Executes one battery command in one store and returns its comparable answer.
async fn answer(session: &Session, pop: &Pop, elems: &[Elem], c: &Cmd, extra: &Extra) -> (Value, String) {
    let text = pop.subst(&c.text, elems);
    match &c.mode {
        Mode::Paged => {
            let mut pages = Vec::new();
            let mut cursors = Vec::new();
            let mut cursor: Option<String> = None;
            for _ in 0..24 {
                let t = match &cursor {
                    Some(x) => format!(r#"{text} CURSOR "{x}""#),
                    None => text.clone(),
                };
                let resp = exec(session, &t, json!({}), extra).await;
                if let Some(code) = err_code(&resp) {
                    if pages.is_empty() {
                        return (json!({"err": code}), text);
                    }
                    return (json!({"err": code, "pages": pages, "cursors": cursors}), text);
                }
                let r = result_of(&resp);
                pages.push(norm(if c.name.starts_with("search") { &r["hits"] } else { &r }, pop));
                cursor = cursor_of(&resp);
                match &cursor {
                    Some(x) => cursors.push(Value::String(x.clone())),
                    None => return (json!({"pages": pages, "cursors": cursors}), text),
                }
            }
            (json!({"err": "paging never ended", "pages": pages, "cursors": cursors}), text)
        }
        Mode::AsOf(i) => {
            let t = format!("{text} AS OF SEQ {}", pop.seq_created[*i]);
            let resp = exec(session, &t, json!({}), extra).await;
            match err_code(&resp) {
                Some(code) => (json!({"err": code}), t),
                None => (json!({"ok": norm(&result_of(&resp), pop)}), t),
            }
        }
        Mode::Token(i) => {
            let token = hex::encode(format!("kip:snapshot:{DEFAULT_SPACE}:{}", pop.seq_done[*i]));
            let x = Extra { token: Some(token), purpose: extra.purpose.clone() };
            let resp = exec(session, &text, json!({}), &x).await;
            let t = format!("{text}  [read.snapshot_token = seq {}]", pop.seq_done[*i]);
            match err_code(&resp) {
                Some(code) => (json!({"err": code}), t),
                None => (json!({"ok": norm(&result_of(&resp), pop)}), t),
            }
        }
        _ => {
            let resp = exec(session, &text, json!({}), extra).await;
            match err_code(&resp) {
                Some(code) => (json!({"err": code}), text),
                None => {
                    let r = result_of(&resp);
                    let v = match c.mode {
                        Mode::GateOnly => json!("permitted"),
                        Mode::Access => {
                            let mut held: Vec<String> = strs(&r["permissions"])
                                .into_iter()
                                .filter(|p| ["read", "search", "discover", "export", "read_history"].contains(&p.as_str()))
                                .collect();
                            held.sort();
                            json!(held)
                        }
                        Mode::Primer => json!({"withheld": r["contents"]["withheld"].is_string(), "contents": r["contents"]}),
                        _ => {
                            if c.name.starts_with("search") {
                                norm(&r["hits"], pop)
                            } else if c.name.starts_with("export") {
                                norm(&r["payload"]["records"], pop)
                            } else {
                                norm(&r, pop)
                            }
                        }
                    };
                    (json!({"ok": v, "cursor": cursor_of(&resp)}), text)
                }
            }
        }
    }
}

// ------------------------------------------------------------------------------------------------------------
// configurations

struct Applied {
    principals: HashMap<String, String>,
    deleg_ids: Vec<String>,
    /// what `settle` still has to do: the revocations, suspensions, the policy and the Space binding
    revoke_grants: Vec<u64>,
    revoke_delegs: Vec<u64>,
}

fn scope_of(v: &Value, pop: &Pop) -> AuthorityScope {
    AuthorityScope {
        kinds: strs(&v["kinds"]),
        schema_refs: strs(&v["types"]).iter().map(|t| pop.types.get(t).cloned().unwrap_or_else(|| format!("kip://unknown/{t}"))).collect(),
        classifications: ints(&v["classes"]).into_iter().map(cls_label).collect(),
        elements: ints(&v["elems"]).into_iter().map(|i| pop.ids[i as usize].clone().unwrap()).collect(),
    }
}
fn cond_of(v: &Value) -> AuthorityConditions {
    let strength = match v["strength"].as_i64().unwrap_or(0) { 0 => "", 1 => "standard", _ => "strong" };
    let pa = match v["pa"].as_i64().unwrap_or(0) { 0 => "", 1 => "session_bound", _ => "system_bound" };
    AuthorityConditions {
        purpose: strs(&v["purpose"]),
        min_purpose_assurance: pa.to_string(),
        min_auth_strength: strength.to_string(),
        valid_from: time_of(v["from"].as_i64().unwrap_or(0)),
        valid_until: time_of(v["until"].as_i64().unwrap_or(0)),
    }
}
fn cons_of(v: &Value) -> AuthorityConstraints {
    let infl = v["infl"].as_i64().unwrap_or(-1);
    let mut fields = strs(&v["fields"]);
    fields.sort();
    AuthorityConstraints {
        fields,
        max_results: None,
        max_influence_authority: if infl < 0 { String::new() } else { INFL[infl as usize].to_string() },
        max_classification: cls_label(v["ceil"].as_i64().unwrap_or(-1)),
        export: v["export"].as_bool().unwrap_or(false),
    }
}

async fn apply(pop: &Pop, case: &Value, tag: &str) -> Applied {
    let gov = pop.nexus.governance();
    let cfg = &case["cfg"];
    let mut principals: HashMap<String, String> = HashMap::new();
    principals.insert("own".into(), SYSTEM_PRINCIPAL.to_string());
    for p in ["a", "b", "c"] {
        let id = format!("kip:principal:{tag}-{p}");
        gov.ensure_principal(PrincipalDraft {
            principal_id: id.clone(),
            principal_class: principal_class::AGENT.to_string(),
            display_name: p.to_string(),
            auth_provider: "verif".to_string(),
            auth_subject: id.clone(),
        }).await.expect("ensure_principal");
        principals.insert(p.to_string(), id);
    }
    let group = format!("kip:group:{tag}");
    let members: Vec<String> = strs(&cfg["members"]).iter().map(|m| principals[m].clone()).collect();
    if !members.is_empty() {
        gov.put_group(GroupDraft { group_id: group.clone(), name: "g".into(), description: String::new(), members }, SYSTEM_PRINCIPAL)
            .await.expect("put_group");
    }
    let mut revoke_grants = Vec::new();
    for g in cfg["grants"].as_array().unwrap() {
        let grp = g["grp"].as_bool().unwrap();
        let row = gov.create_grant(GrantDraft {
            space_id: DEFAULT_SPACE.to_string(),
            grantee_principal: if grp { String::new() } else { principals[g["to"].as_str().unwrap()].clone() },
            grantee_group: if grp { group.clone() } else { String::new() },
            actions: strs(&g["acts"]),
            scope: scope_of(&g["scope"], pop),
            conditions: cond_of(&g["cond"]),
            constraints: cons_of(&g["cons"]),
            delegation_allowed: g["deleg"].as_bool().unwrap(),
        }, SYSTEM_PRINCIPAL).await.expect("create_grant");
        if g["status"] != "active" {
            revoke_grants.push(row._id);
        }
    }
    let mut deleg_ids: Vec<String> = Vec::new();
    let mut revoke_delegs = Vec::new();
    for d in cfg["delegs"].as_array().unwrap() {
        let parent = d["parent"].as_i64().unwrap_or(0);
        let from = principals[d["from"].as_str().unwrap()].clone();
        let row = gov.create_delegation(DelegationDraft {
            space_id: DEFAULT_SPACE.to_string(),
            delegator_principal: from.clone(),
            delegate_principal: principals[d["to"].as_str().unwrap()].clone(),
            actions: strs(&d["acts"]),
            scope: scope_of(&d["scope"], pop),
            conditions: cond_of(&d["cond"]),
            constraints: cons_of(&d["cons"]),
            parent_delegation: if parent > 0 { deleg_ids[parent as usize - 1].clone() } else { String::new() },
            may_redelegate: d["redeleg"].as_bool().unwrap(),
        }, &from).await.expect("create_delegation");
        deleg_ids.push(delegation_id(row._id));
        if d["status"] != "active" {
            revoke_delegs.push(row._id);
        }
    }
    Applied { principals, deleg_ids, revoke_grants, revoke_delegs }
}

/// The second half of a configuration: revocations, suspensions, the policy and the Space binding.  It runs AFTER the
/// sessions of the case were opened and used, so that each of these takes effect "on the very next request" of a
/// session that was already running.
async fn settle(pop: &Pop, case: &Value, applied: &Applied, tag: &str) {
    let gov = pop.nexus.governance();
    let cfg = &case["cfg"];
    let principals = &applied.principals;
    let group = format!("kip:group:{tag}");
    for id in &applied.revoke_grants {
        gov.revoke_grant(*id, SYSTEM_PRINCIPAL).await.expect("revoke_grant");
    }
    for id in &applied.revoke_delegs {
        gov.revoke_delegation(*id, SYSTEM_PRINCIPAL).await.expect("revoke_delegation");
    }
    for (p, st) in cfg["pstat"].as_object().unwrap() {
        if st != "active" && p != "own" {
            gov.set_principal_status(&principals[p], st.as_str().unwrap(), SYSTEM_PRINCIPAL).await.expect("set status");
        }
    }
    let statements = cfg["policy"].as_array().unwrap();
    if !statements.is_empty() {
        let policy_id = format!("kip:policy:{tag}");
        let sts: Vec<PolicyStatement> = statements.iter().map(|s| PolicyStatement {
            effect: s["effect"].as_str().unwrap().to_string(),
            principals: strs(&s["principals"]).iter().map(|p| principals[p].clone()).collect(),
            groups: strs(&s["groups"]).iter().map(|_| group.clone()).collect(),
            actions: strs(&s["acts"]),
            resource: scope_of(&s["scope"], pop),
            conditions: cond_of(&s["cond"]),
            constraints: cons_of(&s["cons"]),
            obligations: Default::default(),
        }).collect();
        gov.publish_policy(PolicyDraft { policy_id, space_id: DEFAULT_SPACE.into(), description: String::new(), statements: sts },
                           SYSTEM_PRINCIPAL).await.expect("publish_policy");
    }
    bind_space(pop, case, applied, tag).await;
}

/// Binds the case's policy / owners / Space status (Store::put_space, the host's handle).
async fn bind_space(pop: &Pop, case: &Value, applied: &Applied, tag: &str) {
    let cfg = &case["cfg"];
    let mut space = pop.nexus.store.get_space(DEFAULT_SPACE).await.unwrap();
    space.default_policy_id = if cfg["policy"].as_array().unwrap().is_empty() { String::new() } else { format!("kip:policy:{tag}") };
    space.owners = strs(&cfg["owners"]).iter().map(|p| applied.principals[p].clone()).collect();
    space.status = cfg["sstat"].as_str().unwrap().to_string();
    pop.nexus.store.put_space(&space).await.expect("put_space");
}

async fn reset_space(pop: &Pop) {
    let mut space = pop.nexus.store.get_space(DEFAULT_SPACE).await.unwrap();
    space.default_policy_id = String::new();
    space.owners = vec![SYSTEM_PRINCIPAL.to_string()];
    space.status = "active".to_string();
    pop.nexus.store.put_space(&space).await.expect("put_space");
}

fn session_of(pop: &Pop, applied: &Applied, cfg: &Value, p: &str) -> (Session, Extra) {
    if p == "own" {
        return (pop.nexus.system_session(), Extra { token: None, purpose: None });
    }
    let x = &cfg["ctx"][p];
    let mut auth = AuthContext::principal(applied.principals[p].clone());
    auth = auth.with_auth_strength(match x["strength"].as_i64().unwrap_or(1) { 0 => "none", 1 => "standard", _ => "strong" });
    let purpose = x["purpose"].as_str().unwrap_or("").to_string();
    let pa = x["pa"].as_i64().unwrap_or(0);
    let mut declared = None;
    if !purpose.is_empty() {
        if pa >= 1 {
            auth = auth.with_purpose(purpose, "session_bound");
        } else {
            // a purpose the caller merely declares in the envelope
            declared = Some(purpose);
        }
    }
    let chain: Vec<String> = ints(&x["chain"]).into_iter().map(|i| applied.deleg_ids[i as usize - 1].clone()).collect();
    if !chain.is_empty() {
        auth = auth.with_delegation_chain(chain);
    }
    (pop.nexus.session(auth), Extra { token: None, purpose: declared })
}

// ------------------------------------------------------------------------------------------------------------
// part 2: dumps

async fn rows_of(nexus: &CognitiveNexus, name: &str) -> BTreeMap<u64, String> {
    let col = nexus.store.db.open_collection(name.to_string(), async |_c| Ok(())).await.expect("open collection");
    let mut out = BTreeMap::new();
    for id in col.ids() {
        if let Ok(v) = col.get_as::<Value>(id).await {
            out.insert(id, serde_json::to_string(&v).unwrap());
        }
    }
    out
}

const GOV: [&str; 8] = ["gov_principals", "gov_principal_groups", "gov_actor_bindings", "gov_grants", "gov_delegations",
                        "gov_policies", "gov_approvals", "gov_audit"];

struct Dump {
    gov: BTreeMap<String, BTreeMap<u64, String>>,
    blocks: BTreeMap<String, (String, String)>,
    space: String,
}

async fn dump(nexus: &CognitiveNexus) -> Dump {
    let mut gov = BTreeMap::new();
    for name in GOV {
        gov.insert(name.to_string(), rows_of(nexus, name).await);
    }
    let mut blocks = BTreeMap::new();
    let st = &nexus.store;
    for (prefix, col) in [("C", st.concepts()), ("P", st.propositions()), ("A", st.assertions()), ("E", st.evidence()), ("V", st.activities())] {
        for id in col.ids() {
            if let Ok(v) = col.get_as::<Value>(id).await {
                blocks.insert(format!("{prefix}-{id}"),
                              (serde_json::to_string(&v["governance"]).unwrap(), v["state"].as_str().unwrap_or("").to_string()));
            }
        }
    }
    let sp = nexus.store.get_space(DEFAULT_SPACE).await.unwrap();
    let space = serde_json::to_string(&json!({"owner": sp.owner_principal, "owners": sp.owners, "status": sp.status,
        "policy": sp.default_policy_id, "trust": sp.trust_policy_id, "default_classification": sp.default_classification,
        "audit_mode": sp.audit_mode, "policies": sp.policies})).unwrap();
    Dump { gov, blocks, space }
}

fn writer_battery() -> Vec<(&'static str, Value)> {
    vec![
        (r#"CREATE CONCEPT ?x { TYPE "Person" NAME "W1" SET ATTRIBUTES {tag: "written"} }"#, json!({})),
        (r#"CREATE CONCEPT ?x { TYPE "Person" NAME "W2" SET FIELDS {governance: {classification: "public"}} }"#, json!({})),
        (r#"CREATE CONCEPT ?x { TYPE "Person" NAME "W3" SET ATTRIBUTES {governance: {classification: "public"}, classification: "public"} }"#, json!({})),
        (r#"UPSERT CONCEPT ?x { MATCH {type: "Person", key: "person:w"} SET FIELDS {name: "W6"} SET ATTRIBUTES {tag: "upserted"} }"#, json!({})),
        (r#"UPSERT CONCEPT ?x { MATCH {id: :id} SET ATTRIBUTES {tag: "upserted in place"} }"#, json!({"id": "{E3}"})),
        (r#"CREATE EVIDENCE ?x { SET FIELDS {evidence_class: "Document", payload: "written"} }"#, json!({})),
        (r#"CREATE ASSERTION ?x { SET FIELDS {proposition: :p, asserted_by: :s, stance: "support", mode: "stated", confidence: 0.7} }"#, json!({"p": "{E6}", "s": "{E1}"})),
        (r#"CREATE ASSERTION ?x { SET FIELDS {proposition: :p, asserted_by: :s, stance: "support", mode: "stated", confidence: 0.6} }"#, json!({"p": "{E5}", "s": "{E1}"})),
        (r#"RETRACT ASSERTION "A-1""#, json!({})),
        (r#"SUPERSEDE ASSERTION "A-1" BY "A-2""#, json!({})),
        (r#"MERGE CONCEPT ?source INTO ?target WHERE { ?source CONCEPT {id: :a} ?target CONCEPT {id: :b} }"#, json!({"a": "{E2}", "b": "{E1}"})),
        (r#"UPDATE :x SET ATTRIBUTES {rank: 99}"#, json!({"x": "{E1}"})),
        (r#"UPDATE :x SET FIELDS {governance: {classification: "public"}}"#, json!({"x": "{E4}"})),
        (r#"UPDATE :x SET ATTRIBUTES {note: "about the tuple"}"#, json!({"x": "{E6}"})),
        (r#"UPDATE :x SET FIELDS {name: "renamed"}"#, json!({"x": "{E4}"})),
        (r#"ENSURE PROPOSITION ?x (:s, "mentions", :o)"#, json!({"s": "{E1}", "o": "{E4}"})),
        (r#"MUTATE { CREATE CONCEPT ?n { TYPE "Preference" NAME "W4" } ENSURE PROPOSITION ?x (:s, "prefers", ?n) }"#, json!({"s": "{E4}"})),
        (r#"SET RETENTION :x {retention_class: "standard", expires_at: "2030-01-01T00:00:00Z"}"#, json!({"x": "{E2}"})),
        (r#"SET RETENTION :x {legal_hold: true}"#, json!({"x": "{E2}"})),
        (r#"ARCHIVE :x"#, json!({"x": "{E2}"})),
        (r#"ARCHIVE ?c WHERE { ?c CONCEPT {type: "Preference"} }"#, json!({})),
        (r#"TOMBSTONE :x"#, json!({"x": "{E6}"})),
        (r#"PURGE :x CONFIRM "PURGE""#, json!({"x": "{E5}"})),
        (r#"PURGE :x REFERENCE POLICY "tombstone_reference" CONFIRM "PURGE""#, json!({"x": "{E4}"})),
        (r#"PURGE ?c WHERE { ?c CONCEPT {name: "W1"} } CONFIRM "PURGE""#, json!({})),
        (r#"FIND(?c) WHERE { ?c CONCEPT {} }"#, json!({})),
        (r#"FIND(?c.governance.classification) WHERE { ?c CONCEPT {} } AS OF SEQ 2"#, json!({})),
        (r#"SEARCH CONCEPT "zebra""#, json!({})),
        (r#"HISTORY SPACE LIMIT 3"#, json!({})),
        (r#"CHANGES AFTER SEQ 0"#, json!({})),
        (r#"DESCRIBE ACCESS"#, json!({})),
        (r#"DESCRIBE PRIMER"#, json!({})),
        (r#"SNAPSHOT"#, json!({})),
        (r#"EXPORT CAPSULE ?c WHERE { ?c CONCEPT {} }"#, json!({})),
        (r#"PREVIEW KML "CREATE CONCEPT ?x { TYPE \"Person\" NAME \"W5\" }""#, json!({})),
        (r#"VALIDATE KML "TOMBSTONE \"C-1\"""#, json!({})),
        (r#"LIST TYPES"#, json!({})),
    ]
}

async fn part2(case: &Value, elems: &[Elem], out: &mut Vec<Value>, stats: &mut Stats) {
    let pop = build_pop(case["pop"].as_str().unwrap(), elems, &Shape::full(elems.len())).await;
    let tag = format!("m{}", case["n"]);
    let applied = apply(&pop, case, &tag).await;
    settle(&pop, case, &applied, &tag).await;
    let before = dump(&pop.nexus).await;
    let mut log = Vec::new();
    for e in case["expect"].as_array().unwrap() {
        let p = e["p"].as_str().unwrap();
        let (session, extra) = session_of(&pop, &applied, &case["cfg"], p);
        for (text, params) in writer_battery() {
            let params = Value::Object(params.as_object().unwrap().iter()
                .map(|(k, v)| (k.clone(), Value::String(pop.subst(v.as_str().unwrap(), elems)))).collect());
            let resp = exec(&session, text, params.clone(), &extra).await;
            stats.commands += 1;
            stats.writer_commands += 1;
            let outcome = err_code(&resp).unwrap_or_else(|| "succeeded".to_string());
            if outcome.starts_with("PANIC") {
                out.push(json!({"mismatch": true, "part": 2, "case": case["n"], "fam": case["fam"], "p": p, "cmd": text,
                                "reason": "the engine panicked", "got": outcome}));
            }
            log.push(json!([p, text, params, outcome]));
        }
    }
    let after = dump(&pop.nexus).await;
    let mut diffs = Vec::new();
    for name in GOV {
        let (b, a) = (&before.gov[name], &after.gov[name]);
        for (id, row) in b {
            match a.get(id) {
                Some(r) if r == row => {}
                Some(r) => diffs.push(json!({"collection": name, "row": id, "before": row, "after": r})),
                None => diffs.push(json!({"collection": name, "row": id, "before": row, "after": null})),
            }
        }
        if name != "gov_audit" {
            for (id, row) in a {
                if !b.contains_key(id) {
                    diffs.push(json!({"collection": name, "row": id, "before": null, "after": row}));
                }
            }
        }
    }
    if before.space != after.space {
        diffs.push(json!({"collection": "spaces", "before": before.space, "after": after.space}));
    }
    for (id, (block, _)) in &before.blocks {
        match after.blocks.get(id) {
            Some((b, _)) if b == block => {}
            Some((b, state)) => diffs.push(json!({"element": id, "state_after": state, "before": block, "after": b})),
            None => diffs.push(json!({"element": id, "before": block, "after": null})),
        }
    }
    stats.writer_rows += before.gov.values().map(|m| m.len()).sum::<usize>() + before.blocks.len();
    for d in diffs {
        out.push(json!({"mismatch": true, "part": 2, "case": case["n"], "fam": case["fam"], "cmd": "writer battery",
                        "reason": "a session command changed protected governance state", "diff": d, "log": log}));
    }
}

// ------------------------------------------------------------------------------------------------------------

#[derive(Default)]
struct Stats {
    cases: usize,
    principals: usize,
    commands: usize,
    compared: usize,
    gate_denied: usize,
    undecided: usize,
    clones: usize,
    writer_commands: usize,
    writer_rows: usize,
    mut_cases: usize,
}

struct Clone_ {
    pop: Pop,
    answers: HashMap<String, (Value, String)>,
}

#[tokio::main]
async fn main() {
    let args: Vec<String> = std::env::args().collect();
    if args.len() < 3 || args[1] != "run" {
        eprintln!("usage: drive_governance run <cases.jsonl>");
        std::process::exit(2);
    }
    let verbose = std::env::var("C19_VERBOSE").is_ok();
    let file = std::fs::File::open(&args[2]).expect("cases file");
    let mut fulls: HashMap<String, Pop> = HashMap::new();
    let mut owner_ans: HashMap<(String, String), Value> = HashMap::new();
    let mut clones: HashMap<(String, String), Clone_> = HashMap::new();
    let mut stats = Stats::default();
    let mut out: Vec<Value> = Vec::new();
    let none = Extra { token: None, purpose: None };

    for line in std::io::BufReader::new(file).lines() {
        let line = line.unwrap();
        if line.trim().is_empty() {
            continue;
        }
        let case: Value = serde_json::from_str(&line).expect("case json");
        let elems = elems_of(&case);
        let popname = case["pop"].as_str().unwrap().to_string();
        let bat = battery(&elems);
        stats.cases += 1;
        if !fulls.contains_key(&popname) {
            fulls.insert(popname.clone(), build_pop(&popname, &elems, &Shape::full(elems.len())).await);
        }
        let full = &fulls[&popname];
        let tag = format!("k{}", case["n"]);
        let applied = apply(full, &case, &tag).await;
        // every session is opened and used while everything is still in force ...
        let mut sessions: HashMap<String, (Session, Extra)> = HashMap::new();
        for e in case["expect"].as_array().unwrap() {
            let p = e["p"].as_str().unwrap();
            let (session, extra) = session_of(full, &applied, &case["cfg"], p);
            for warm in ["DESCRIBE ACCESS", r#"FIND(COUNT(?c)) WHERE { ?c CONCEPT {} }"#, "HISTORY SPACE LIMIT 1"] {
                let _ = exec(&session, warm, json!({}), &extra).await;
                stats.commands += 1;
            }
            sessions.insert(p.to_string(), (session, extra));
        }
        // ... and only then the revocations, suspensions, the policy and the Space binding are written
        settle(full, &case, &applied, &tag).await;

        for e in case["expect"].as_array().unwrap() {
            let p = e["p"].as_str().unwrap();
            stats.principals += 1;
            let held = strs(&e["held"]);
            let ok = e["ok"].as_bool().unwrap();
            let view = e["view"].as_array().unwrap();
            let n = elems.len();
            let mut shape = Shape { present: vec![false; n + 1], hide_name: vec![false; n + 1], hide_attrs: vec![false; n + 1] };
            let mut props_decidable = true;
            for i in 1..=n {
                let v = &view[i - 1];
                shape.present[i] = v["r"].as_bool().unwrap();
                let mask = strs(&v["mask"]);
                if shape.present[i] && !mask.is_empty() {
                    shape.hide_name[i] = !mask.iter().any(|f| f == "name");
                    shape.hide_attrs[i] = !mask.iter().any(|f| f == "attributes");
                    if elems[i - 1].kind != "concept" {
                        props_decidable = false; // the tuple's own members are masked
                    }
                }
            }
            for i in 1..=n {
                if shape.present[i] && elems[i - 1].refs.iter().any(|r| !shape.present[*r as usize]) {
                    props_decidable = false; // a readable tuple with a hidden endpoint: see REPORT
                }
            }
            let masked = (1..=n).any(|i| shape.hide_name[i] || shape.hide_attrs[i]);
            let key = (popname.clone(), shape.key());
            if !clones.contains_key(&key) {
                let cp = build_pop(&popname, &elems, &shape).await;
                stats.clones += 1;
                clones.insert(key.clone(), Clone_ { pop: cp, answers: HashMap::new() });
            }
            let (session, extra) = &sessions[p];
            let mut reported = 0usize;
            let mut suppressed = 0usize;
            for c in &bat {
                if popname == "B" && c.props {
                    continue;
                }
                stats.commands += 1;
                let (got, text) = answer(session, full, &elems, c, extra).await;
                let permitted = ok && c.needs.iter().all(|q| held.iter().any(|h| h == q));
                let want: Value;
                let mut want_text = String::new();
                let mut asbuilt_want = Value::Null;
                if !permitted {
                    // a gate p does not pass, or a named Delegation chain that does not resolve: refused
                    want = json!({"err": "NotAuthorized"});
                    stats.gate_denied += 1;
                } else {
                    match &c.mode {
                        Mode::Access => {
                            let mut h = held.clone();
                            h.sort();
                            want = json!({"ok": h, "cursor": null});
                            stats.compared += 1;
                        }
                        Mode::Primer => {
                            let whole = e["whole"].as_bool().unwrap();
                            if whole {
                                let k = (popname.clone(), "primer".to_string());
                                if !owner_ans.contains_key(&k) {
                                    reset_space(full).await;
                                    let (a, _) = answer(&full.nexus.system_session(), full, &elems, c, &none).await;
                                    owner_ans.insert(k.clone(), a);
                                    bind_space(full, &case, &applied, &tag).await;
                                }
                                want = owner_ans[&k].clone();
                            } else {
                                want = json!({"ok": {"withheld": true, "contents": got["ok"]["contents"]}, "cursor": null});
                            }
                            stats.compared += 1;
                        }
                        Mode::AsOf(_) | Mode::Token(_) => {
                            if masked || (c.props && !props_decidable) {
                                stats.undecided += 1;
                                continue;
                            }
                            // the owner's answer at the same coordinate of the same store, restricted to what p may read
                            let k = (popname.clone(), c.name.clone());
                            if !owner_ans.contains_key(&k) {
                                // the owner may be denied by the case's policy: ask with the Space reset
                                reset_space(full).await;
                                let (a, _) = answer(&full.nexus.system_session(), full, &elems, c, &none).await;
                                owner_ans.insert(k.clone(), a);
                                bind_space(full, &case, &applied, &tag).await;
                            }
                            let own = &owner_ans[&k];
                            let idx = |row: &Value| row.as_str().and_then(|s| s.strip_prefix('#')).and_then(|k| k.parse::<usize>().ok());
                            let rows: Vec<Value> = own["ok"].as_array().cloned().unwrap_or_default().into_iter()
                                .filter(|row| idx(row).map(|k| shape.present[k]).unwrap_or(true)).collect();
                            want = if own.get("err").is_some() { own.clone() } else { json!({"ok": rows}) };
                            // attribution only: what the read returns if the element that was just written is judged
                            // by the governance block it carried then (unclassified)
                            if let Mode::AsOf(at) = &c.mode {
                                let rows: Vec<Value> = own["ok"].as_array().cloned().unwrap_or_default().into_iter()
                                    .filter(|row| idx(row).map(|k| if k == *at { view[k - 1]["r0"].as_bool().unwrap_or(false) } else { shape.present[k] })
                                        .unwrap_or(true)).collect();
                                asbuilt_want = json!({"ok": rows});
                            }
                            stats.compared += 1;
                        }
                        _ => {
                            if c.props && !props_decidable {
                                stats.undecided += 1;
                                continue;
                            }
                            let cl = clones.get_mut(&key).unwrap();
                            if !cl.answers.contains_key(&c.name) {
                                let a = answer(&cl.pop.nexus.system_session(), &cl.pop, &elems, c, &none).await;
                                cl.answers.insert(c.name.clone(), a);
                            }
                            let (w, wt) = cl.answers[&c.name].clone();
                            want = w;
                            want_text = wt;
                            stats.compared += 1;
                        }
                    }
                }
                for side in [&got, &want] {
                    if side["err"].as_str().is_some_and(|e| e.starts_with("PARSE") || e.starts_with("TOOL")) {
                        eprintln!("battery command {} does not parse: {text}: {side}", c.name);
                        std::process::exit(3);
                    }
                }
                if verbose {
                    eprintln!("case {} {p} {}: {}\n   got  {got}\n   want {want}", case["n"], c.name, text);
                }
                if got != want {
                    if reported < usize::MAX {
                        out.push(json!({"mismatch": true, "part": 1, "case": case["n"], "fam": case["fam"], "pop": popname, "p": p,
                            "cmd": c.name, "text": text, "probe": c.probe, "needs": c.needs, "held": held, "masked": masked,
                            "readable": (1..=n).filter(|i| shape.present[*i]).collect::<Vec<_>>(),
                            "hide_name": (1..=n).filter(|i| shape.hide_name[*i]).collect::<Vec<_>>(),
                            "hide_attrs": (1..=n).filter(|i| shape.hide_attrs[*i]).collect::<Vec<_>>(),
                            "got": got, "want": want, "clone_text": want_text, "asbuilt_want": asbuilt_want}));
                        reported += 1;
                    } else {
                        suppressed += 1;
                    }
                }
            }
            if suppressed > 0 {
                out.push(json!({"mismatch": true, "part": 1, "case": case["n"], "fam": case["fam"], "pop": popname, "p": p,
                                "cmd": "(more)", "suppressed": suppressed}));
            }
        }
        reset_space(full).await;
        if case["mut"].as_bool().unwrap_or(false) {
            stats.mut_cases += 1;
            part2(&case, &elems, &mut out, &mut stats).await;
        }
    }
    let n_mis = out.len();
    for m in out {
        println!("{}", serde_json::to_string(&m).unwrap());
    }
    println!("{}", json!({"summary": true, "cases": stats.cases, "principals": stats.principals, "commands": stats.commands,
        "compared": stats.compared, "gate_denied": stats.gate_denied, "undecided": stats.undecided, "clones": stats.clones,
        "mut_cases": stats.mut_cases, "writer_commands": stats.writer_commands, "writer_rows": stats.writer_rows,
        "mismatches": n_mis}));
}
