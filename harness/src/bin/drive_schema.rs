//! C13 driver: replays the cases TLC enumerated from Schema.tla / MC_Schema.tla on the real
//! `anda_db_schema` (and, for the `col` stage, on a real `anda_db` Collection) through public APIs only.
//!
//!   drive_schema replay <cases.jsonl> [--col N]
//!
//! One JSON object per line on stdin-less input file; families:
//!   ax   numeric fact tables of the specification, checked against real arithmetic
//!   val  (type, value): Schema::validate, Document::set_field (in-memory form), the stored bytes
//!        (DocumentOwned shape), Document::try_from_doc / set_doc (declared variant), re-store fixpoint,
//!        Document::try_from (typed path) + its round trip, FieldEntry::coerce
//!   bud  complexity-budget edges (compressed values are expanded here)
//!   upg  upgrade chains: Schema::upgrade_with verdict + idx table + watermark per step, documents written
//!        at every version and read (from bytes) at every later one
//!   der  derive-macro structs: derived FieldTypes, T <- Document <- abstract rows, T -> Document -> bytes
//!        -> Document -> T
//! Output: one JSON line per mismatch (first 60), then {"summary":true,...}.
use anda_db::{
    collection::CollectionConfig,
    database::{AndaDB, DBConfig},
    storage::StorageConfig,
};
use anda_db_schema::{
    AndaDBSchema, Document, DocumentOwned, Fe, FieldKey, FieldTyped, FieldValueBudget, Ft, Fv, IndexedFieldValues, Json,
    Schema, bf16,
};
use object_store::memory::InMemory;
use serde::{Deserialize, Serialize};
use serde_bytes::ByteBuf;
use serde_json::{Value, json};
use std::collections::{BTreeMap, BTreeSet, HashMap};
use std::io::{BufRead, Write};
use std::panic::{AssertUnwindSafe, catch_unwind};
use std::sync::Arc;

// ---------------------------------------------------------------------------------------------
// atoms

fn int_atom(a: &str) -> i128 {
    match a {
        "i64min" => i64::MIN as i128,
        "i64max" => i64::MAX as i128,
        "i64max+1" => i64::MAX as i128 + 1,
        "u64max" => u64::MAX as i128,
        s => s.parse::<i128>().unwrap_or_else(|_| panic!("int atom {s}")),
    }
}
fn f64_atom(a: &str) -> f64 {
    match a {
        "0.0" => 0.0,
        "-0.0" => -0.0,
        "1.5" => 1.5,
        "2.71" => 2.71f64,
        "2.71f" => 2.71f32 as f64,
        "2.7100000000001" => 2.7100000000001f64,
        "f32sub" => f32::from_bits(1) as f64,
        "f64sub" => f64::from_bits(1),
        "1e39" => 1e39,
        "f32max" => f32::MAX as f64,
        "inf" => f64::INFINITY,
        "-inf" => f64::NEG_INFINITY,
        "nan" => f64::NAN,
        s => panic!("f64 atom {s}"),
    }
}
fn f32_atom(a: &str) -> f32 {
    match a {
        "0.0" => 0.0,
        "-0.0" => -0.0,
        "1.5" => 1.5,
        "2.71f" => 2.71f32,
        "f32sub" => f32::from_bits(1),
        "f32max" => f32::MAX,
        "inf" => f32::INFINITY,
        "-inf" => f32::NEG_INFINITY,
        "nan" => f32::NAN,
        s => panic!("f32 atom {s}"),
    }
}

// ---------------------------------------------------------------------------------------------
// abstract -> concrete

fn tag(v: &Value) -> &str {
    v[0].as_str().unwrap_or_else(|| panic!("tagged tuple expected, got {v}"))
}
fn arr(v: &Value) -> &Vec<Value> {
    v.as_array().unwrap_or_else(|| panic!("array expected, got {v}"))
}

fn mk_key(k: &Value) -> FieldKey {
    match tag(k) {
        "text" => FieldKey::Text(k[1].as_str().unwrap().to_string()),
        "i64" => FieldKey::I64(int_atom(k[1].as_str().unwrap()) as i64),
        "bytes" => FieldKey::Bytes(arr(&k[1]).iter().map(|b| int_atom(b.as_str().unwrap()) as u8).collect()),
        t => panic!("key tag {t}"),
    }
}

fn mk_type(t: &Value) -> Ft {
    match tag(t) {
        "bool" => Ft::Bool,
        "i64" => Ft::I64,
        "u64" => Ft::U64,
        "f64" => Ft::F64,
        "f32" => Ft::F32,
        "bytes" => Ft::Bytes,
        "text" => Ft::Text,
        "json" => Ft::Json,
        "vector" => Ft::Vector,
        "option" => Ft::Option(Box::new(mk_type(&t[1]))),
        "array" => Ft::Array(arr(&t[1]).iter().map(mk_type).collect()),
        "map" => Ft::Map(arr(&t[1]).iter().map(|e| (mk_key(&e[0]), mk_type(&e[1]))).collect()),
        x => panic!("type tag {x}"),
    }
}

fn mk_json(j: &Value) -> Json {
    match tag(j) {
        "jnull" => Json::Null,
        "jbool" => Json::Bool(j[1].as_bool().unwrap()),
        "ju64" => Json::Number((int_atom(j[1].as_str().unwrap()) as u64).into()),
        "ji64" => Json::Number((int_atom(j[1].as_str().unwrap()) as i64).into()),
        "jf64" => Json::Number(serde_json::Number::from_f64(f64_atom(j[1].as_str().unwrap())).expect("finite")),
        "jstr" => Json::String(j[1].as_str().unwrap().to_string()),
        "jarr" => Json::Array(arr(&j[1]).iter().map(mk_json).collect()),
        "jobj" => Json::Object(arr(&j[1]).iter().map(|e| (e[0].as_str().unwrap().to_string(), mk_json(&e[1]))).collect()),
        "jrep" => {
            let e = mk_json(&j[2]);
            Json::Array((0..j[1].as_u64().unwrap()).map(|_| e.clone()).collect())
        }
        "jnest" => {
            let mut e = mk_json(&j[2]);
            for _ in 0..j[1].as_u64().unwrap() {
                e = Json::Array(vec![e]);
            }
            e
        }
        "jorep" => {
            let e = mk_json(&j[2]);
            Json::Object((0..j[1].as_u64().unwrap()).map(|i| (format!("k{i:05}"), e.clone())).collect())
        }
        x => panic!("json tag {x}"),
    }
}

fn mk_value(v: &Value) -> Fv {
    match tag(v) {
        "bool" => Fv::Bool(v[1].as_bool().unwrap()),
        "i64" => Fv::I64(int_atom(v[1].as_str().unwrap()) as i64),
        "u64" => Fv::U64(int_atom(v[1].as_str().unwrap()) as u64),
        "f64" => Fv::F64(f64_atom(v[1].as_str().unwrap())),
        "f32" => Fv::F32(f32_atom(v[1].as_str().unwrap())),
        "bytes" => Fv::Bytes(arr(&v[1]).iter().map(|b| int_atom(b.as_str().unwrap()) as u8).collect()),
        "text" => Fv::Text(v[1].as_str().unwrap().to_string()),
        "json" => Fv::Json(mk_json(&v[1])),
        "vector" => Fv::Vector(arr(&v[1]).iter().map(|b| bf16::from_bits(int_atom(b.as_str().unwrap()) as u16)).collect()),
        "array" => Fv::Array(arr(&v[1]).iter().map(mk_value).collect()),
        "map" => Fv::Map(arr(&v[1]).iter().map(|e| (mk_key(&e[0]), mk_value(&e[1]))).collect()),
        "null" => Fv::Null,
        "rep" => {
            let e = mk_value(&v[2]);
            Fv::Array((0..v[1].as_u64().unwrap()).map(|_| e.clone()).collect())
        }
        "nest" => {
            let mut e = mk_value(&v[2]);
            for _ in 0..v[1].as_u64().unwrap() {
                e = Fv::Array(vec![e]);
            }
            e
        }
        "mrep" => {
            let e = mk_value(&v[2]);
            Fv::Map((0..v[1].as_u64().unwrap()).map(|i| (FieldKey::Text(format!("k{i:05}")), e.clone())).collect())
        }
        x => panic!("value tag {x}"),
    }
}

fn same_json(a: &Json, b: &Json) -> bool {
    match (a, b) {
        (Json::Number(x), Json::Number(y)) => {
            if x.is_f64() || y.is_f64() {
                x.is_f64() == y.is_f64() && x.as_f64().map(f64::to_bits) == y.as_f64().map(f64::to_bits)
            } else {
                x == y
            }
        }
        (Json::Array(x), Json::Array(y)) => x.len() == y.len() && x.iter().zip(y).all(|(p, q)| same_json(p, q)),
        (Json::Object(x), Json::Object(y)) => {
            x.len() == y.len() && x.iter().all(|(k, p)| y.get(k).map(|q| same_json(p, q)).unwrap_or(false))
        }
        _ => a == b,
    }
}

/// Equality on the representation: variant, bits of every float, bits of every bf16.
fn same(a: &Fv, b: &Fv) -> bool {
    match (a, b) {
        (Fv::F64(x), Fv::F64(y)) => x.to_bits() == y.to_bits(),
        (Fv::F32(x), Fv::F32(y)) => x.to_bits() == y.to_bits(),
        (Fv::Vector(x), Fv::Vector(y)) => x.len() == y.len() && x.iter().zip(y).all(|(p, q)| p.to_bits() == q.to_bits()),
        (Fv::Array(x), Fv::Array(y)) => x.len() == y.len() && x.iter().zip(y).all(|(p, q)| same(p, q)),
        (Fv::Map(x), Fv::Map(y)) => {
            x.len() == y.len() && x.iter().zip(y).all(|((k1, p), (k2, q))| k1 == k2 && same(p, q))
        }
        (Fv::Json(x), Fv::Json(y)) => same_json(x, y),
        (Fv::Bool(_), Fv::Bool(_))
        | (Fv::I64(_), Fv::I64(_))
        | (Fv::U64(_), Fv::U64(_))
        | (Fv::Bytes(_), Fv::Bytes(_))
        | (Fv::Text(_), Fv::Text(_))
        | (Fv::Null, Fv::Null) => a == b,
        _ => false,
    }
}

fn show(v: &Fv) -> String {
    let s = format!("{v:?}");
    if s.len() > 400 { format!("{}...({} chars)", &s[..400], s.len()) } else { s }
}
fn show_opt(v: Option<&Fv>) -> String {
    v.map(show).unwrap_or_else(|| "<absent>".into())
}

// ---------------------------------------------------------------------------------------------

struct Rep {
    checks: u64,
    bad: u64,
    by_what: BTreeMap<String, u64>,
    lines: Vec<Value>,
    notes: Vec<Value>,
}
impl Rep {
    fn check(&mut self) {
        self.checks += 1;
    }
    fn mismatch(&mut self, what: &str, case: &Value, got: String, want: String) {
        self.bad += 1;
        *self.by_what.entry(what.to_string()).or_default() += 1;
        if self.lines.len() < 60 {
            let mut c = case.clone();
            // keep replay files small: the budget cases carry huge expectations
            let s = c.to_string();
            if s.len() > 6000 {
                c = json!({"fam": case["fam"], "truncated": s[..3000].to_string()});
            }
            self.lines.push(json!({"mismatch": what, "case": c, "got": got, "want": want}));
        }
    }
    fn expect_bool(&mut self, what: &str, case: &Value, got: bool, want: bool, detail: String) {
        self.check();
        if got != want {
            self.mismatch(what, case, format!("{got} {detail}"), format!("{want}"));
        }
    }
    fn expect_fv(&mut self, what: &str, case: &Value, got: Option<&Fv>, want: &Fv) {
        self.check();
        if !got.map(|g| same(g, want)).unwrap_or(false) {
            self.mismatch(what, case, show_opt(got), show(want));
        }
    }
}

fn schema_x(t: &Ft) -> Arc<Schema> {
    let mut b = Schema::builder();
    b.add_field(Fe::new("x".to_string(), t.clone()).unwrap()).unwrap();
    Arc::new(b.build().unwrap())
}

fn to_bytes(doc: &Document) -> Result<Vec<u8>, String> {
    let mut buf = Vec::new();
    cbor2::to_writer(doc, &mut buf).map_err(|e| format!("{e:?}"))?;
    Ok(buf)
}
fn owned_from(bytes: &[u8]) -> Result<DocumentOwned, String> {
    cbor2::from_reader(bytes).map_err(|e| format!("{e:?}"))
}

fn is_err(v: &Value) -> bool {
    tag(v) == "err"
}

/// bytes -> DocumentOwned (raw shape) -> try_from_doc / set_doc (declared variant) -> re-store -> same again
fn round_trip(rep: &mut Rep, c: &Value, label: &str, schema: &Arc<Schema>, doc: &Document, raw: Option<&Fv>, canon: &Fv) {
    let bytes = match to_bytes(doc) {
        Ok(b) => b,
        Err(e) => {
            rep.mismatch(&format!("{label}: accepted value cannot be stored"), c, e, "bytes".into());
            return;
        }
    };
    let owned = match owned_from(&bytes) {
        Ok(o) => o,
        Err(e) => {
            rep.mismatch(&format!("{label}: stored bytes do not decode"), c, e, "DocumentOwned".into());
            return;
        }
    };
    if let Some(raw) = raw {
        rep.expect_fv(&format!("{label}: schema-less read-back shape"), c, owned.fields.get(&1), raw);
    }
    match Document::try_from_doc(schema.clone(), owned.clone()) {
        Ok(d2) => {
            rep.expect_fv(&format!("{label}: read back (try_from_doc) is not the declared variant of what was written"), c, d2.get_field("x"), canon);
            // rewriting what was read changes nothing
            match to_bytes(&d2).and_then(|b| owned_from(&b)).and_then(|o| Document::try_from_doc(schema.clone(), o).map_err(|e| format!("{e:?}"))) {
                Ok(d3) => rep.expect_fv(&format!("{label}: second store/read changes the value"), c, d3.get_field("x"), canon),
                Err(e) => rep.mismatch(&format!("{label}: re-stored document is rejected"), c, e, show(canon)),
            }
        }
        Err(e) => rep.mismatch(&format!("{label}: ACCEPTED ON WRITE, REJECTED ON READ (try_from_doc)"), c, format!("{e:?}"), show(canon)),
    }
    let mut d4 = Document::new(schema.clone());
    match d4.set_doc(owned) {
        Ok(()) => rep.expect_fv(&format!("{label}: read back (set_doc)"), c, d4.get_field("x"), canon),
        Err(e) => rep.mismatch(&format!("{label}: accepted on write, rejected by set_doc"), c, format!("{e:?}"), show(canon)),
    }
}

fn run_val(rep: &mut Rep, c: &Value, accepted: &mut Vec<(Document, Fv)>) {
    let t = mk_type(&c["t"]);
    let v = mk_value(&c["v"]);
    let schema = schema_x(&t);
    let field = schema.get_field("x").unwrap().clone();

    // 1. Schema::validate on the value as it is (no normalisation)
    let mut raw_fields = IndexedFieldValues::new();
    raw_fields.insert(0, Fv::U64(1));
    raw_fields.insert(1, v.clone());
    let r = schema.validate(&raw_fields);
    rep.expect_bool("Schema::validate verdict", c, r.is_ok(), c["valid"].as_bool().unwrap(), format!("{:?}", r.err()));

    // 2. field-by-field write
    let mut doc = Document::new(schema.clone());
    doc.set_id(1);
    let setok = c["setok"].as_bool().unwrap();
    let r = doc.set_field("x", v.clone()).map(|_| ());
    rep.expect_bool("Document::set_field verdict", c, r.is_ok(), setok, format!("{:?}", r.as_ref().err()));
    if r.is_ok() && setok {
        let norm = mk_value(&c["norm"]);
        rep.expect_fv("in-memory value after set_field", c, doc.get_field("x"), &norm);
        let storable = c["storable"].as_bool().unwrap();
        let b = to_bytes(&doc);
        rep.expect_bool("stored form can be produced", c, b.is_ok(), storable, format!("{:?}", b.as_ref().err()));
        if b.is_ok() && storable {
            let raw = mk_value(&c["raw"]);
            let canon = mk_value(&c["canon"]);
            round_trip(rep, c, "field path", &schema, &doc, Some(&raw), &canon);
            accepted.push((doc.clone(), canon));
        }
    } else if r.is_ok() {
        // accepted although the specification rejects: also show what storage makes of it
        let back = to_bytes(&doc).and_then(|b| owned_from(&b)).map(|o| Document::try_from_doc(schema.clone(), o).map(|d| show_opt(d.get_field("x"))));
        rep.mismatch("accepted invalid value: what reading it back gives", c, format!("{back:?}"), "rejected at write".into());
    }

    // 3. typed path: Document::try_from on a serialisable value
    let typed_want = &c["typed"];
    let src: BTreeMap<String, Fv> = BTreeMap::from([("_id".to_string(), Fv::U64(1)), ("x".to_string(), v.clone())]);
    let r = Document::try_from(schema.clone(), &src);
    rep.expect_bool("Document::try_from verdict", c, r.is_ok(), !is_err(typed_want), format!("{:?}", r.as_ref().err()));
    if let (Ok(d), false) = (&r, is_err(typed_want)) {
        let want = mk_value(typed_want);
        rep.expect_fv("value extracted by Document::try_from", c, d.get_field("x"), &want);
        round_trip(rep, c, "typed path", &schema, d, None, &want);
    }

    // 4. FieldEntry::coerce (the entry point for client-supplied FieldValues)
    let coerce_want = &c["coerce"];
    let r = field.coerce(v.clone());
    rep.expect_bool("FieldEntry::coerce verdict", c, r.is_ok(), !is_err(coerce_want), format!("{:?}", r.as_ref().err()));
    if let (Ok(x), false) = (&r, is_err(coerce_want)) {
        rep.expect_fv("value returned by FieldEntry::coerce", c, Some(x), &mk_value(coerce_want));
    }
}

fn run_bud(rep: &mut Rep, c: &Value) {
    let t = mk_type(&c["t"]);
    let v = mk_value(&c["v"]);
    let schema = schema_x(&t);
    let mut raw_fields = IndexedFieldValues::new();
    raw_fields.insert(0, Fv::U64(1));
    raw_fields.insert(1, v.clone());
    let r = schema.validate(&raw_fields);
    rep.expect_bool("budget: Schema::validate verdict", c, r.is_ok(), c["valid"].as_bool().unwrap(), format!("{:?}", r.err()));
    let mut doc = Document::new(schema.clone());
    doc.set_id(1);
    let setok = c["setok"].as_bool().unwrap();
    let r = doc.set_field("x", v.clone()).map(|_| ());
    rep.expect_bool("budget: Document::set_field verdict", c, r.is_ok(), setok, format!("{:?}", r.as_ref().err()));
    if r.is_ok() {
        // whatever was accepted must come back valid and unchanged
        let held = doc.get_field("x").cloned().unwrap();
        match to_bytes(&doc).and_then(|b| owned_from(&b)) {
            Ok(o) => match Document::try_from_doc(schema.clone(), o) {
                Ok(d2) => rep.expect_fv("budget: read back", c, d2.get_field("x"), &held),
                Err(e) => rep.mismatch("budget: ACCEPTED ON WRITE, REJECTED ON READ", c, format!("{e:?}"), "readable".into()),
            },
            Err(e) => rep.mismatch("budget: accepted value cannot be stored", c, e, "bytes".into()),
        }
    }
    let src: BTreeMap<String, Fv> = BTreeMap::from([("_id".to_string(), Fv::U64(1)), ("x".to_string(), v.clone())]);
    let r = Document::try_from(schema.clone(), &src);
    rep.expect_bool("budget: Document::try_from verdict", c, r.is_ok(), c["typedok"].as_bool().unwrap(), format!("{:?}", r.as_ref().err()));
    if let Ok(d) = r {
        let held = d.get_field("x").cloned().unwrap();
        match to_bytes(&d).and_then(|b| owned_from(&b)) {
            Ok(o) => match Document::try_from_doc(schema.clone(), o) {
                Ok(d2) => rep.expect_fv("budget: typed read back", c, d2.get_field("x"), &held),
                Err(e) => rep.mismatch("budget: typed ACCEPTED ON WRITE, REJECTED ON READ", c, format!("{e:?}"), "readable".into()),
            },
            Err(e) => rep.mismatch("budget: typed accepted value cannot be stored", c, e, "bytes".into()),
        }
    }
}

// ---------------------------------------------------------------------------------------------
// upgrade chains

fn build_decl(decl: &Value, ver: u64) -> Schema {
    let mut b = Schema::builder();
    b.with_version(ver);
    for f in arr(decl) {
        let mut fe = Fe::new(f[0].as_str().unwrap().to_string(), mk_type(&f[1])).unwrap();
        if f[2].as_bool().unwrap() {
            fe = fe.with_unique();
        }
        b.add_field(fe).unwrap();
    }
    b.build().unwrap()
}

fn idx_table(s: &Schema) -> Vec<(String, usize)> {
    let mut v: Vec<(String, usize)> = s.iter().filter(|f| f.name() != "_id").map(|f| (f.name().to_string(), f.idx())).collect();
    v.sort();
    v
}

fn run_upg(rep: &mut Rep, c: &Value) {
    let decls = arr(&c["decls"]);
    let vers = arr(&c["vers"]);
    let permitted = c["permitted"].as_u64().unwrap() as usize;
    let want_schemas = arr(&c["schemas"]);
    let mut schemas: Vec<Arc<Schema>> = Vec::new();
    for k in 0..decls.len() {
        let mut s = build_decl(&decls[k], vers[k].as_u64().unwrap());
        if k > 0 {
            let before = s.clone();
            let r = s.upgrade_with(&schemas[k - 1]);
            let want_ok = k < permitted;
            rep.expect_bool(&format!("Schema::upgrade_with verdict at step {}", k + 1), c, r.is_ok(), want_ok, format!("{:?}", r.as_ref().err()));
            if r.is_err() {
                rep.check();
                if s != before {
                    rep.mismatch("a refused upgrade modified the schema", c, format!("{s:?}"), format!("{before:?}"));
                }
            }
            if r.is_err() || !want_ok {
                break;
            }
        }
        // the schema is persisted between versions: go through its own serialisation, as the database does
        let mut buf = Vec::new();
        cbor2::to_writer(&s, &mut buf).expect("schema serialises");
        let s2: Schema = cbor2::from_reader(&buf[..]).expect("schema deserialises");
        rep.check();
        if s2 != s && s2.allocated_idx_end() != s.allocated_idx_end() {
            rep.mismatch("schema changes through its own serialisation", c, format!("{s2:?}"), format!("{s:?}"));
        }
        let want_tab: Vec<(String, usize)> = arr(&want_schemas[k][1]).iter().map(|e| (e[0].as_str().unwrap().to_string(), e[1].as_u64().unwrap() as usize)).collect();
        let mut want_sorted = want_tab.clone();
        want_sorted.sort();
        rep.check();
        if idx_table(&s2) != want_sorted {
            rep.mismatch(&format!("field idx assignment at version {}", k + 1), c, format!("{:?}", idx_table(&s2)), format!("{want_sorted:?}"));
        }
        rep.check();
        if s2.allocated_idx_end() != want_schemas[k][0].as_u64().unwrap() as usize {
            rep.mismatch(&format!("allocation watermark at version {}", k + 1), c, format!("{}", s2.allocated_idx_end()), format!("{}", want_schemas[k][0]));
        }
        schemas.push(Arc::new(s2));
    }
    if schemas.len() != permitted {
        return; // verdict mismatch already reported
    }
    // documents
    let docs = arr(&c["docs"]);
    let mut stored: Vec<Option<Vec<u8>>> = Vec::new();
    for d in docs {
        let k = d[0].as_u64().unwrap() as usize - 1;
        let mut doc = Document::new(schemas[k].clone());
        doc.set_id(1);
        let mut ok = true;
        for f in arr(&d[1]) {
            let name = f[0].as_str().unwrap();
            let v = mk_value(&f[1]);
            rep.check();
            match doc.set_field(name, v.clone()) {
                Ok(_) => {
                    rep.expect_fv("upgrade: in-memory value after set_field", c, doc.get_field(name), &v);
                }
                Err(e) => {
                    ok = false;
                    rep.mismatch(&format!("upgrade: valid value refused for field {name} at version {}", k + 1), c, format!("{e:?}"), show(&v));
                }
            }
        }
        stored.push(if ok { to_bytes(&doc).ok() } else { None });
    }
    for r in arr(&c["reads"]) {
        let d = r["doc"].as_u64().unwrap() as usize - 1;
        let at = r["at"].as_u64().unwrap() as usize - 1;
        let Some(bytes) = &stored[d] else { continue };
        let owned = owned_from(bytes).expect("stored document decodes");
        let got = Document::try_from_doc(schemas[at].clone(), owned);
        let want = &r["expect"];
        rep.check();
        let what = format!("read at version {} of the document written at version {}", at + 1, docs[d][0]);
        if r["law"] == json!(false) && rep.notes.len() < 200 {
            // the specification itself says the property's promise is broken here: record what the code really does
            rep.notes.push(json!({"note": "lawfail", "c": c["c"], "doc": r["doc"], "at": r["at"],
                                  "observed": match &got { Ok(d) => format!("Ok({:?})", d.fields()), Err(e) => format!("Err({e:?})") }}));
        }
        match (&got, is_err(want)) {
            (Err(_), true) => {}
            (Err(e), false) => rep.mismatch(&format!("{what}: UNREADABLE after permitted upgrades"), c, format!("{e:?}"), want.to_string()),
            (Ok(doc), true) => rep.mismatch(&format!("{what}: readable, the specification says rejected"), c, format!("{:?}", doc.fields()), "err".into()),
            (Ok(doc), false) => {
                let want_fields: BTreeMap<usize, Fv> = arr(&want[1]).iter().map(|e| (e[0].as_u64().unwrap() as usize, mk_value(&e[1]))).collect();
                let got_fields: BTreeMap<usize, Fv> = doc.fields().iter().filter(|(i, _)| **i != 0).map(|(i, v)| (*i, v.clone())).collect();
                let eq = want_fields.len() == got_fields.len()
                    && want_fields.iter().all(|(i, v)| got_fields.get(i).map(|g| same(g, v)).unwrap_or(false));
                if !eq {
                    rep.mismatch(&format!("{what}: surviving fields differ"), c, format!("{got_fields:?}"), format!("{want_fields:?}"));
                }
            }
        }
    }
}

// ---------------------------------------------------------------------------------------------
// derive-macro structs (mirrored by Structs in MC_Schema.tla)

#[derive(Debug, Clone, PartialEq, Serialize, Deserialize, FieldTyped)]
struct Leaf {
    id: i64,
    w: Option<f32>,
}
#[derive(Debug, Clone, PartialEq, Serialize, Deserialize, FieldTyped)]
struct Inner {
    name: String,
    score: Option<i64>,
    ratio: f32,
    tags: Vec<String>,
    leaf: Option<Leaf>,
}
#[derive(Debug, Clone, PartialEq, Serialize, Deserialize, AndaDBSchema)]
struct Scalars {
    _id: u64,
    flag: bool,
    i_8: i8,
    i_16: i16,
    i_32: i32,
    i_64: i64,
    i_sz: isize,
    u_8: u8,
    u_16: u16,
    u_32: u32,
    u_64: u64,
    u_sz: usize,
    f_32: f32,
    f_64: f64,
    text: String,
    blob: Vec<u8>,
    fixed: [u8; 4],
    bbuf: ByteBuf,
    doc: Json,
    emb: Vec<bf16>,
    boxed: Box<String>,
}
#[derive(Debug, Clone, PartialEq, Serialize, Deserialize, AndaDBSchema)]
struct Options {
    _id: u64,
    o_flag: Option<bool>,
    o_i64: Option<i64>,
    o_u8: Option<u8>,
    o_f32: Option<f32>,
    o_text: Option<String>,
    o_blob: Option<Vec<u8>>,
    o_emb: Option<Vec<bf16>>,
    o_vec: Option<Vec<i32>>,
    o_map: Option<BTreeMap<String, u64>>,
    o_inner: Option<Inner>,
}
#[derive(Debug, Clone, PartialEq, Serialize, Deserialize, AndaDBSchema)]
struct Containers {
    _id: u64,
    v_text: Vec<String>,
    v_i32: Vec<i32>,
    v_f32: Vec<f32>,
    v_opt: Vec<Option<i64>>,
    v_vec: Vec<Vec<u64>>,
    s_u64: BTreeSet<u64>,
    m_text: BTreeMap<String, String>,
    m_i64: BTreeMap<i64, f32>,
    m_bytes: BTreeMap<ByteBuf, u64>,
    hm: HashMap<String, i64>,
    m_json: BTreeMap<String, Json>,
    m_vec: BTreeMap<i32, Vec<i64>>,
    inner: Inner,
    v_inner: Vec<Inner>,
    m_inner: BTreeMap<String, Inner>,
    deep: BTreeMap<String, Vec<Option<Inner>>>,
}

fn run_der_typed<T>(rep: &mut Rep, c: &Value, schema: Schema)
where
    T: Serialize + serde::de::DeserializeOwned + PartialEq + std::fmt::Debug,
{
    let schema = Arc::new(schema);
    // derived FieldTypes
    for e in arr(&c["types"]) {
        let name = e[0].as_str().unwrap();
        let want = mk_type(&e[1]);
        rep.check();
        match schema.get_field(name) {
            Some(f) if f.r#type() == &want => {}
            other => rep.mismatch(&format!("derived FieldType of {}.{name}", c["name"]), c, format!("{:?}", other.map(|f| f.r#type().clone())), format!("{want:?}")),
        }
    }
    rep.check();
    if schema.len() != arr(&c["types"]).len() + 1 {
        rep.mismatch("derived schema field count", c, format!("{}", schema.len()), format!("{}", arr(&c["types"]).len() + 1));
    }
    for (rno, row) in arr(&c["rows"]).iter().enumerate() {
        let mut small = json!({"fam": "der", "name": c["name"], "row": rno + 1, "values": row});
        let c = &mut small;
        let want: BTreeMap<String, Fv> = arr(row).iter().map(|e| (e[0].as_str().unwrap().to_string(), mk_value(&e[1]))).collect();
        // abstract row -> Document (field by field) -> T
        let mut doc1 = Document::new(schema.clone());
        doc1.set_id(7);
        let mut ok = true;
        for (name, v) in &want {
            rep.check();
            if let Err(e) = doc1.set_field(name, v.clone()) {
                ok = false;
                rep.mismatch(&format!("derive: canonical value refused for field {name}"), c, format!("{e:?}"), show(v));
            }
        }
        if !ok {
            continue;
        }
        rep.check();
        let t1: T = match doc1.clone().try_into() {
            Ok(t) => t,
            Err(e) => {
                rep.mismatch("derive: valid document does not convert to its typed value", c, format!("{e:?}"), "T".into());
                continue;
            }
        };
        // T -> Document (typed path): must be exactly the canonical fields
        rep.check();
        let doc2 = match Document::try_from(schema.clone(), &t1) {
            Ok(d) => d,
            Err(e) => {
                rep.mismatch("derive: typed value refused by Document::try_from", c, format!("{e:?}"), format!("{t1:?}"));
                continue;
            }
        };
        let check_fields = |rep: &mut Rep, what: &str, d: &Document, c: &Value| {
            for (name, v) in &want {
                rep.expect_fv(&format!("derive: {what}: field {name}"), c, d.get_field(name), v);
            }
            rep.check();
            if d.fields().len() != want.len() + 1 {
                rep.mismatch(&format!("derive: {what}: field count"), c, format!("{}", d.fields().len()), format!("{}", want.len() + 1));
            }
        };
        check_fields(rep, "Document::try_from(T)", &doc2, c);
        // -> bytes -> DocumentOwned -> Document -> T
        let bytes = match to_bytes(&doc2) {
            Ok(b) => b,
            Err(e) => {
                rep.mismatch("derive: accepted typed document cannot be stored", c, e, "bytes".into());
                continue;
            }
        };
        rep.check();
        match owned_from(&bytes).and_then(|o| Document::try_from_doc(schema.clone(), o).map_err(|e| format!("{e:?}"))) {
            Ok(doc3) => {
                check_fields(rep, "read back", &doc3, c);
                rep.check();
                match doc3.try_into::<T>() {
                    Ok(t2) => {
                        // PartialEq, or (for NaN bit patterns inside a Vec<bf16>, which are never == ) the same rendering
                        if t2 != t1 && format!("{t2:?}") != format!("{t1:?}") {
                            rep.mismatch("derive: typed value changed by the round trip", c, format!("{t2:?}"), format!("{t1:?}"));
                        }
                    }
                    Err(e) => rep.mismatch("derive: read-back document does not convert to its typed value", c, format!("{e:?}"), format!("{t1:?}")),
                }
            }
            Err(e) => rep.mismatch("derive: ACCEPTED ON WRITE, REJECTED ON READ", c, e, format!("{t1:?}")),
        }
    }
}

fn run_der(rep: &mut Rep, c: &Value) {
    match c["name"].as_str().unwrap() {
        "Scalars" => run_der_typed::<Scalars>(rep, c, Scalars::schema().unwrap()),
        "Options" => run_der_typed::<Options>(rep, c, Options::schema().unwrap()),
        "Containers" => run_der_typed::<Containers>(rep, c, Containers::schema().unwrap()),
        n => panic!("unknown struct {n}"),
    }
}

// ---------------------------------------------------------------------------------------------
// the specification's numeric facts

fn run_ax(rep: &mut Rep, c: &Value) {
    for e in arr(&c["ints"]) {
        let a = e[0].as_str().unwrap();
        let n = int_atom(a);
        let facts = [n < 0, n >= i64::MIN as i128 && n <= i64::MAX as i128, n >= 0 && n <= u64::MAX as i128, n >= 0 && n <= u16::MAX as i128, n >= 0 && n <= u8::MAX as i128];
        for (i, f) in facts.iter().enumerate() {
            rep.expect_bool(&format!("axiom: integer atom {a} fact {}", i + 1), c, e[i + 1].as_bool().unwrap(), *f, String::new());
        }
    }
    let f32s: Vec<&str> = arr(&c["f32s"]).iter().map(|x| x.as_str().unwrap()).collect();
    for e in arr(&c["f64s"]) {
        let a = e[0].as_str().unwrap();
        let v = f64_atom(a);
        rep.expect_bool(&format!("axiom: {a} IsNaN"), c, e[1].as_bool().unwrap(), v.is_nan(), String::new());
        rep.expect_bool(&format!("axiom: {a} Finite"), c, e[2].as_bool().unwrap(), v.is_finite(), String::new());
        let r = e[3].as_str().unwrap();
        rep.check();
        if !f32s.contains(&r) || (f32_atom(r).to_bits() != (v as f32).to_bits() && !v.is_nan()) {
            rep.mismatch(&format!("axiom: RoundF32({a})"), c, format!("{:?}", v as f32), r.to_string());
        }
        let f = v as f32;
        rep.expect_bool(&format!("axiom: {a} F32InRange"), c, e[4].as_bool().unwrap(), !v.is_nan() && !(v.is_finite() && f.is_infinite()), String::new());
        // an f32 read back through CBOR (exact widening) or through JSON (shortest decimal, re-parsed as f64)
        let cbor_back = !v.is_nan() && !(v.is_finite() && f.is_infinite()) && f64::from(f) == v;
        let json_back = !v.is_nan() && f.is_finite() && serde_json::to_string(&f).ok().and_then(|s| s.parse::<f64>().ok()) == Some(v);
        rep.expect_bool(&format!("axiom: {a} F32ReadBack"), c, e[5].as_bool().unwrap(), cbor_back || json_back, String::new());
    }
    // same atom name = same real number in both widths
    for a in &f32s {
        rep.check();
        let w = f32_atom(a) as f64;
        if !(w.is_nan() && f64_atom(a).is_nan()) && w.to_bits() != f64_atom(a).to_bits() {
            rep.mismatch(&format!("axiom: f32 atom {a} widens to the f64 atom of the same name"), c, format!("{w:?}"), format!("{:?}", f64_atom(a)));
        }
    }
    let b = FieldValueBudget::default();
    let got = vec![b.max_depth, b.max_nodes, b.max_array_len, b.max_map_entries];
    let want: Vec<usize> = arr(&c["budget"]).iter().map(|x| x.as_u64().unwrap() as usize).collect();
    rep.check();
    if got != want {
        rep.mismatch("axiom: FieldValueBudget::default()", c, format!("{got:?}"), format!("{want:?}"));
    }
}

// ---------------------------------------------------------------------------------------------
// a real Collection, compression off and on

async fn run_col(rep: &mut Rep, t: &Value, schema: &Schema, docs: &[(Document, Fv)], no: usize) {
    let case = json!({"fam": "col", "t": t});
    for level in [0, 3] {
        let db = AndaDB::connect(
            Arc::new(InMemory::new()),
            DBConfig {
                name: format!("c13db{no}x{level}"),
                description: "c13".into(),
                storage: StorageConfig { compress_level: level, ..Default::default() },
                lock: None,
            },
        )
        .await
        .expect("connect");
        let schema = schema.clone();
        let col = match db
            .open_or_create_collection(schema, CollectionConfig { name: "docs".into(), description: "docs".into() }, async |_c| Ok(()))
            .await
        {
            Ok(c) => c,
            Err(e) => {
                rep.mismatch("collection cannot be created for this schema", &case, format!("{e:?}"), "collection".into());
                return;
            }
        };
        let mut ids = Vec::new();
        for (d, _) in docs {
            let mut nd = Document::new(col.schema());
            nd.set_id(0); // replaced by Collection::add
            for (i, v) in d.fields() {
                if *i != 0 {
                    nd.set_field("x", v.clone()).expect("already accepted");
                }
            }
            rep.check();
            match col.add(nd).await {
                Ok(id) => ids.push(Some(id)),
                Err(e) => {
                    ids.push(None);
                    rep.mismatch(&format!("Collection::add (compress_level {level}) refuses a document the schema accepts"), &json!({"fam": "col", "t": t, "value": show_opt(d.get_field("x"))}), format!("{e:?}"), "added".into());
                }
            }
        }
        col.flush(1).await.expect("flush");
        for ((d, canon), id) in docs.iter().zip(&ids) {
            let Some(id) = id else { continue };
            let c = json!({"fam": "col", "t": t, "compress_level": level, "written": show_opt(d.get_field("x"))});
            match col.get(*id).await {
                Ok(g) => rep.expect_fv("Collection::get is not the declared variant of what was added", &c, g.get_field("x"), canon),
                Err(e) => rep.mismatch("Collection::get fails on a document Collection::add accepted", &c, format!("{e:?}"), show(canon)),
            }
        }
        let _ = col.close().await;
    }
}

static IN_CASE: std::sync::atomic::AtomicBool = std::sync::atomic::AtomicBool::new(false);

#[tokio::main]
async fn main() {
    let args: Vec<String> = std::env::args().collect();
    if args.len() < 3 || args[1] != "replay" {
        eprintln!("usage: drive_schema replay <cases.jsonl> [--col N]");
        std::process::exit(2);
    }
    let col_every: usize = args.iter().position(|a| a == "--col").and_then(|i| args.get(i + 1)).and_then(|s| s.parse().ok()).unwrap_or(0);
    // a panic inside a case is data (reported as a mismatch); anywhere else it is a harness error
    std::panic::set_hook(Box::new(|info| {
        if !IN_CASE.load(std::sync::atomic::Ordering::SeqCst) {
            eprintln!("drive_schema: {info}");
        }
    }));
    let f = std::io::BufReader::new(std::fs::File::open(&args[2]).unwrap());
    let mut rep = Rep { checks: 0, bad: 0, by_what: BTreeMap::new(), lines: Vec::new(), notes: Vec::new() };
    let mut fams: BTreeMap<String, u64> = BTreeMap::new();
    let mut panics = 0u64;
    // the documents each type accepted go to a real collection afterwards
    let mut by_type: BTreeMap<String, Vec<(Document, Fv)>> = BTreeMap::new();
    for line in f.lines() {
        let line = line.unwrap();
        if line.trim().is_empty() {
            continue;
        }
        let c: Value = serde_json::from_str(&line).unwrap();
        let fam = c["fam"].as_str().unwrap().to_string();
        *fams.entry(fam.clone()).or_default() += 1;
        let mut acc: Vec<(Document, Fv)> = Vec::new();
        IN_CASE.store(true, std::sync::atomic::Ordering::SeqCst);
        let r = catch_unwind(AssertUnwindSafe(|| match fam.as_str() {
            "ax" => run_ax(&mut rep, &c),
            "val" => run_val(&mut rep, &c, &mut acc),
            "bud" => run_bud(&mut rep, &c),
            "upg" => run_upg(&mut rep, &c),
            "der" => run_der(&mut rep, &c),
            x => panic!("family {x}"),
        }));
        IN_CASE.store(false, std::sync::atomic::Ordering::SeqCst);
        if let Err(p) = r {
            panics += 1;
            let msg = p.downcast_ref::<String>().cloned().or_else(|| p.downcast_ref::<&str>().map(|s| s.to_string())).unwrap_or_default();
            rep.mismatch("PANIC while replaying the case", &c, msg, "no panic".into());
        }
        if col_every > 0 && !acc.is_empty() {
            by_type.entry(c["t"].to_string()).or_default().extend(acc);
        }
    }
    let mut col_docs = 0u64;
    let mut col_types = 0u64;
    for (no, (t, docs)) in by_type.iter().enumerate() {
        if no % col_every != 0 {
            continue;
        }
        let t: Value = serde_json::from_str(t).unwrap();
        let schema = schema_x(&mk_type(&t));
        col_types += 1;
        col_docs += docs.len() as u64;
        run_col(&mut rep, &t, &schema, docs, no).await;
    }
    let out = std::io::stdout();
    let mut o = out.lock();
    for l in rep.lines.iter().chain(rep.notes.iter()) {
        writeln!(o, "{l}").unwrap();
    }
    writeln!(o, "{}", json!({"summary": true, "cases": fams, "checks": rep.checks, "mismatches": rep.bad, "by_what": rep.by_what,
                             "panics": panics, "col_types": col_types, "col_docs": col_docs})).unwrap();
}
