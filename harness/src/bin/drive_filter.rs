//! C03 replay driver (direction R): executes every (population, filter) case
//! enumerated by TLC from spec/MC_Filter.tla against a real collection and
//! compares `query_all_ids`, `query_ids`, `query_last_ids` and `search_ids`
//! with the answers the specification computed.
//!
//! usage: drive_filter <cases.ndjson> <out.json>
//! cases.ndjson: first line {"pops": [...]}, then one case per line.

use anda_db::{
    collection::{Collection, CollectionConfig},
    database::{AndaDB, DBConfig},
    index::HnswConfig,
    query::{Filter, Query, RangeQuery, Search},
    schema::{AndaDBSchema, Fv, Vector, bf16},
    storage::StorageConfig,
};
use object_store::memory::InMemory;
use serde::{Deserialize, Serialize};
use serde_json::{Value, json};
use std::{
    collections::BTreeMap,
    io::{BufRead, BufReader, Write},
    sync::Arc,
};

#[derive(Debug, Clone, Serialize, Deserialize, AndaDBSchema)]
struct FDoc {
    _id: u64,
    a: Option<u64>,
    b: Vec<u64>,
    t: Option<String>,
    emb: Vector,
}

/// Text whose BM25 score for the query "foo" decreases with `trank` (equal document lengths,
/// term frequency = N - trank); trank 0 = no text.
fn text_of(trank: u64) -> Option<String> {
    const N: u64 = 14;
    if trank == 0 {
        return None;
    }
    let tf = N - trank;
    let mut words = Vec::new();
    for _ in 0..tf {
        words.push("foo");
    }
    for _ in tf..N {
        words.push("pad");
    }
    Some(words.join(" "))
}

fn set_of(v: &Value) -> Vec<u64> {
    v.as_array()
        .map(|a| a.iter().filter_map(|x| x.as_u64()).collect())
        .unwrap_or_default()
}

async fn build_pop(pop: &Value, idx: usize) -> Arc<Collection> {
    let db = AndaDB::connect(
        Arc::new(InMemory::new()),
        DBConfig {
            name: format!("fdb{idx}"),
            description: "filter replay".into(),
            storage: StorageConfig {
                compress_level: 0,
                ..Default::default()
            },
            lock: None,
        },
    )
    .await
    .expect("connect");
    let col = db
        .open_or_create_collection(
            FDoc::schema().unwrap(),
            CollectionConfig {
                name: "docs".into(),
                description: "docs".into(),
            },
            async |c| {
                c.create_btree_index_nx(&["a"]).await?;
                c.create_btree_index_nx(&["b"]).await?;
                c.create_bm25_index_nx(&["t"]).await?;
                c.create_hnsw_index_nx(
                    "emb",
                    HnswConfig {
                        dimension: 2,
                        ..Default::default()
                    },
                )
                .await?;
                Ok(())
            },
        )
        .await
        .expect("collection");
    let docs = pop.as_array().unwrap();
    // 1. insert everything (also the fillers) with the insertion-time value of `a`
    for (i, d) in docs.iter().enumerate() {
        let ia = set_of(&d["ia"]);
        let b = set_of(&d["b"]);
        let rank = d["rank"].as_u64().unwrap();
        // reversed so that posting order inside an array is not key order either
        let mut b_vals: Vec<u64> = b.iter().rev().copied().collect();
        if b_vals.len() > 1 {
            // one duplicate element: array fields may repeat values
            b_vals.push(b_vals[0]);
        }
        let doc = FDoc {
            _id: 0,
            a: ia.first().copied(),
            b: b_vals,
            t: text_of(d["trank"].as_u64().unwrap_or(0)),
            emb: vec![bf16::from_f32(rank as f32), bf16::from_f32(0.0)],
        };
        let id = col.add_from(&doc).await.expect("add");
        assert_eq!(id as usize, i + 1, "ids are allocated 1..n");
    }
    // 2. move `a` to its final value
    for (i, d) in docs.iter().enumerate() {
        let ia = set_of(&d["ia"]);
        let a = set_of(&d["a"]);
        if ia != a {
            let v = match a.first() {
                Some(k) => Fv::U64(*k),
                None => Fv::Null,
            };
            col.update((i + 1) as u64, BTreeMap::from([("a".to_string(), v)]))
                .await
                .expect("update");
        }
    }
    // 3. remove the fillers
    for (i, d) in docs.iter().enumerate() {
        if !d["live"].as_bool().unwrap() {
            col.remove((i + 1) as u64).await.expect("remove");
        }
    }
    col.flush(anda_db::unix_ms()).await.expect("flush");
    // sanity: the collection's own view of the population equals the spec's
    let live: Vec<u64> = docs
        .iter()
        .enumerate()
        .filter(|(_, d)| d["live"].as_bool().unwrap())
        .map(|(i, _)| (i + 1) as u64)
        .collect();
    assert_eq!(col.ids(), live, "population ids");
    col
}

fn range_q(v: &Value) -> RangeQuery<Fv> {
    let a = v.as_array().unwrap();
    let tag = a[0].as_str().unwrap();
    let k = |i: usize| Fv::U64(a[i].as_u64().unwrap());
    match tag {
        "eq" => RangeQuery::Eq(k(1)),
        "gt" => RangeQuery::Gt(k(1)),
        "ge" => RangeQuery::Ge(k(1)),
        "lt" => RangeQuery::Lt(k(1)),
        "le" => RangeQuery::Le(k(1)),
        "between" => RangeQuery::Between(k(1), k(2)),
        "include" => RangeQuery::Include(
            a[1].as_array()
                .unwrap()
                .iter()
                .map(|x| Fv::U64(x.as_u64().unwrap()))
                .collect(),
        ),
        "and" => RangeQuery::And(
            a[1].as_array()
                .unwrap()
                .iter()
                .map(|x| Box::new(range_q(x)))
                .collect(),
        ),
        "or" => RangeQuery::Or(
            a[1].as_array()
                .unwrap()
                .iter()
                .map(|x| Box::new(range_q(x)))
                .collect(),
        ),
        "not" => RangeQuery::Not(Box::new(range_q(&a[1]))),
        other => panic!("unknown range tag {other}"),
    }
}

fn filter_of(v: &Value) -> Filter {
    let a = v.as_array().unwrap();
    match a[0].as_str().unwrap() {
        "field" => Filter::Field((a[1].as_str().unwrap().to_string(), range_q(&a[2]))),
        "and" => Filter::And(
            a[1].as_array()
                .unwrap()
                .iter()
                .map(|x| Box::new(filter_of(x)))
                .collect(),
        ),
        "or" => Filter::Or(
            a[1].as_array()
                .unwrap()
                .iter()
                .map(|x| Box::new(filter_of(x)))
                .collect(),
        ),
        "not" => Filter::Not(Box::new(filter_of(&a[1]))),
        other => panic!("unknown filter tag {other}"),
    }
}

fn ids_of(v: &Value) -> Vec<u64> {
    v.as_array()
        .unwrap()
        .iter()
        .map(|x| x.as_u64().unwrap())
        .collect()
}

// The harness-side Page function used when the spec printed only `full`
// (thorough tier); on the quick tier it is itself compared against the pages
// printed by the spec for every case.
fn page_first(full: &[u64], limit: i64) -> Vec<u64> {
    let l = if limit < 0 || limit > 1000 { 1000 } else { limit as usize };
    full.iter().take(l).copied().collect()
}
fn page_last(full: &[u64], limit: i64) -> Vec<u64> {
    let l = if limit < 0 || limit > 1000 { 1000 } else { limit as usize };
    full[full.len().saturating_sub(l)..].to_vec()
}
fn lim_opt(limit: i64) -> Option<usize> {
    if limit < 0 { None } else { Some(limit as usize) }
}

#[tokio::main(flavor = "current_thread")]
async fn main() {
    let args: Vec<String> = std::env::args().collect();
    let cases = BufReader::new(std::fs::File::open(&args[1]).expect("cases"));
    let mut lines = cases.lines();
    let head: Value = serde_json::from_str(&lines.next().unwrap().unwrap()).unwrap();
    let pops = head["pops"].as_array().unwrap();
    let mut cols = Vec::new();
    for (i, p) in pops.iter().enumerate() {
        cols.push(build_pop(p, i).await);
    }
    // relevance order of an unfiltered search must be the rank order of the population
    for (i, p) in pops.iter().enumerate() {
        let mut by_rank: Vec<(u64, u64)> = p
            .as_array()
            .unwrap()
            .iter()
            .enumerate()
            .filter(|(_, d)| d["live"].as_bool().unwrap())
            .map(|(j, d)| (d["rank"].as_u64().unwrap(), (j + 1) as u64))
            .collect();
        by_rank.sort();
        let expect: Vec<u64> = by_rank.into_iter().map(|x| x.1).collect();
        let got = cols[i]
            .search_ids(Query {
                search: Some(Search {
                    vector: Some(vec![0.0, 0.0]),
                    ..Default::default()
                }),
                filter: None,
                limit: Some(1000),
            })
            .await
            .expect("search");
        assert_eq!(got, expect, "candidate order of population {i}");
    }

    let mut n_cases = 0u64;
    let mut n_queries = 0u64;
    let mut n_nontrivial = 0u64; // 0 < |full| < |live| or composite
    let mut disagreements: Vec<Value> = Vec::new();
    let mut n_disagree = 0u64;
    let mut page_fn_checked = 0u64;
    let mut samples: Vec<Value> = Vec::new();

    for line in lines {
        let line = line.unwrap();
        if line.is_empty() {
            continue;
        }
        let case: Value = serde_json::from_str(&line).unwrap();
        let pi = case["p"].as_u64().unwrap() as usize - 1;
        let col = &cols[pi];
        let n_live = col.len();
        let fjson = &case["f"];
        let full = ids_of(&case["full"]);
        n_cases += 1;
        if !full.is_empty() && full.len() < n_live {
            n_nontrivial += 1;
        }
        if samples.len() < 5 && n_cases % 997 == 1 {
            samples.push(case.clone());
        }
        let mut report = |what: &str, limit: i64, expected: &[u64], observed: Value| {
            n_disagree += 1;
            if disagreements.len() < 2000 {
                disagreements.push(json!({
                    "p": pi + 1, "f": fjson, "api": what, "limit": limit,
                    "expected": expected, "observed": observed, "case": &case,
                }));
            }
        };
        // unbounded
        match col.query_all_ids(filter_of(fjson)).await {
            Ok(got) => {
                if got != full {
                    report("query_all_ids", -1, &full, json!(got));
                }
            }
            Err(e) => report("query_all_ids", -1, &full, json!(format!("error: {e}"))),
        }
        n_queries += 1;

        // limits
        let quick = case.get("pages").is_some();
        let rows = if quick { case["pages"].as_array().unwrap() } else { case["srch"].as_array().unwrap() };
        for row in rows {
            let limit = &row[0].as_i64().unwrap();
            let (e_first, e_last, e_vec, e_hyb) = if quick {
                let (f, l) = (ids_of(&row[1]), ids_of(&row[2]));
                // the harness-side page functions must agree with the spec's
                assert_eq!(page_first(&full, *limit), f, "harness page_first vs spec");
                assert_eq!(page_last(&full, *limit), l, "harness page_last vs spec");
                page_fn_checked += 1;
                (f, l, ids_of(&row[3]), ids_of(&row[4]))
            } else {
                (
                    page_first(&full, *limit),
                    page_last(&full, *limit),
                    ids_of(&row[1]),
                    ids_of(&row[2]),
                )
            };
            match col.query_ids(filter_of(fjson), lim_opt(*limit)).await {
                Ok(got) if got == e_first => {}
                Ok(got) => report("query_ids", *limit, &e_first, json!(got)),
                Err(e) => report("query_ids", *limit, &e_first, json!(format!("error: {e}"))),
            }
            match col.query_last_ids(filter_of(fjson), lim_opt(*limit)).await {
                Ok(got) if got == e_last => {}
                Ok(got) => report("query_last_ids", *limit, &e_last, json!(got)),
                Err(e) => report("query_last_ids", *limit, &e_last, json!(format!("error: {e}"))),
            }
            let q = Query {
                search: Some(Search {
                    vector: Some(vec![0.0, 0.0]),
                    ..Default::default()
                }),
                filter: Some(filter_of(fjson)),
                limit: lim_opt(*limit),
            };
            match col.search_ids(q).await {
                Ok(got) if got == e_vec => {}
                Ok(got) => report("search_ids_vector", *limit, &e_vec, json!(got)),
                Err(e) => report("search_ids_vector", *limit, &e_vec, json!(format!("error: {e}"))),
            }
            let q = Query {
                search: Some(Search {
                    text: Some("foo".to_string()),
                    vector: Some(vec![0.0, 0.0]),
                    ..Default::default()
                }),
                filter: Some(filter_of(fjson)),
                limit: lim_opt(*limit),
            };
            match col.search_ids(q).await {
                Ok(got) if got == e_hyb => {}
                Ok(got) => report("search_ids_hybrid", *limit, &e_hyb, json!(got)),
                Err(e) => report("search_ids_hybrid", *limit, &e_hyb, json!(format!("error: {e}"))),
            }
            // filter-only search_ids = smallest-id page with default limit 10
            let q = Query {
                search: None,
                filter: Some(filter_of(fjson)),
                limit: lim_opt(*limit),
            };
            let e_fonly = {
                let l = if *limit < 0 { 10 } else { (*limit).min(1000) as usize };
                full.iter().take(l).copied().collect::<Vec<u64>>()
            };
            match col.search_ids(q).await {
                Ok(got) if got == e_fonly => {}
                Ok(got) => report("search_ids_filter_only", *limit, &e_fonly, json!(got)),
                Err(e) => report(
                    "search_ids_filter_only",
                    *limit,
                    &e_fonly,
                    json!(format!("error: {e}")),
                ),
            }
            n_queries += 5;
        }
    }
    let out = json!({
        "cases": n_cases,
        "queries": n_queries,
        "nontrivial": n_nontrivial,
        "page_fn_checked": page_fn_checked,
        "n_disagree": n_disagree,
        "disagreements": disagreements,
        "samples": samples,
    });
    let mut f = std::fs::File::create(&args[2]).expect("out");
    f.write_all(serde_json::to_string(&out).unwrap().as_bytes())
        .unwrap();
    println!(
        "drive_filter: cases={n_cases} queries={n_queries} disagreements={n_disagree}"
    );
}
