//! C09 driver (direction R): every tamper class of spec/Encrypted.tla concretised at byte level on
//! a real EncryptedStore over InMemory, plus - independent of the classes - EVERY byte position x
//! 8 bit flips of EVERY backend object and every truncation length; after each manipulation all
//! read paths (get, ranged get, get_ranges, head, list) are run on a cold instance, on a cold
//! instance that lists first, on a strict-mode instance and on an instance whose metadata cache
//! was warm before the manipulation.  Every answer must be an error or exactly what was written
//! for THAT key (any committed version of it).  Also: no plaintext window in any backend object,
//! no nonce shared by two different commits.
//!
//! usage: drive_encrypted <out.json>

use anda_object_store::EncryptedStoreBuilder;
use bytes::Bytes;
use futures::TryStreamExt;
use object_store::{memory::InMemory, path::Path, *};
use serde_json::{Value, json};
use std::{collections::BTreeMap, sync::Arc};

const CHUNK: u64 = 7;
const SECRET: [u8; 32] = [42u8; 32];

type Snapshot = BTreeMap<String, Vec<u8>>;

fn plain(tag: u8, len: usize) -> Vec<u8> {
    // distinct, high-entropy-ish, position dependent
    (0..len).map(|i| (i as u8).wrapping_mul(37).wrapping_add(tag.wrapping_mul(91)).rotate_left((i % 7) as u32) ^ tag).collect()
}

fn store_over(inner: Arc<InMemory>, strict: bool) -> Arc<dyn ObjectStore> {
    let b = EncryptedStoreBuilder::with_secret(inner, 1000, SECRET).with_chunk_size(CHUNK);
    if strict { Arc::new(b.with_strict_metadata_auth().build()) } else { Arc::new(b.build()) }
}

async fn snapshot(inner: &InMemory) -> Snapshot {
    let mut out = Snapshot::new();
    let l: Vec<ObjectMeta> = inner.list(None).try_collect().await.unwrap();
    for m in l {
        let b = inner.get(&m.location).await.unwrap().bytes().await.unwrap();
        out.insert(m.location.to_string(), b.to_vec());
    }
    out
}

async fn load(snap: &Snapshot) -> Arc<InMemory> {
    let inner = Arc::new(InMemory::new());
    for (p, b) in snap {
        inner.put(&Path::from(p.as_str()), Bytes::from(b.clone()).into()).await.unwrap();
    }
    inner
}

/// Make `inner` hold exactly `snap`.
async fn mutate_to(inner: &InMemory, snap: &Snapshot) {
    let cur = snapshot(inner).await;
    for p in cur.keys() {
        if !snap.contains_key(p) {
            inner.delete(&Path::from(p.as_str())).await.unwrap();
        }
    }
    for (p, b) in snap {
        if cur.get(p) != Some(b) {
            inner.put(&Path::from(p.as_str()), Bytes::from(b.clone()).into()).await.unwrap();
        }
    }
}

#[derive(Clone)]
struct Version {
    bytes: Vec<u8>,
    etag: Option<String>,
}

struct World {
    base: Snapshot,
    /// every committed version of every logical key
    versions: BTreeMap<String, Vec<Version>>,
    /// backend objects of replaced commits that the attacker kept (path -> bytes)
    old_objects: Snapshot,
    /// all metadata documents ever written (for the nonce check)
    all_meta_docs: Vec<(String, Vec<u8>)>,
}

async fn build_world() -> World {
    let inner = Arc::new(InMemory::new());
    let st = store_over(inner.clone(), false);
    let mut versions: BTreeMap<String, Vec<Version>> = BTreeMap::new();
    let mut old_objects = Snapshot::new();
    let mut all_meta_docs = Vec::new();
    let mut record = |key: &str, bytes: Vec<u8>, etag: Option<String>| {
        versions.entry(key.to_string()).or_default().push(Version { bytes, etag });
    };
    // a: two versions (10 then 21 bytes); b: multipart 21; c: empty; f: exactly one chunk; g: chunk + 1
    let put = async |k: &str, data: Vec<u8>| {
        st.put(&Path::from(k), Bytes::from(data).into()).await.unwrap().e_tag
    };
    let e = put("a", plain(1, 10)).await;
    record("a", plain(1, 10), e);
    let before = snapshot(&inner).await;
    let e = put("a", plain(2, 21)).await;
    record("a", plain(2, 21), e);
    // the attacker kept the replaced objects of a's first commit
    for (p, b) in &before {
        if p.starts_with("gen/a/") || p == "meta/a" {
            old_objects.insert(p.clone(), b.clone());
        }
    }
    {
        let mut up = st.put_multipart(&Path::from("b")).await.unwrap();
        let d = plain(3, 21);
        up.put_part(Bytes::from(d[..9].to_vec()).into()).await.unwrap();
        up.put_part(Bytes::from(d[9..].to_vec()).into()).await.unwrap();
        let e = up.complete().await.unwrap().e_tag;
        record("b", d, e);
    }
    let e = put("c", vec![]).await;
    record("c", vec![], e);
    let e = put("f", plain(4, 7)).await;
    record("f", plain(4, 7), e);
    let e = put("g", plain(5, 8)).await;
    record("g", plain(5, 8), e);
    // d: copy of a; h: renamed from a temporary key
    st.copy(&Path::from("a"), &Path::from("d")).await.unwrap();
    let e = st.head(&Path::from("d")).await.unwrap().e_tag;
    record("d", plain(2, 21), e);
    put("tmp", plain(6, 15)).await;
    st.rename(&Path::from("tmp"), &Path::from("h")).await.unwrap();
    let e = st.head(&Path::from("h")).await.unwrap().e_tag;
    record("h", plain(6, 15), e);
    let base = snapshot(&inner).await;
    for (p, b) in base.iter().chain(old_objects.iter()) {
        if p.starts_with("meta/") {
            all_meta_docs.push((p.clone(), b.clone()));
        }
    }
    World { base, versions, old_objects, all_meta_docs }
}

#[derive(Default)]
struct Tally {
    reads: u64,
    ok_original: u64,
    failed: u64,
    wrong: Vec<Value>,
    /// head / list answers taken from a document indistinguishable from genuine legacy metadata (see battery)
    legacy_meta_reports: u64,
    /// get answering with an empty body from a forged empty legacy object (compatibility mode)
    empty_forgery: Vec<Value>,
}

/// All read paths of one instance; `list_first` runs the listing before the reads.
async fn battery(st: &Arc<dyn ObjectStore>, w: &World, mode: &str, what: &str, list_first: bool, t: &mut Tally) {
    let keys: Vec<String> = w.versions.keys().cloned().collect();
    let matches = |key: &str, f: &dyn Fn(&Version) -> bool| w.versions[key].iter().any(|v| f(v));
    // A document stripped of EVERY field the sealed format added (an, at, g, av) is indistinguishable from genuine
    // pre-authentication metadata, which compatibility mode accepts by documented design (strict mode refuses it):
    // what head / list report for it is whatever the document says.  C09 is about the BYTES a read returns - those
    // are checked for these tampers like for any other; the reported size / token are only counted.
    let unauth_meta = what.starts_with("downgrade") && what.contains("\"av\"") && !mode.contains("strict");
    let mut wrong = |t: &mut Tally, key: &str, path: &str, detail: String| {
        if unauth_meta && (path == "head" || path == "list") {
            t.legacy_meta_reports += 1;
            return;
        }
        // ... and an EMPTY object forged that way (size 0, no tags, empty data/<key>) has no chunk whose tag could
        // fail: get answers with 0 bytes for a key whose commits are not empty.  Classified separately (known finding).
        if unauth_meta && path == "get" && detail.starts_with("0 bytes") {
            if t.empty_forgery.len() < 4 {
                t.empty_forgery.push(json!({"tamper": what, "instance": mode, "key": key, "read": path, "detail": detail}));
            } else {
                t.empty_forgery.push(Value::Null);
            }
            return;
        }
        if t.wrong.len() < 50 {
            t.wrong.push(json!({"tamper": what, "instance": mode, "key": key, "read": path, "detail": detail}));
        } else {
            t.wrong.push(Value::Null);
        }
    };
    let do_list = async |t: &mut Tally| {
        t.reads += 1;
        match st.list(None).try_collect::<Vec<ObjectMeta>>().await {
            Ok(l) => {
                let mut bad = false;
                for m in l {
                    let k = m.location.to_string();
                    if !w.versions.contains_key(&k) {
                        wrong(t, &k, "list", "lists a key that was never written".into());
                        bad = true;
                        continue;
                    }
                    if !matches(&k, &|v| v.bytes.len() as u64 == m.size && v.etag == m.e_tag) {
                        wrong(t, &k, "list", format!("size {} / token {:?} belong to no commit of the key", m.size, m.e_tag));
                        bad = true;
                    }
                }
                if !bad {
                    t.ok_original += 1;
                }
            }
            Err(_) => t.failed += 1,
        }
    };
    if list_first {
        do_list(t).await;
    }
    for key in &keys {
        let p = Path::from(key.as_str());
        let maxlen = w.versions[key].iter().map(|v| v.bytes.len()).max().unwrap() as u64;
        // full get
        t.reads += 1;
        match st.get(&p).await {
            Ok(r) => {
                let meta = r.meta.clone();
                match r.bytes().await {
                    Ok(b) => {
                        if matches(key, &|v| v.bytes == b.as_ref() && v.etag == meta.e_tag && v.bytes.len() as u64 == meta.size) {
                            t.ok_original += 1;
                        } else {
                            wrong(t, key, "get", format!("{} bytes that no commit of the key wrote (or a foreign token/size)", b.len()));
                        }
                    }
                    Err(_) => t.failed += 1,
                }
            }
            Err(_) => t.failed += 1,
        }
        // ranged gets
        let mut ranges: Vec<GetRange> = vec![GetRange::Offset(1), GetRange::Suffix(3), GetRange::Bounded(0..1)];
        if maxlen > CHUNK {
            ranges.push(GetRange::Bounded(CHUNK - 1..CHUNK + 1));
            ranges.push(GetRange::Bounded(CHUNK..maxlen));
            ranges.push(GetRange::Bounded(maxlen - 1..maxlen));
        }
        for r in ranges {
            t.reads += 1;
            match st.get_opts(&p, GetOptions { range: Some(r.clone()), ..Default::default() }).await {
                Ok(res) => {
                    let rr = res.range.clone();
                    match res.bytes().await {
                        Ok(b) => {
                            if matches(key, &|v| (rr.end as usize) <= v.bytes.len() && v.bytes[rr.start as usize..rr.end as usize] == *b) {
                                t.ok_original += 1;
                            } else {
                                wrong(t, key, &format!("get {r:?}"), format!("{} bytes for {rr:?} that no commit of the key holds there", b.len()));
                            }
                        }
                        Err(_) => t.failed += 1,
                    }
                }
                Err(_) => t.failed += 1,
            }
        }
        // multi-range
        if maxlen >= 2 {
            t.reads += 1;
            let rs = vec![0..1, (maxlen - 1)..maxlen, (maxlen / 2)..maxlen];
            match st.get_ranges(&p, &rs).await {
                Ok(parts) => {
                    if matches(key, &|v| rs.iter().zip(parts.iter()).all(|(r, b)| (r.end as usize) <= v.bytes.len() && v.bytes[r.start as usize..r.end as usize] == **b)) {
                        t.ok_original += 1;
                    } else {
                        wrong(t, key, "get_ranges", "parts that no commit of the key holds".into());
                    }
                }
                Err(_) => t.failed += 1,
            }
        }
        // head
        t.reads += 1;
        match st.head(&p).await {
            Ok(m) => {
                if matches(key, &|v| v.bytes.len() as u64 == m.size && v.etag == m.e_tag) {
                    t.ok_original += 1;
                } else {
                    wrong(t, key, "head", format!("size {} / token {:?} belong to no commit of the key", m.size, m.e_tag));
                }
            }
            Err(_) => t.failed += 1,
        }
    }
    if !list_first {
        do_list(t).await;
    }
}

fn cbor_strip(doc: &[u8], remove: &[&str]) -> Option<Vec<u8>> {
    let v: cbor2::Value = cbor2::from_slice(doc).ok()?;
    if let cbor2::Value::Map(m) = v {
        let kept: Vec<(cbor2::Value, cbor2::Value)> = m
            .into_iter()
            .filter(|(k, _)| !matches!(k, cbor2::Value::Text(t) if remove.contains(&t.as_str())))
            .collect();
        let mut out = Vec::new();
        cbor2::to_writer(&cbor2::Value::Map(kept.into_iter().collect()), &mut out).ok()?;
        Some(out)
    } else {
        None
    }
}

/// An (unauthenticated) document with its size set to `size` and its tag list cut to `ntags` entries.
fn cbor_edit(doc: &[u8], size: u64, ntags: usize) -> Option<Vec<u8>> {
    let v: cbor2::Value = cbor2::from_slice(doc).ok()?;
    if let cbor2::Value::Map(m) = v {
        let edited: Vec<(cbor2::Value, cbor2::Value)> = m
            .into_iter()
            .map(|(k, val)| match (&k, val) {
                (cbor2::Value::Text(t), _) if t == "s" => (k, cbor2::Value::from(size)),
                (cbor2::Value::Text(t), cbor2::Value::Array(a)) if t == "t" => {
                    (k.clone(), cbor2::Value::Array(a.into_iter().take(ntags).collect()))
                }
                (_, val) => (k, val),
            })
            .collect();
        let mut out = Vec::new();
        cbor2::to_writer(&cbor2::Value::Map(edited.into_iter().collect()), &mut out).ok()?;
        Some(out)
    } else {
        None
    }
}

fn tampers(w: &World) -> Vec<(String, Snapshot)> {
    let mut out: Vec<(String, Snapshot)> = Vec::new();
    let base = &w.base;
    let paths: Vec<String> = base.keys().cloned().collect();
    // (1) every byte x 8 bit flips of every backend object; every truncation; extensions
    for p in &paths {
        let b = &base[p];
        for i in 0..b.len() {
            for bit in 0..8 {
                let mut s = base.clone();
                s.get_mut(p).unwrap()[i] ^= 1 << bit;
                out.push((format!("flip {p} byte {i} bit {bit}"), s));
            }
        }
        for n in 0..b.len() {
            let mut s = base.clone();
            s.get_mut(p).unwrap().truncate(n);
            out.push((format!("truncate {p} to {n}"), s));
        }
        let mut s = base.clone();
        s.get_mut(p).unwrap().push(0);
        out.push((format!("extend {p} by a zero byte"), s));
        if b.len() >= CHUNK as usize {
            let mut s = base.clone();
            let tail = b[b.len() - CHUNK as usize..].to_vec();
            s.get_mut(p).unwrap().extend_from_slice(&tail);
            out.push((format!("extend {p} by a copy of its last chunk"), s));
        }
        let mut s = base.clone();
        s.remove(p);
        out.push((format!("delete {p}"), s));
    }
    // (2) pairwise exchange / replacement of whole objects (documents between keys, payloads between
    // keys and generations)
    for p in &paths {
        for q in &paths {
            if p >= q || p.starts_with("meta/") != q.starts_with("meta/") {
                continue;
            }
            let mut s = base.clone();
            s.insert(p.clone(), base[q].clone());
            s.insert(q.clone(), base[p].clone());
            out.push((format!("swap {p} <-> {q}"), s));
            let mut s = base.clone();
            s.insert(p.clone(), base[q].clone());
            out.push((format!("replace {p} by {q}"), s));
            let mut s = base.clone();
            s.insert(q.clone(), base[p].clone());
            out.push((format!("replace {q} by {p}"), s));
        }
    }
    // (3) chunks reordered / duplicated inside one payload
    for p in paths.iter().filter(|p| p.starts_with("gen/")) {
        let b = &base[p];
        let n = b.len().div_ceil(CHUNK as usize);
        for i in 0..n {
            for j in (i + 1)..n {
                let (a0, a1) = (i * CHUNK as usize, ((i + 1) * CHUNK as usize).min(b.len()));
                let (b0, b1) = (j * CHUNK as usize, ((j + 1) * CHUNK as usize).min(b.len()));
                if a1 - a0 != b1 - b0 {
                    continue;
                }
                let mut nb = b.clone();
                nb[a0..a1].copy_from_slice(&b[b0..b1]);
                nb[b0..b1].copy_from_slice(&b[a0..a1]);
                let mut s = base.clone();
                s.insert(p.clone(), nb);
                out.push((format!("swap chunks {i},{j} of {p}"), s));
            }
        }
    }
    // (4) the replaced commit of `a` put back: document only, payload only, both (a rollback)
    let old_meta = w.old_objects.iter().find(|(p, _)| p.as_str() == "meta/a");
    let old_gen = w.old_objects.iter().find(|(p, _)| p.starts_with("gen/a/"));
    if let (Some((mp, mb)), Some((gp, gb))) = (old_meta, old_gen) {
        let mut s = base.clone();
        s.insert(mp.clone(), mb.clone());
        out.push(("old document of a, old payload gone".into(), s.clone()));
        s.insert(gp.clone(), gb.clone());
        out.push(("old document and old payload of a (rollback)".into(), s));
        let mut s = base.clone();
        s.insert(gp.clone(), gb.clone());
        out.push(("old payload of a added".into(), s.clone()));
        // current document re-pointed: its payload object replaced by the old one
        let cur_gen = base.keys().find(|p| p.starts_with("gen/a/")).unwrap().clone();
        s.insert(cur_gen, gb.clone());
        out.push(("payload of a replaced by its old generation".into(), s));
    }
    // (5) authentication fields stripped, alone and with the fields whose presence betrays it
    for p in paths.iter().filter(|p| p.starts_with("meta/")) {
        for rm in [vec!["an"], vec!["at"], vec!["an", "at"], vec!["an", "at", "av"], vec!["an", "at", "g"],
                   vec!["an", "at", "av", "g"], vec!["an", "at", "av", "g", "m"], vec!["an", "at", "av", "g", "m", "c"],
                   vec!["m"], vec!["c"], vec!["av"], vec!["g"]] {
            if let Some(doc) = cbor_strip(&base[p], &rm) {
                let mut s = base.clone();
                s.insert(p.clone(), doc);
                out.push((format!("strip {rm:?} from {p}"), s));
            }
        }
    }
    // (5b) DOWNGRADE to the legacy layout: the authentication fields and the generation pointer stripped
    // (with and without the other fields that betray it), the ciphertext relocated to data/<key> where a
    // generation-less document points - and then, since nothing authenticates such a document any more,
    // edited: size and tag list cut to the first chunk(s), or the whole pair served under another key
    let meta_keys: Vec<String> = paths.iter().filter_map(|p| p.strip_prefix("meta/").map(|k| k.to_string())).collect();
    for k in &meta_keys {
        let Some(gp) = base.keys().find(|p| p.starts_with(&format!("gen/{k}/"))).cloned() else { continue };
        for rm in [vec!["an", "at", "g"], vec!["an", "at", "g", "m"], vec!["an", "at", "g", "av"], vec!["an", "at", "g", "av", "m"]] {
            let Some(doc) = cbor_strip(&base[&format!("meta/{k}")], &rm) else { continue };
            // as it is
            let mut s = base.clone();
            s.insert(format!("meta/{k}"), doc.clone());
            s.insert(format!("data/{k}"), base[&gp].clone());
            out.push((format!("downgrade {k}: strip {rm:?}, ciphertext at data/{k}"), s.clone()));
            s.remove(&gp);
            out.push((format!("downgrade {k}: strip {rm:?}, ciphertext MOVED to data/{k}"), s));
            // cut to the first n chunks
            let total = base[&gp].len();
            for n in 0..=(total / CHUNK as usize) {
                let cut = n * CHUNK as usize;
                if cut >= total {
                    continue;
                }
                if let Some(doc2) = cbor_edit(&doc, cut as u64, n) {
                    let mut s = base.clone();
                    s.insert(format!("meta/{k}"), doc2);
                    s.insert(format!("data/{k}"), base[&gp][..cut].to_vec());
                    out.push((format!("downgrade {k}: strip {rm:?}, cut to {n} chunks"), s));
                }
            }
            // served under another key
            for other in &meta_keys {
                if other == k {
                    continue;
                }
                let mut s = base.clone();
                s.insert(format!("meta/{other}"), doc.clone());
                s.insert(format!("data/{other}"), base[&gp].clone());
                out.push((format!("downgrade {k}: strip {rm:?}, served under {other}"), s));
            }
        }
    }
    // (6) transplant: another key's sealed document and ciphertext placed under the victim, the
    // victim's own payload removed (three sites; meaningful with a warm cache on the victim)
    let keys: Vec<&String> = w.versions.keys().collect();
    for a in &keys {
        for b in &keys {
            if a == b {
                continue;
            }
            let (Some(ga), Some(gb)) = (
                base.keys().find(|p| p.starts_with(&format!("gen/{a}/"))),
                base.keys().find(|p| p.starts_with(&format!("gen/{b}/"))),
            ) else { continue };
            let mut s = base.clone();
            s.insert(format!("meta/{b}"), base[&format!("meta/{a}")].clone());
            let gen_a = ga.rsplit_once('/').unwrap().1;
            s.insert(format!("gen/{b}/{gen_a}"), base[ga].clone());
            s.remove(gb);
            out.push((format!("transplant {a} onto {b}"), s));
        }
    }
    out
}

fn checks_on_backend(w: &World) -> Vec<String> {
    let mut problems = Vec::new();
    // no plaintext window of 8 bytes in any backend object
    for (p, b) in w.base.iter().chain(w.old_objects.iter()) {
        for vs in w.versions.values() {
            for v in vs {
                if v.bytes.len() >= 8 {
                    for win in v.bytes.windows(8) {
                        if b.windows(8).any(|x| x == win) {
                            problems.push(format!("backend object {p} contains plaintext"));
                        }
                    }
                }
            }
        }
    }
    // no base nonce shared by two different ciphertexts
    let mut seen: BTreeMap<Vec<u8>, (String, Vec<u8>)> = BTreeMap::new();
    for (p, doc) in &w.all_meta_docs {
        let v: cbor2::Value = match cbor2::from_slice(doc) {
            Ok(v) => v,
            Err(_) => continue,
        };
        if let cbor2::Value::Map(m) = v {
            let mut nonce = None;
            let mut tags = Vec::new();
            for (k, val) in m {
                if let cbor2::Value::Text(k) = k {
                    if k == "n" && let cbor2::Value::Bytes(b) = &val {
                        nonce = Some(b.clone());
                    }
                    if k == "t" {
                        let mut buf = Vec::new();
                        let _ = cbor2::to_writer(&val, &mut buf);
                        tags = buf;
                    }
                }
            }
            if let Some(n) = nonce {
                if let Some((other, t2)) = seen.get(&n)
                    && *t2 != tags
                {
                    problems.push(format!("base nonce shared by different ciphertexts: {p} and {other}"));
                }
                seen.insert(n, (p.clone(), tags));
            }
        }
    }
    problems
}

async fn run_slice(w: Arc<World>, list: Vec<(String, Snapshot)>) -> Tally {
    let mut t = Tally::default();
    for (what, snap) in list {
        // cold instance
        let inner = load(&snap).await;
        battery(&store_over(inner.clone(), false), &w, "cold", &what, false, &mut t).await;
        battery(&store_over(inner.clone(), false), &w, "cold, list first", &what, true, &mut t).await;
        battery(&store_over(inner.clone(), true), &w, "cold strict", &what, false, &mut t).await;
        // warm: the instance read everything before the manipulation
        let inner = load(&w.base).await;
        let st = store_over(inner.clone(), false);
        let mut warm = Tally::default();
        battery(&st, &w, "warming", "none", false, &mut warm).await;
        mutate_to(&inner, &snap).await;
        battery(&st, &w, "warm cache", &what, false, &mut t).await;
    }
    t
}

fn main() {
    let args: Vec<String> = std::env::args().collect();
    let rt = tokio::runtime::Builder::new_current_thread().enable_all().build().unwrap();
    let w = Arc::new(rt.block_on(build_world()));
    // the untampered store answers everything with the original
    let mut t0 = Tally::default();
    rt.block_on(async {
        let inner = load(&w.base).await;
        battery(&store_over(inner, false), &w, "cold", "none", false, &mut t0).await;
    });
    // (out-of-range requests on the small objects fail legitimately)
    assert!(t0.wrong.is_empty() && t0.ok_original >= 40, "the untampered store must answer with the originals: {:?}", t0.wrong);
    let all = tampers(&w);
    let n_tampers = all.len();
    let threads: usize = std::env::var("VERIF_THREADS").ok().and_then(|x| x.parse().ok()).unwrap_or(12);
    let mut slices: Vec<Vec<(String, Snapshot)>> = vec![Vec::new(); threads];
    let mut classes: BTreeMap<String, u64> = BTreeMap::new();
    for (i, x) in all.into_iter().enumerate() {
        *classes.entry(x.0.split(' ').next().unwrap().to_string()).or_default() += 1;
        slices[i % threads].push(x);
    }
    let handles: Vec<_> = slices
        .into_iter()
        .map(|s| {
            let w = w.clone();
            std::thread::spawn(move || {
                tokio::runtime::Builder::new_current_thread().enable_all().build().unwrap().block_on(run_slice(w, s))
            })
        })
        .collect();
    let mut total = Tally::default();
    for h in handles {
        let t = h.join().expect("worker panicked");
        total.reads += t.reads;
        total.ok_original += t.ok_original;
        total.failed += t.failed;
        total.wrong.extend(t.wrong);
        total.legacy_meta_reports += t.legacy_meta_reports;
        total.empty_forgery.extend(t.empty_forgery);
    }
    let backend_problems = checks_on_backend(&w);
    let n_wrong = total.wrong.len();
    let out = json!({
        "tampers": n_tampers, "classes": classes, "reads": total.reads, "answered_original": total.ok_original,
        "failed": total.failed, "n_wrong": n_wrong,
        "wrong": total.wrong.into_iter().filter(|x| !x.is_null()).take(60).collect::<Vec<_>>(),
        "backend_problems": backend_problems,
        "legacy_meta_reports": total.legacy_meta_reports,
        "n_empty_forgery": total.empty_forgery.len(),
        "empty_forgery": total.empty_forgery.iter().filter(|x| !x.is_null()).take(6).collect::<Vec<_>>(),
        "backend_objects": w.base.keys().collect::<Vec<_>>(),
    });
    println!("drive_encrypted: tampers={n_tampers} reads={} original={} failed={} wrong={n_wrong} backend_problems={}",
             out["reads"], out["answered_original"], out["failed"], out["backend_problems"].as_array().unwrap().len());
    std::fs::write(&args[1], out.to_string()).unwrap();
}
