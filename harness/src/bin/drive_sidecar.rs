//! C08 driver (direction T): MetaStore / EncryptedStore over a recording inner store.
//!
//! crash  : operation sequences (put / multipart / copy / rename / delete / collect_garbage) with a
//!          power loss after every k-th INNER mutation; after the reboot a fresh wrapper (cold
//!          cache) reads and lists every key, collects garbage, reads again, writes again.
//! gcconc : collect_garbage interleaved with one or two in-process writers, all release orders of
//!          the parked inner calls (and call positions), capped.
//! One NDJSON trace per run for validation against spec/SidecarTrace.tla.
//!
//! usage: drive_sidecar crash|gcconc <traces.ndjson> <stats.json>

use anda_object_store::{EncryptedStoreBuilder, MetaStoreBuilder};
use bytes::Bytes;
use futures::TryStreamExt;
use object_store::{memory::InMemory, path::Path, *};
use serde_json::{Value, json};
use std::{collections::BTreeMap, future::Future, io::Write, pin::Pin, sync::Arc};
use verif_harness::{
    sched::*,
    tracestore::{Event, Op, PROC, TraceHandle, TraceStore},
};

const KEYS: &[&str] = &["a", "b", "c"];

fn payload_of(v: u64) -> Vec<u8> {
    match v {
        1 => b"AAAAAAAAAA".to_vec(),
        2 => b"BBBBBBBBBBBBBBBBBBBBB".to_vec(),
        _ => vec![b'C'; 33],
    }
}
fn val_of(b: &[u8]) -> i64 {
    for v in 1..=3 {
        if payload_of(v) == b {
            return v as i64;
        }
    }
    -1
}

#[derive(Clone, Copy, PartialEq)]
enum Kind {
    Meta,
    Enc,
}
impl Kind {
    fn name(self) -> &'static str {
        match self {
            Kind::Meta => "MetaStore",
            Kind::Enc => "EncryptedStore",
        }
    }
}

struct Stores {
    logical: Arc<dyn ObjectStore>,
    gc: Arc<dyn Fn() -> Pin<Box<dyn Future<Output = Result<usize>>>>>,
}

fn build(kind: Kind, inner: Arc<dyn ObjectStore>) -> Stores {
    match kind {
        Kind::Meta => {
            let s = Arc::new(MetaStoreBuilder::new(inner, 1000).build());
            let s2 = s.clone();
            Stores {
                logical: s,
                gc: Arc::new(move || {
                    let s = s2.clone();
                    Box::pin(async move { s.collect_garbage().await })
                }),
            }
        }
        Kind::Enc => {
            let s = Arc::new(
                EncryptedStoreBuilder::with_secret(inner, 1000, [9u8; 32])
                    .with_chunk_size(7)
                    .build(),
            );
            let s2 = s.clone();
            Stores {
                logical: s,
                gc: Arc::new(move || {
                    let s = s2.clone();
                    Box::pin(async move { s.collect_garbage().await })
                }),
            }
        }
    }
}

/// Maps generation strings to ordinals in order of first appearance.
#[derive(Default)]
struct GenMap(BTreeMap<String, u64>);
impl GenMap {
    fn ord(&mut self, g: &str) -> u64 {
        let n = self.0.len() as u64 + 1;
        *self.0.entry(g.to_string()).or_insert(n)
    }
}

fn generation_in_meta(payload: &[u8]) -> Option<String> {
    // both wrappers serialize a CBOR map with the generation under the key "g"
    let v: cbor2::Value = cbor2::from_slice(payload).ok()?;
    if let cbor2::Value::Map(m) = v {
        for (k, val) in m {
            if let (cbor2::Value::Text(k), cbor2::Value::Text(g)) = (k, val)
                && k == "g"
            {
                return Some(g);
            }
        }
    }
    None
}

fn split_gen(rel: &str) -> Option<(String, String)> {
    let (k, g) = rel.rsplit_once('/')?;
    Some((k.to_string(), g.to_string()))
}

fn classify(e: &Event, gens: &mut GenMap) -> Option<Value> {
    if e.res == "poweroff" {
        return None;
    }
    let kind = match e.op {
        Op::Put => "put",
        Op::Delete => "delete",
        Op::Copy => "copy",
        Op::Get => "get",
        Op::List => "list",
        Op::Rename => "rename",
    };
    let ek = if e.res == "parked" { "pk" } else if e.op.is_mutation() { "be" } else { "rd" };
    let mut ev = json!({"e": ek, "p": e.proc_, "kind": kind, "res": e.res, "path": e.path});
    let o = ev.as_object_mut().unwrap();
    if let Some(rel) = e.path.strip_prefix("meta/") {
        o.insert("cls".into(), json!("meta"));
        o.insert("k".into(), json!(rel));
        if ek == "be" && kind == "put" {
            let g = e.payload.as_deref().and_then(generation_in_meta);
            o.insert("g".into(), json!(g.map(|g| gens.ord(&g)).unwrap_or(0)));
        }
    } else if let Some(rel) = e.path.strip_prefix("gen/") {
        o.insert("cls".into(), json!("gen"));
        let (k, g) = split_gen(rel)?;
        o.insert("k".into(), json!(k));
        if ek == "be" {
            o.insert("g".into(), json!(gens.ord(&g)));
        }
        if kind == "copy" {
            // source -> target
            if let Some(to) = e.path2.as_deref().and_then(|p| p.strip_prefix("gen/")).and_then(split_gen) {
                o.insert("sk".into(), json!(k));
                o.insert("sg".into(), json!(if ek == "be" { gens.ord(&g) } else { 0 }));
                o.insert("k".into(), json!(to.0));
                if ek == "be" {
                    o.insert("g".into(), json!(gens.ord(&to.1)));
                }
            }
        }
    } else if e.path.starts_with("data/") {
        o.insert("cls".into(), json!("legacy"));
    } else {
        o.insert("cls".into(), json!("other"));
    }
    Some(ev)
}

struct Tr {
    handle: TraceHandle,
    lines: Vec<String>,
    gens: GenMap,
    drained: usize,
}
impl Tr {
    fn new(handle: TraceHandle) -> Self {
        Tr { handle, lines: Vec::new(), gens: GenMap::default(), drained: 0 }
    }
    fn drain(&mut self) {
        let evs = self.handle.events();
        for e in &evs[self.drained.min(evs.len())..] {
            if let Some(v) = classify(e, &mut self.gens) {
                self.lines.push(v.to_string());
            }
        }
        self.drained = evs.len();
    }
    fn emit(&mut self, v: Value) {
        self.drain();
        self.lines.push(v.to_string());
    }
}

async fn exec(st: &Stores, op: &Value) -> Value {
    let name = op["op"].as_str().unwrap();
    let r: Result<u64> = match name {
        "put" => st
            .logical
            .put(&Path::from(op["k"].as_str().unwrap()), Bytes::from(payload_of(op["v"].as_u64().unwrap())).into())
            .await
            .map(|_| 0),
        "multipart" => {
            async {
                let mut up = st.logical.put_multipart(&Path::from(op["k"].as_str().unwrap())).await?;
                let data = payload_of(op["v"].as_u64().unwrap());
                let (a, b) = data.split_at(data.len() / 2);
                up.put_part(Bytes::from(a.to_vec()).into()).await?;
                up.put_part(Bytes::from(b.to_vec()).into()).await?;
                up.complete().await.map(|_| 0)
            }
            .await
        }
        "copy" => st.logical.copy(&Path::from(op["a"].as_str().unwrap()), &Path::from(op["b"].as_str().unwrap())).await.map(|_| 0),
        "rename" => st.logical.rename(&Path::from(op["a"].as_str().unwrap()), &Path::from(op["b"].as_str().unwrap())).await.map(|_| 0),
        "delete" => st.logical.delete(&Path::from(op["k"].as_str().unwrap())).await.map(|_| 0),
        "gc" => (st.gc)().await.map(|n| n as u64),
        other => panic!("op {other}"),
    };
    match r {
        Ok(n) => json!({"e": "ret", "op": name, "ok": true, "n": n}),
        Err(Error::NotFound { .. }) => json!({"e": "ret", "op": name, "ok": false, "err": "notfound"}),
        Err(e) => json!({"e": "ret", "op": name, "ok": false, "err": "error", "detail": e.to_string()}),
    }
}

/// Cold observation: a fresh wrapper over the same inner store reads and lists every key.
async fn observe(kind: Kind, inner: Arc<dyn ObjectStore>) -> Value {
    let st = build(kind, inner);
    let mut vals = serde_json::Map::new();
    for k in KEYS {
        let v = match st.logical.get(&Path::from(*k)).await {
            Ok(r) => match r.bytes().await {
                Ok(b) => val_of(&b),
                Err(_) => -1,
            },
            Err(Error::NotFound { .. }) => 0,
            Err(_) => -1,
        };
        vals.insert(k.to_string(), json!(v));
    }
    let mut listed = Vec::new();
    let mut list_ok = true;
    match st.logical.list(None).try_collect::<Vec<ObjectMeta>>().await {
        Ok(l) => {
            for m in l {
                listed.push(json!([m.location.to_string(), m.size]));
            }
        }
        Err(_) => list_ok = false,
    }
    listed.sort_by_key(|x| x[0].as_str().unwrap().to_string());
    json!({"e": "obs", "vals": Value::Object(vals), "listed": listed, "list_ok": list_ok})
}

fn workloads() -> Vec<Vec<Value>> {
    let put = |k: &str, v: u64| json!({"op": "put", "k": k, "v": v});
    let mp = |k: &str, v: u64| json!({"op": "multipart", "k": k, "v": v});
    let copy = |a: &str, b: &str| json!({"op": "copy", "a": a, "b": b});
    let ren = |a: &str, b: &str| json!({"op": "rename", "a": a, "b": b});
    let del = |k: &str| json!({"op": "delete", "k": k});
    let gc = || json!({"op": "gc"});
    vec![
        vec![put("a", 1), put("a", 2), copy("a", "b"), ren("b", "c"), del("a"), gc(), put("a", 3)],
        vec![put("a", 1), put("b", 2), copy("a", "b"), copy("b", "a"), gc(), del("b"), ren("a", "b"), gc()],
        vec![mp("a", 1), mp("a", 2), put("b", 1), ren("a", "b"), gc(), del("b"), del("b")],
        vec![put("a", 1), del("a"), put("a", 2), gc(), copy("a", "c"), put("c", 3), ren("c", "a"), gc()],
    ]
}

async fn run_crash(kind: Kind, w: &[Value], crash_at: Option<u64>) -> (Vec<String>, u64) {
    let (ts, handle) = TraceStore::wrap(Arc::new(InMemory::new()));
    let inner: Arc<dyn ObjectStore> = ts.clone();
    let mut tr = Tr::new(handle.clone());
    tr.emit(json!({"e": "init", "keys": KEYS, "nprocs": 4, "store": kind.name()}));
    if let Some(k) = crash_at {
        handle.crash_at_absolute(k);
    }
    let mut st = build(kind, inner.clone());
    let mut crashed = false;
    for op in w {
        let mut call = op.clone();
        call["e"] = json!("call");
        call["p"] = json!(0);
        if op["op"] == "gc" {
            std::thread::sleep(std::time::Duration::from_millis(2));
        }
        tr.emit(call);
        let mut ret = exec(&st, op).await;
        if handle.is_powered_off() {
            crashed = true;
            tr.drain();
            break;
        }
        ret["p"] = json!(0);
        tr.emit(ret);
        tr.emit(observe(kind, inner.clone()).await);
    }
    let m = handle.mutation_count();
    if crash_at.is_some() && !crashed {
        handle.power_off_now();
        crashed = true;
    }
    if crashed {
        tr.emit(json!({"e": "crash"}));
        handle.reboot();
        st = build(kind, inner.clone());
        tr.emit(observe(kind, inner.clone()).await);
        // collecting garbage after any crash changes nothing readable
        std::thread::sleep(std::time::Duration::from_millis(2));
        for op in [json!({"op": "gc"}), json!({"op": "put", "k": "c", "v": 1}), json!({"op": "gc"})] {
            let mut call = op.clone();
            call["e"] = json!("call");
            call["p"] = json!(0);
            tr.emit(call);
            let mut ret = exec(&st, &op).await;
            ret["p"] = json!(0);
            tr.emit(ret);
            tr.emit(observe(kind, inner.clone()).await);
            std::thread::sleep(std::time::Duration::from_millis(2));
        }
    }
    tr.drain();
    (tr.lines, m)
}

fn gc_scenarios() -> Vec<(Vec<Value>, Vec<Value>)> {
    let put = |k: &str, v: u64| json!({"op": "put", "k": k, "v": v});
    let copy = |a: &str, b: &str| json!({"op": "copy", "a": a, "b": b});
    let ren = |a: &str, b: &str| json!({"op": "rename", "a": a, "b": b});
    let del = |k: &str| json!({"op": "delete", "k": k});
    let mp = |k: &str, v: u64| json!({"op": "multipart", "k": k, "v": v});
    let gc = || json!({"op": "gc"});
    let base = vec![put("a", 1), put("b", 2), put("a", 2)];
    vec![
        (base.clone(), vec![put("a", 3), gc()]),
        (base.clone(), vec![copy("a", "b"), gc()]),
        (base.clone(), vec![copy("a", "c"), gc()]),
        (base.clone(), vec![ren("a", "c"), gc()]),
        (base.clone(), vec![del("a"), gc()]),
        (base.clone(), vec![mp("b", 3), gc()]),
        (base.clone(), vec![put("a", 3), copy("b", "c"), gc()]),
        (base.clone(), vec![copy("a", "c"), put("c", 1), gc()]),
        (vec![put("a", 1)], vec![ren("a", "b"), put("a", 2), gc()]),
    ]
}

async fn run_gc_schedule(kind: Kind, prefix: &[Value], procs: &[Value], choices: &[usize]) -> (Vec<String>, Vec<usize>, Vec<usize>) {
    let (ts, handle) = TraceStore::wrap(Arc::new(InMemory::new()));
    let inner: Arc<dyn ObjectStore> = ts.clone();
    let mut tr = Tr::new(handle.clone());
    tr.emit(json!({"e": "init", "keys": KEYS, "nprocs": 4, "store": kind.name()}));
    let st = Arc::new(build(kind, inner.clone()));
    for op in prefix {
        let mut call = op.clone();
        call["e"] = json!("call");
        call["p"] = json!(0);
        tr.emit(call);
        let mut ret = exec(&st, op).await;
        ret["p"] = json!(0);
        tr.emit(ret);
    }
    handle.record_reads(true);
    handle.sched_enable(true);
    let mut pending: std::collections::VecDeque<(u32, Value)> =
        procs.iter().enumerate().map(|(i, op)| ((i + 1) as u32, op.clone())).collect();
    let mut tasks: Vec<Task<Value>> = Vec::new();
    let (mut counts, mut taken) = (Vec::new(), Vec::new());
    let mut step = 0;
    loop {
        if pending.is_empty() && tasks.iter().all(|t| t.done()) {
            break;
        }
        let parked: Vec<_> = {
            let mut seen = std::collections::BTreeSet::new();
            handle.parked().into_iter().filter(|p| seen.insert(p.proc_)).collect()
        };
        let n = parked.len() + usize::from(!pending.is_empty());
        if n == 0 {
            tr.emit(json!({"e": "deadlock"}));
            break;
        }
        let c = if step < choices.len() { choices[step].min(n - 1) } else { 0 };
        counts.push(n);
        taken.push(c);
        step += 1;
        if c < parked.len() {
            handle.release(parked[c].ticket);
        } else {
            let (pid, op) = pending.pop_front().unwrap();
            if op["op"] == "gc" {
                // generations minted so far must be older than the collector's floor
                std::thread::sleep(std::time::Duration::from_millis(2));
            }
            let mut call = op.clone();
            call["e"] = json!("call");
            call["p"] = json!(pid);
            tr.emit(call);
            let st2 = st.clone();
            let fut = PROC.scope(pid, tokio::task::unconstrained(async move { exec(&st2, &op).await }));
            tasks.push(Task::new(pid, Box::pin(fut)));
        }
        let mut done: Vec<(u32, Value)> = Vec::new();
        settle(&mut tasks, |pid, r: &Value| done.push((pid, r.clone())));
        for (pid, mut r) in done {
            r["p"] = json!(pid);
            tr.emit(r);
        }
        tr.drain();
        if step > 300 {
            tr.emit(json!({"e": "livelock"}));
            break;
        }
    }
    handle.sched_enable(false);
    handle.record_reads(false);
    drop(tasks);
    tr.emit(observe(kind, inner.clone()).await);
    // one more collection on a quiescent store changes nothing readable
    std::thread::sleep(std::time::Duration::from_millis(2));
    tr.emit(json!({"e": "call", "op": "gc", "p": 0}));
    let mut ret = exec(&st, &json!({"op": "gc"})).await;
    ret["p"] = json!(0);
    tr.emit(ret);
    tr.emit(observe(kind, inner.clone()).await);
    (tr.lines, counts, taken)
}

#[tokio::main(flavor = "current_thread")]
async fn main() {
    let args: Vec<String> = std::env::args().collect();
    let mut out = std::io::BufWriter::new(std::fs::File::create(&args[2]).unwrap());
    let mut n_traces = 0u64;
    let mut n_events = 0u64;
    let mut points = 0u64;
    let mut emit = |lines: Vec<String>, tag: Value, out: &mut std::io::BufWriter<std::fs::File>| {
        writeln!(out, "{}", json!({"e": "reset", "tag": tag})).unwrap();
        for l in &lines {
            writeln!(out, "{l}").unwrap();
        }
        n_traces += 1;
        n_events += lines.len() as u64 + 1;
    };
    match args[1].as_str() {
        "crash" => {
            for kind in [Kind::Meta, Kind::Enc] {
                for (wi, w) in workloads().iter().enumerate() {
                    let (lines, m) = run_crash(kind, w, None).await;
                    emit(lines, json!({"store": kind.name(), "w": wi, "mode": "clean"}), &mut out);
                    for k in 0..=m {
                        let (lines, _) = run_crash(kind, w, Some(k)).await;
                        emit(lines, json!({"store": kind.name(), "w": wi, "mode": "crash", "k": k}), &mut out);
                        points += 1;
                    }
                }
            }
        }
        "gcconc" => {
            let cap: u64 = std::env::var("VERIF_CONC_CAP").ok().and_then(|x| x.parse().ok()).unwrap_or(150);
            for kind in [Kind::Meta, Kind::Enc] {
                for (si, (prefix, procs)) in gc_scenarios().iter().enumerate() {
                    let mut pre: Vec<usize> = Vec::new();
                    let mut n = 0;
                    loop {
                        let (lines, counts, taken) = run_gc_schedule(kind, prefix, procs, &pre).await;
                        emit(lines, json!({"store": kind.name(), "s": si, "schedule": taken}), &mut out);
                        points += 1;
                        n += 1;
                        match next_schedule(&taken, &counts) {
                            Some(nx) if n < cap => pre = nx,
                            _ => break,
                        }
                    }
                }
            }
        }
        other => panic!("mode {other}"),
    }
    out.flush().unwrap();
    std::fs::write(&args[3], json!({"traces": n_traces, "events": n_events, "points": points}).to_string()).unwrap();
    println!("drive_sidecar {}: traces={n_traces} events={n_events} points={points}", args[1]);
}
