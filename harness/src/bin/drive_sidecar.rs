//! C08 driver (direction T): MetaStore / EncryptedStore over a recording inner store.
//!
//! crash  : operation sequences (put / multipart / copy / rename / delete / collect_garbage) with a
//!          power loss after every k-th INNER mutation; after the reboot a fresh wrapper (cold
//!          cache) reads and lists every key, collects garbage, reads again, writes again.
//! gcconc : collect_garbage interleaved with one or two in-process writers, all release orders of
//!          the parked inner calls (and call positions), capped.
//! One NDJSON trace per run for validation against spec/SidecarTrace.tla.
//!
//! usage: drive_sidecar crash|gcconc <traces.ndjson> <stats.json>

use anda_object_store::{EncryptedStoreBuilder, MetaStoreBuilder};
use bytes::Bytes;
use futures::TryStreamExt;
use object_store::{memory::InMemory, path::Path, *};
use serde_json::{Value, json};
use std::{collections::BTreeMap, future::Future, io::Write, pin::Pin, sync::Arc};
use verif_harness::{
    sched::*,
    tracestore::{Event, Op, PROC, TraceHandle, TraceStore},
};

const KEYS: &[&str] = &["a", "b", "c"];
/// the "generation" of a legacy payload data/<key> (Leg of Sidecar.tla)
const LEG: u64 = 1_000_000;

/// Serialization shape of the pre-0.10 MetaStore sidecar document (no generation).
#[derive(serde::Serialize)]
struct LegacyMeta {
    #[serde(rename = "s")]
    size: u64,
    #[serde(rename = "e")]
    e_tag: Option<String>,
    #[serde(rename = "o")]
    original_tag: Option<String>,
    #[serde(rename = "v")]
    original_version: Option<String>,
}

/// Serialization shape of the pre-auth EncryptedStore sidecar document: no authentication fields,
/// no chunk-AAD version, no generation.
#[derive(serde::Serialize)]
struct LegacyEncMeta {
    #[serde(rename = "s")]
    size: u64,
    #[serde(rename = "e")]
    e_tag: Option<String>,
    #[serde(rename = "o")]
    original_tag: Option<String>,
    #[serde(rename = "v")]
    original_version: Option<String>,
    #[serde(rename = "n")]
    aes_nonce: serde_bytes::ByteArray<12>,
    #[serde(rename = "t")]
    aes_tags: Vec<serde_bytes::ByteArray<16>>,
    #[serde(rename = "c")]
    chunk_size: Option<u64>,
}

fn sha3_b64(data: &[u8]) -> String {
    use base64::{Engine, prelude::BASE64_URL_SAFE};
    use sha3::Digest;
    let mut h = sha3::Sha3_256::new();
    h.update(data);
    let d: [u8; 32] = h.finalize().into();
    BASE64_URL_SAFE.encode(d)
}

/// Writes a legacy (pre-0.10) object straight into the backend, as the old versions of the two
/// wrappers did: the payload at data/<key>, and (unless `orphan`) a commit point without a generation.
async fn plant(kind: Kind, raw: &InMemory, key: &str, v: u64, orphan: bool) {
    let plain = payload_of(v);
    let (stored, meta_doc): (Vec<u8>, Vec<u8>) = match kind {
        Kind::Meta => (plain.clone(), Vec::new()),
        Kind::Enc => {
            use aes_gcm::{AeadInOut, Aes256Gcm, Key, KeyInit, Nonce};
            let cipher = Aes256Gcm::new(&Key::<Aes256Gcm>::from([9u8; 32]));
            let base = [7u8; 12];
            let chunk = 7usize;
            let mut ct = plain.clone();
            let mut tags = Vec::new();
            for (idx, c) in ct.chunks_mut(chunk).enumerate() {
                let mut nonce = base;
                let mut ctr = [0u8; 8];
                ctr.copy_from_slice(&nonce[4..12]);
                let n = u64::from_le_bytes(ctr).wrapping_add(idx as u64);
                nonce[4..12].copy_from_slice(&n.to_le_bytes());
                let tag = cipher.encrypt_inout_detached(&Nonce::from(nonce), &[], c.into()).unwrap();
                let tag: [u8; 16] = tag.into();
                tags.push(serde_bytes::ByteArray::from(tag));
            }
            let doc = LegacyEncMeta {
                size: plain.len() as u64,
                e_tag: Some(sha3_b64(&ct)),
                original_tag: None,
                original_version: None,
                aes_nonce: base.into(),
                aes_tags: tags,
                chunk_size: Some(chunk as u64),
            };
            let mut buf = Vec::new();
            cbor2::to_writer(&doc, &mut buf).unwrap();
            (ct, buf)
        }
    };
    let put = raw.put(&Path::from(format!("data/{key}")), Bytes::from(stored).into()).await.unwrap();
    if orphan {
        return;
    }
    let doc = match kind {
        Kind::Meta => {
            let m = LegacyMeta {
                size: plain.len() as u64,
                e_tag: Some(sha3_b64(&plain)),
                original_tag: put.e_tag,
                original_version: put.version,
            };
            let mut buf = Vec::new();
            cbor2::to_writer(&m, &mut buf).unwrap();
            buf
        }
        Kind::Enc => meta_doc,
    };
    raw.put(&Path::from(format!("meta/{key}")), Bytes::from(doc).into()).await.unwrap();
}

/// Builds the recorded inner store, planting the legacy objects of the scenario first (unrecorded,
/// uncounted: they predate the process) and announcing them to the specification.
async fn new_inner(kind: Kind, plants: &[Value]) -> (Arc<TraceStore>, TraceHandle, Vec<Value>) {
    let raw = InMemory::new();
    let mut evs = Vec::new();
    for p in plants {
        let (k, v, orphan) = (p["k"].as_str().unwrap(), p["v"].as_u64().unwrap(), p["orphan"].as_bool().unwrap());
        plant(kind, &raw, k, v, orphan).await;
        evs.push(json!({"e": "plant", "k": k, "v": v, "orphan": orphan}));
    }
    let (ts, handle) = TraceStore::wrap(Arc::new(raw));
    (ts, handle, evs)
}

fn payload_of(v: u64) -> Vec<u8> {
    match v {
        1 => b"AAAAAAAAAA".to_vec(),
        2 => b"BBBBBBBBBBBBBBBBBBBBB".to_vec(),
        _ => vec![b'C'; 33],
    }
}
fn val_of(b: &[u8]) -> i64 {
    for v in 1..=3 {
        if payload_of(v) == b {
            return v as i64;
        }
    }
    -1
}

#[derive(Clone, Copy, PartialEq)]
enum Kind {
    Meta,
    Enc,
}
impl Kind {
    fn name(self) -> &'static str {
        match self {
            Kind::Meta => "MetaStore",
            Kind::Enc => "EncryptedStore",
        }
    }
}

struct Stores {
    logical: Arc<dyn ObjectStore>,
    gc: Arc<dyn Fn() -> Pin<Box<dyn Future<Output = Result<usize>>>>>,
}

fn build(kind: Kind, inner: Arc<dyn ObjectStore>) -> Stores {
    match kind {
        Kind::Meta => {
            let s = Arc::new(MetaStoreBuilder::new(inner, 1000).build());
            let s2 = s.clone();
            Stores {
                logical: s,
                gc: Arc::new(move || {
                    let s = s2.clone();
                    Box::pin(async move { s.collect_garbage().await })
                }),
            }
        }
        Kind::Enc => {
            let s = Arc::new(
                EncryptedStoreBuilder::with_secret(inner, 1000, [9u8; 32])
                    .with_chunk_size(7)
                    .build(),
            );
            let s2 = s.clone();
            Stores {
                logical: s,
                gc: Arc::new(move || {
                    let s = s2.clone();
                    Box::pin(async move { s.collect_garbage().await })
                }),
            }
        }
    }
}

/// Maps generation strings to ordinals in order of first appearance.
#[derive(Default)]
struct GenMap(BTreeMap<String, u64>);
impl GenMap {
    fn ord(&mut self, g: &str) -> u64 {
        let n = self.0.len() as u64 + 1;
        *self.0.entry(g.to_string()).or_insert(n)
    }
}

fn generation_in_meta(payload: &[u8]) -> Option<String> {
    // both wrappers serialize a CBOR map with the generation under the key "g"
    let v: cbor2::Value = cbor2::from_slice(payload).ok()?;
    if let cbor2::Value::Map(m) = v {
        for (k, val) in m {
            if let (cbor2::Value::Text(k), cbor2::Value::Text(g)) = (k, val)
                && k == "g"
            {
                return Some(g);
            }
        }
    }
    None
}

fn split_gen(rel: &str) -> Option<(String, String)> {
    let (k, g) = rel.rsplit_once('/')?;
    Some((k.to_string(), g.to_string()))
}

fn classify(e: &Event, gens: &mut GenMap) -> Option<Value> {
    if e.res == "poweroff" {
        return None;
    }
    let kind = match e.op {
        Op::Put => "put",
        Op::Delete => "delete",
        Op::Copy => "copy",
        Op::Get => "get",
        Op::List => "list",
        Op::Rename => "rename",
    };
    let ek = if e.res == "parked" { "pk" } else if e.op.is_mutation() { "be" } else { "rd" };
    let mut ev = json!({"e": ek, "p": e.proc_, "kind": kind, "res": e.res, "path": e.path});
    let o = ev.as_object_mut().unwrap();
    if let Some(rel) = e.path.strip_prefix("meta/") {
        o.insert("cls".into(), json!("meta"));
        o.insert("k".into(), json!(rel));
        if ek == "be" && kind == "put" {
            let g = e.payload.as_deref().and_then(generation_in_meta);
            o.insert("g".into(), json!(g.map(|g| gens.ord(&g)).unwrap_or(0)));
        }
    } else if let Some(rel) = e.path.strip_prefix("gen/") {
        o.insert("cls".into(), json!("gen"));
        let (k, g) = split_gen(rel)?;
        o.insert("k".into(), json!(k));
        if ek == "be" {
            o.insert("g".into(), json!(gens.ord(&g)));
        }
        if kind == "copy" {
            // source -> target
            if let Some(to) = e.path2.as_deref().and_then(|p| p.strip_prefix("gen/")).and_then(split_gen) {
                o.insert("sk".into(), json!(k));
                o.insert("sg".into(), json!(if ek == "be" { gens.ord(&g) } else { 0 }));
                o.insert("k".into(), json!(to.0));
                if ek == "be" {
                    o.insert("g".into(), json!(gens.ord(&to.1)));
                }
            }
        }
    } else if let Some(rel) = e.path.strip_prefix("data/") {
        // a legacy payload: generation LEG of its key; only ever deleted or copied FROM
        o.insert("cls".into(), json!(if kind == "put" { "legacy" } else { "gen" }));
        o.insert("k".into(), json!(rel));
        if ek == "be" {
            o.insert("g".into(), json!(LEG));
        }
        if kind == "copy" {
            if let Some(to) = e.path2.as_deref().and_then(|p| p.strip_prefix("gen/")).and_then(split_gen) {
                o.insert("sk".into(), json!(rel));
                o.insert("sg".into(), json!(LEG));
                o.insert("k".into(), json!(to.0));
                if ek == "be" {
                    o.insert("g".into(), json!(gens.ord(&to.1)));
                }
            } else {
                o.insert("cls".into(), json!("legacy"));
            }
        }
    } else {
        o.insert("cls".into(), json!("other"));
    }
    Some(ev)
}

struct Tr {
    handle: TraceHandle,
    lines: Vec<String>,
    gens: GenMap,
    drained: usize,
}
impl Tr {
    fn new(handle: TraceHandle) -> Self {
        Tr { handle, lines: Vec::new(), gens: GenMap::default(), drained: 0 }
    }
    fn drain(&mut self) {
        let evs = self.handle.events();
        for e in &evs[self.drained.min(evs.len())..] {
            if let Some(v) = classify(e, &mut self.gens) {
                self.lines.push(v.to_string());
            }
        }
        self.drained = evs.len();
    }
    fn emit(&mut self, v: Value) {
        self.drain();
        self.lines.push(v.to_string());
    }
}

async fn exec(st: &Stores, op: &Value) -> Value {
    let name = op["op"].as_str().unwrap();
    let r: Result<u64> = match name {
        "put" => st
            .logical
            .put(&Path::from(op["k"].as_str().unwrap()), Bytes::from(payload_of(op["v"].as_u64().unwrap())).into())
            .await
            .map(|_| 0),
        "multipart" => {
            async {
                let mut up = st.logical.put_multipart(&Path::from(op["k"].as_str().unwrap())).await?;
                let data = payload_of(op["v"].as_u64().unwrap());
                let (a, b) = data.split_at(data.len() / 2);
                up.put_part(Bytes::from(a.to_vec()).into()).await?;
                up.put_part(Bytes::from(b.to_vec()).into()).await?;
                up.complete().await.map(|_| 0)
            }
            .await
        }
        "copy" => st.logical.copy(&Path::from(op["a"].as_str().unwrap()), &Path::from(op["b"].as_str().unwrap())).await.map(|_| 0),
        "rename" => st.logical.rename(&Path::from(op["a"].as_str().unwrap()), &Path::from(op["b"].as_str().unwrap())).await.map(|_| 0),
        "delete" => st.logical.delete(&Path::from(op["k"].as_str().unwrap())).await.map(|_| 0),
        "gc" => (st.gc)().await.map(|n| n as u64),
        other => panic!("op {other}"),
    };
    match r {
        Ok(n) => json!({"e": "ret", "op": name, "ok": true, "n": n}),
        Err(Error::NotFound { .. }) => json!({"e": "ret", "op": name, "ok": false, "err": "notfound"}),
        Err(e) => json!({"e": "ret", "op": name, "ok": false, "err": "error", "detail": e.to_string()}),
    }
}

/// Cold observation: a fresh wrapper over the same inner store reads and lists every key.
async fn observe(kind: Kind, inner: Arc<dyn ObjectStore>) -> Value {
    let st = build(kind, inner);
    let mut vals = serde_json::Map::new();
    for k in KEYS {
        let v = match st.logical.get(&Path::from(*k)).await {
            Ok(r) => match r.bytes().await {
                Ok(b) => val_of(&b),
                Err(_) => -1,
            },
            Err(Error::NotFound { .. }) => 0,
            Err(_) => -1,
        };
        vals.insert(k.to_string(), json!(v));
    }
    let mut listed = Vec::new();
    let mut list_ok = true;
    match st.logical.list(None).try_collect::<Vec<ObjectMeta>>().await {
        Ok(l) => {
            for m in l {
                listed.push(json!([m.location.to_string(), m.size]));
            }
        }
        Err(_) => list_ok = false,
    }
    listed.sort_by_key(|x| x[0].as_str().unwrap().to_string());
    json!({"e": "obs", "vals": Value::Object(vals), "listed": listed, "list_ok": list_ok})
}

fn pl(k: &str, v: u64, orphan: bool) -> Value {
    json!({"k": k, "v": v, "orphan": orphan})
}

fn workloads() -> Vec<(Vec<Value>, Vec<Value>)> {
    let mut out: Vec<(Vec<Value>, Vec<Value>)> = plain_workloads().into_iter().map(|w| (Vec::new(), w)).collect();
    let put = |k: &str, v: u64| json!({"op": "put", "k": k, "v": v});
    let mp = |k: &str, v: u64| json!({"op": "multipart", "k": k, "v": v});
    let copy = |a: &str, b: &str| json!({"op": "copy", "a": a, "b": b});
    let ren = |a: &str, b: &str| json!({"op": "rename", "a": a, "b": b});
    let del = |k: &str| json!({"op": "delete", "k": k});
    let gc = || json!({"op": "gc"});
    // stores inherited from the pre-0.10 layout: migration by overwrite, copy / rename FROM and ONTO
    // legacy keys, deletion, orphaned legacy payloads, collections in between
    out.push((vec![pl("a", 1, false), pl("b", 2, true)], vec![put("a", 2), gc(), put("b", 1), gc(), del("a")]));
    out.push((vec![pl("a", 1, false), pl("b", 2, false)], vec![copy("a", "c"), ren("b", "a"), gc(), del("c"), gc()]));
    out.push((vec![pl("a", 1, false)], vec![del("a"), gc(), put("a", 3), gc()]));
    out.push((vec![pl("a", 1, false), pl("c", 3, true)], vec![mp("a", 2), ren("a", "b"), gc(), put("c", 1)]));
    out.push((vec![pl("a", 1, false), pl("b", 2, false)], vec![gc(), copy("a", "b"), gc(), del("a"), ren("b", "c"), gc()]));
    out
}

fn plain_workloads() -> Vec<Vec<Value>> {
    let put = |k: &str, v: u64| json!({"op": "put", "k": k, "v": v});
    let mp = |k: &str, v: u64| json!({"op": "multipart", "k": k, "v": v});
    let copy = |a: &str, b: &str| json!({"op": "copy", "a": a, "b": b});
    let ren = |a: &str, b: &str| json!({"op": "rename", "a": a, "b": b});
    let del = |k: &str| json!({"op": "delete", "k": k});
    let gc = || json!({"op": "gc"});
    vec![
        vec![put("a", 1), put("a", 2), copy("a", "b"), ren("b", "c"), del("a"), gc(), put("a", 3)],
        vec![put("a", 1), put("b", 2), copy("a", "b"), copy("b", "a"), gc(), del("b"), ren("a", "b"), gc()],
        vec![mp("a", 1), mp("a", 2), put("b", 1), ren("a", "b"), gc(), del("b"), del("b")],
        vec![put("a", 1), del("a"), put("a", 2), gc(), copy("a", "c"), put("c", 3), ren("c", "a"), gc()],
    ]
}

async fn run_crash(kind: Kind, plants: &[Value], w: &[Value], crash_at: Option<u64>) -> (Vec<String>, u64) {
    let (ts, handle, planted) = new_inner(kind, plants).await;
    let inner: Arc<dyn ObjectStore> = ts.clone();
    let mut tr = Tr::new(handle.clone());
    tr.emit(json!({"e": "init", "keys": KEYS, "nprocs": 4, "store": kind.name()}));
    for p in planted {
        tr.emit(p);
    }
    if !plants.is_empty() {
        tr.emit(observe(kind, inner.clone()).await);
    }
    if let Some(k) = crash_at {
        handle.crash_at_absolute(k);
    }
    let mut st = build(kind, inner.clone());
    let mut crashed = false;
    for op in w {
        let mut call = op.clone();
        call["e"] = json!("call");
        call["p"] = json!(0);
        if op["op"] == "gc" {
            std::thread::sleep(std::time::Duration::from_millis(2));
        }
        tr.emit(call);
        let mut ret = exec(&st, op).await;
        if handle.is_powered_off() {
            crashed = true;
            tr.drain();
            break;
        }
        ret["p"] = json!(0);
        tr.emit(ret);
        tr.emit(observe(kind, inner.clone()).await);
    }
    let m = handle.mutation_count();
    if crash_at.is_some() && !crashed {
        handle.power_off_now();
        crashed = true;
    }
    if crashed {
        tr.emit(json!({"e": "crash"}));
        handle.reboot();
        st = build(kind, inner.clone());
        tr.emit(observe(kind, inner.clone()).await);
        // collecting garbage after any crash changes nothing readable
        std::thread::sleep(std::time::Duration::from_millis(2));
        for op in [json!({"op": "gc"}), json!({"op": "put", "k": "c", "v": 1}), json!({"op": "gc"})] {
            let mut call = op.clone();
            call["e"] = json!("call");
            call["p"] = json!(0);
            tr.emit(call);
            let mut ret = exec(&st, &op).await;
            ret["p"] = json!(0);
            tr.emit(ret);
            tr.emit(observe(kind, inner.clone()).await);
            std::thread::sleep(std::time::Duration::from_millis(2));
        }
    }
    tr.drain();
    (tr.lines, m)
}

fn gc_scenarios() -> Vec<(Vec<Value>, Vec<Value>, Vec<Value>)> {
    let put = |k: &str, v: u64| json!({"op": "put", "k": k, "v": v});
    let copy = |a: &str, b: &str| json!({"op": "copy", "a": a, "b": b});
    let ren = |a: &str, b: &str| json!({"op": "rename", "a": a, "b": b});
    let del = |k: &str| json!({"op": "delete", "k": k});
    let gc = || json!({"op": "gc"});
    let mut out: Vec<(Vec<Value>, Vec<Value>, Vec<Value>)> =
        plain_gc_scenarios().into_iter().map(|(a, b)| (Vec::new(), a, b)).collect();
    // the collector racing the migration of legacy keys
    let leg = vec![pl("a", 1, false), pl("b", 2, true)];
    out.push((leg.clone(), vec![], vec![put("a", 2), gc()]));
    out.push((leg.clone(), vec![], vec![copy("a", "b"), gc()]));
    out.push((leg.clone(), vec![], vec![ren("a", "c"), gc()]));
    out.push((leg.clone(), vec![], vec![del("a"), gc()]));
    out.push((leg.clone(), vec![], vec![put("b", 1), gc()]));
    out.push((leg, vec![put("c", 3)], vec![copy("a", "c"), put("a", 3), gc()]));
    out
}

fn plain_gc_scenarios() -> Vec<(Vec<Value>, Vec<Value>)> {
    let put = |k: &str, v: u64| json!({"op": "put", "k": k, "v": v});
    let copy = |a: &str, b: &str| json!({"op": "copy", "a": a, "b": b});
    let ren = |a: &str, b: &str| json!({"op": "rename", "a": a, "b": b});
    let del = |k: &str| json!({"op": "delete", "k": k});
    let mp = |k: &str, v: u64| json!({"op": "multipart", "k": k, "v": v});
    let gc = || json!({"op": "gc"});
    let base = vec![put("a", 1), put("b", 2), put("a", 2)];
    vec![
        (base.clone(), vec![put("a", 3), gc()]),
        (base.clone(), vec![copy("a", "b"), gc()]),
        (base.clone(), vec![copy("a", "c"), gc()]),
        (base.clone(), vec![ren("a", "c"), gc()]),
        (base.clone(), vec![del("a"), gc()]),
        (base.clone(), vec![mp("b", 3), gc()]),
        (base.clone(), vec![put("a", 3), copy("b", "c"), gc()]),
        (base.clone(), vec![copy("a", "c"), put("c", 1), gc()]),
        (vec![put("a", 1)], vec![ren("a", "b"), put("a", 2), gc()]),
    ]
}

async fn run_gc_schedule(
    kind: Kind,
    plants: &[Value],
    prefix: &[Value],
    procs: &[Value],
    choices: &[usize],
) -> (Vec<String>, Vec<usize>, Vec<usize>) {
    let (ts, handle, planted) = new_inner(kind, plants).await;
    let inner: Arc<dyn ObjectStore> = ts.clone();
    let mut tr = Tr::new(handle.clone());
    tr.emit(json!({"e": "init", "keys": KEYS, "nprocs": 4, "store": kind.name()}));
    for p in planted {
        tr.emit(p);
    }
    let st = Arc::new(build(kind, inner.clone()));
    for op in prefix {
        let mut call = op.clone();
        call["e"] = json!("call");
        call["p"] = json!(0);
        tr.emit(call);
        let mut ret = exec(&st, op).await;
        ret["p"] = json!(0);
        tr.emit(ret);
    }
    handle.record_reads(true);
    handle.sched_enable(true);
    let mut pending: std::collections::VecDeque<(u32, Value)> =
        procs.iter().enumerate().map(|(i, op)| ((i + 1) as u32, op.clone())).collect();
    let mut tasks: Vec<Task<Value>> = Vec::new();
    let (mut counts, mut taken) = (Vec::new(), Vec::new());
    let mut step = 0;
    loop {
        if pending.is_empty() && tasks.iter().all(|t| t.done()) {
            break;
        }
        let parked: Vec<_> = {
            let mut seen = std::collections::BTreeSet::new();
            handle.parked().into_iter().filter(|p| seen.insert(p.proc_)).collect()
        };
        let n = parked.len() + usize::from(!pending.is_empty());
        if n == 0 {
            tr.emit(json!({"e": "deadlock"}));
            break;
        }
        let c = if step < choices.len() { choices[step].min(n - 1) } else { 0 };
        counts.push(n);
        taken.push(c);
        step += 1;
        if c < parked.len() {
            handle.release(parked[c].ticket);
        } else {
            let (pid, op) = pending.pop_front().unwrap();
            if op["op"] == "gc" {
                // generations minted so far must be older than the collector's floor
                std::thread::sleep(std::time::Duration::from_millis(2));
            }
            let mut call = op.clone();
            call["e"] = json!("call");
            call["p"] = json!(pid);
            tr.emit(call);
            let st2 = st.clone();
            let fut = PROC.scope(pid, tokio::task::unconstrained(async move { exec(&st2, &op).await }));
            tasks.push(Task::new(pid, Box::pin(fut)));
        }
        let mut done: Vec<(u32, Value)> = Vec::new();
        settle(&mut tasks, |pid, r: &Value| done.push((pid, r.clone())));
        for (pid, mut r) in done {
            r["p"] = json!(pid);
            tr.emit(r);
        }
        tr.drain();
        if step > 300 {
            tr.emit(json!({"e": "livelock"}));
            break;
        }
    }
    handle.sched_enable(false);
    handle.record_reads(false);
    drop(tasks);
    tr.emit(observe(kind, inner.clone()).await);
    // one more collection on a quiescent store changes nothing readable
    std::thread::sleep(std::time::Duration::from_millis(2));
    tr.emit(json!({"e": "call", "op": "gc", "p": 0}));
    let mut ret = exec(&st, &json!({"op": "gc"})).await;
    ret["p"] = json!(0);
    tr.emit(ret);
    tr.emit(observe(kind, inner.clone()).await);
    (tr.lines, counts, taken)
}

#[tokio::main(flavor = "current_thread")]
async fn main() {
    let args: Vec<String> = std::env::args().collect();
    let mut out = std::io::BufWriter::new(std::fs::File::create(&args[2]).unwrap());
    let mut n_traces = 0u64;
    let mut n_events = 0u64;
    let mut points = 0u64;
    let mut emit = |lines: Vec<String>, tag: Value, out: &mut std::io::BufWriter<std::fs::File>| {
        writeln!(out, "{}", json!({"e": "reset", "tag": tag})).unwrap();
        for l in &lines {
            writeln!(out, "{l}").unwrap();
        }
        n_traces += 1;
        n_events += lines.len() as u64 + 1;
    };
    match args[1].as_str() {
        "crash" => {
            for kind in [Kind::Meta, Kind::Enc] {
                for (wi, (plants, w)) in workloads().iter().enumerate() {
                    let (lines, m) = run_crash(kind, plants, w, None).await;
                    emit(lines, json!({"store": kind.name(), "w": wi, "mode": "clean"}), &mut out);
                    for k in 0..=m {
                        let (lines, _) = run_crash(kind, plants, w, Some(k)).await;
                        emit(lines, json!({"store": kind.name(), "w": wi, "mode": "crash", "k": k}), &mut out);
                        points += 1;
                    }
                }
            }
        }
        "gcconc" => {
            let cap: u64 = std::env::var("VERIF_CONC_CAP").ok().and_then(|x| x.parse().ok()).unwrap_or(150);
            for kind in [Kind::Meta, Kind::Enc] {
                for (si, (plants, prefix, procs)) in gc_scenarios().iter().enumerate() {
                    let mut pre: Vec<usize> = Vec::new();
                    let mut n = 0;
                    loop {
                        let (lines, counts, taken) = run_gc_schedule(kind, plants, prefix, procs, &pre).await;
                        emit(lines, json!({"store": kind.name(), "s": si, "schedule": taken}), &mut out);
                        points += 1;
                        n += 1;
                        match next_schedule(&taken, &counts) {
                            Some(nx) if n < cap => pre = nx,
                            _ => break,
                        }
                    }
                }
            }
        }
        other => panic!("mode {other}"),
    }
    out.flush().unwrap();
    std::fs::write(&args[3], json!({"traces": n_traces, "events": n_events, "points": points}).to_string()).unwrap();
    println!("drive_sidecar {}: traces={n_traces} events={n_events} points={points}", args[1]);
}
