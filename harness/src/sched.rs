//! Minimal cooperative task set for the schedule explorers: tasks are polled by hand, a task is
//! re-polled only after its waker fired, and `settle` runs everything until nothing moves.

use futures::task::{ArcWake, waker};
use std::{
    future::Future,
    pin::Pin,
    sync::{
        Arc,
        atomic::{AtomicBool, Ordering},
    },
    task::{Context, Poll},
};

pub struct Flag(pub AtomicBool);
impl ArcWake for Flag {
    fn wake_by_ref(arc_self: &Arc<Self>) {
        arc_self.0.store(true, Ordering::SeqCst);
    }
}

pub struct Task<T> {
    pub pid: u32,
    pub fut: Pin<Box<dyn Future<Output = T>>>,
    pub result: Option<T>,
    pub flag: Arc<Flag>,
}

impl<T> Task<T> {
    pub fn new(pid: u32, fut: Pin<Box<dyn Future<Output = T>>>) -> Self {
        Task {
            pid,
            fut,
            result: None,
            flag: Arc::new(Flag(AtomicBool::new(true))),
        }
    }
    pub fn done(&self) -> bool {
        self.result.is_some()
    }
}

/// Polls every woken task until nothing moves any more; `on_done(pid)` is called when a task
/// completes (in completion order).
pub fn settle<T>(tasks: &mut [Task<T>], mut on_done: impl FnMut(u32, &T)) {
    loop {
        let mut progress = false;
        for t in tasks.iter_mut() {
            if t.done() || !t.flag.0.swap(false, Ordering::SeqCst) {
                continue;
            }
            progress = true;
            let w = waker(t.flag.clone());
            let mut cx = Context::from_waker(&w);
            if let Poll::Ready(r) = t.fut.as_mut().poll(&mut cx) {
                on_done(t.pid, &r);
                t.result = Some(r);
            }
        }
        if !progress {
            break;
        }
    }
}

/// Next schedule in lexicographic order for a stateless DFS: `taken[i]` was chosen among
/// `counts[i]` alternatives.  None when the enumeration is complete.
pub fn next_schedule(taken: &[usize], counts: &[usize]) -> Option<Vec<usize>> {
    let mut next = taken.to_vec();
    let mut i = next.len();
    while i > 0 {
        i -= 1;
        if next[i] + 1 < counts[i] {
            next[i] += 1;
            next.truncate(i + 1);
            return Some(next);
        }
    }
    None
}
