//! TraceStore: a recording / fault-injecting / schedulable `ObjectStore` wrapper.
//!
//! Every call is (1) tagged with the issuing logical process (task-local),
//! (2) checked against the power state and the fault plan, (3) optionally
//! parked until the explorer releases it, (4) executed on the inner store and
//! (5) appended to the event log with a sequence number taken under the same
//! mutex that orders the effect on the inner store (never wall-clock).

use async_trait::async_trait;
use bytes::Bytes;
use futures::{StreamExt, stream::BoxStream};
use object_store::{path::Path, *};
use std::{
    collections::{BTreeMap, VecDeque},
    future::Future,
    pin::Pin,
    sync::{Arc, Mutex},
    task::{Context, Poll, Waker},
};

tokio::task_local! {
    pub static PROC: u32;
}

pub fn current_proc() -> u32 {
    PROC.try_with(|p| *p).unwrap_or(0)
}

#[derive(Debug, Clone, Copy, PartialEq, Eq)]
pub enum Op {
    Put,
    Delete,
    Copy,
    Rename,
    Get,
    List,
}

impl Op {
    pub fn is_mutation(self) -> bool {
        matches!(self, Op::Put | Op::Delete | Op::Copy | Op::Rename)
    }
    pub fn name(self) -> &'static str {
        match self {
            Op::Put => "put",
            Op::Delete => "delete",
            Op::Copy => "copy",
            Op::Rename => "rename",
            Op::Get => "get",
            Op::List => "list",
        }
    }
}

#[derive(Debug, Clone)]
pub struct Event {
    /// global sequence number (order of effects on the inner store)
    pub seq: u64,
    /// 1-based index among mutations (0 for reads)
    pub mutation: u64,
    pub proc_: u32,
    pub op: Op,
    pub path: String,
    pub path2: Option<String>,
    /// "create" | "overwrite" | "update" | ""
    pub mode: &'static str,
    /// "ok" | "exists" | "precondition" | "notfound" | "err" | "fault" | "fault_landed" | "poweroff"
    pub res: &'static str,
    pub payload: Option<Bytes>,
}

/// What to do with the n-th mutation (1-based).
#[derive(Debug, Clone, Copy, PartialEq, Eq)]
pub enum Fault {
    /// fail without reaching the inner store
    ErrNoLand,
    /// apply to the inner store, then report an error (unknown outcome)
    LandThenErr,
}

#[derive(Default)]
struct Sched {
    /// when true every call parks until released
    enabled: bool,
    /// when true a read parks a second time after it was executed (its response is held back)
    post_reads: bool,
    /// arrival log: (ticket, proc, op, path, phase) in arrival order
    arrivals: Vec<(u64, u32, Op, String, u8)>,
    /// when true every call yields once (returns Pending and wakes itself) before executing:
    /// makes every backend call a suspension point for the DropPoller
    yield_once: bool,
    /// parked calls: ticket -> (proc, op, path, waker, released)
    parked: BTreeMap<u64, Parked>,
    next_ticket: u64,
}

struct Parked {
    proc_: u32,
    op: Op,
    path: String,
    waker: Option<Waker>,
    released: bool,
}

#[derive(Default)]
struct State {
    events: Vec<Event>,
    seq: u64,
    mutations: u64,
    crash_after: Option<u64>,
    powered_off: bool,
    faults: BTreeMap<u64, Fault>,
    record_reads: bool,
    keep_payload: bool,
    sched: Sched,
    /// mutations of these procs are rejected with res="silenced" violations recorded
    log_only: VecDeque<String>,
}

#[derive(Clone)]
pub struct TraceHandle {
    state: Arc<Mutex<State>>,
}

pub struct TraceStore {
    inner: Arc<dyn ObjectStore>,
    state: Arc<Mutex<State>>,
}

impl std::fmt::Debug for TraceStore {
    fn fmt(&self, f: &mut std::fmt::Formatter<'_>) -> std::fmt::Result {
        write!(f, "TraceStore")
    }
}
impl std::fmt::Display for TraceStore {
    fn fmt(&self, f: &mut std::fmt::Formatter<'_>) -> std::fmt::Result {
        write!(f, "TraceStore")
    }
}

fn injected(what: &str, op: Op, path: &Path) -> Error {
    Error::Generic {
        store: "TraceStore",
        source: format!("injected {what} ({} {path})", op.name()).into(),
    }
}

fn classify(err: &Error) -> &'static str {
    match err {
        Error::AlreadyExists { .. } => "exists",
        Error::Precondition { .. } => "precondition",
        Error::NotFound { .. } => "notfound",
        Error::NotModified { .. } => "notmodified",
        _ => "err",
    }
}

impl TraceStore {
    pub fn wrap(inner: Arc<dyn ObjectStore>) -> (Arc<TraceStore>, TraceHandle) {
        let state = Arc::new(Mutex::new(State {
            keep_payload: true,
            ..Default::default()
        }));
        (
            Arc::new(TraceStore {
                inner,
                state: state.clone(),
            }),
            TraceHandle { state },
        )
    }

    /// Admission: power state, fault plan, scheduling. Returns the fault to apply.
    async fn admit(&self, op: Op, path: &Path) -> Result<(Option<Fault>, u64)> {
        let yield_once = self.state.lock().unwrap().sched.yield_once;
        if yield_once {
            YieldOnce(false).await;
        }
        // park first (a parked call has not happened yet)
        let ticket = {
            let mut st = self.state.lock().unwrap();
            if st.sched.enabled {
                let t = st.sched.next_ticket;
                st.sched.next_ticket += 1;
                st.sched.parked.insert(
                    t,
                    Parked {
                        proc_: current_proc(),
                        op,
                        path: path.to_string(),
                        waker: None,
                        released: false,
                    },
                );
                Some(t)
            } else {
                None
            }
        };
        if let Some(t) = ticket {
            {
                let mut st = self.state.lock().unwrap();
                st.sched.arrivals.push((t, current_proc(), op, path.to_string(), 0));
                st.seq += 1;
                let seq = st.seq;
                st.events.push(Event {
                    seq,
                    mutation: 0,
                    proc_: current_proc(),
                    op,
                    path: path.to_string(),
                    path2: None,
                    mode: "",
                    res: "parked",
                    payload: None,
                });
            }
            ParkFuture {
                state: self.state.clone(),
                ticket: t,
            }
            .await;
        }
        let mut st = self.state.lock().unwrap();
        if st.powered_off {
            Self::push(&mut st, op, path, None, "", "poweroff", None, 0);
            return Err(injected("power failure", op, path));
        }
        let mut mutation = 0;
        if op.is_mutation() {
            if let Some(k) = st.crash_after
                && st.mutations >= k
            {
                st.powered_off = true;
                Self::push(&mut st, op, path, None, "", "poweroff", None, 0);
                return Err(injected("power failure", op, path));
            }
            st.mutations += 1;
            mutation = st.mutations;
            if let Some(f) = st.faults.get(&mutation).copied() {
                return Ok((Some(f), mutation));
            }
        }
        Ok((None, mutation))
    }

    /// Second park point of a read: the backend has answered, the response is held back.
    async fn post_park(&self, op: Op, path: &Path) {
        let ticket = {
            let mut st = self.state.lock().unwrap();
            if st.sched.enabled && st.sched.post_reads {
                let t = st.sched.next_ticket;
                st.sched.next_ticket += 1;
                st.sched.parked.insert(
                    t,
                    Parked {
                        proc_: current_proc(),
                        op,
                        path: path.to_string(),
                        waker: None,
                        released: false,
                    },
                );
                st.sched.arrivals.push((t, current_proc(), op, path.to_string(), 1));
                Some(t)
            } else {
                None
            }
        };
        if let Some(t) = ticket {
            ParkFuture {
                state: self.state.clone(),
                ticket: t,
            }
            .await;
        }
    }

    #[allow(clippy::too_many_arguments)]
    fn push(
        st: &mut State,
        op: Op,
        path: &Path,
        path2: Option<&Path>,
        mode: &'static str,
        res: &'static str,
        payload: Option<Bytes>,
        mutation: u64,
    ) {
        if !op.is_mutation() && !st.record_reads {
            return;
        }
        st.seq += 1;
        let seq = st.seq;
        let payload = if st.keep_payload { payload } else { None };
        st.events.push(Event {
            seq,
            mutation,
            proc_: current_proc(),
            op,
            path: path.to_string(),
            path2: path2.map(|p| p.to_string()),
            mode,
            res,
            payload,
        });
    }

    fn record(
        &self,
        op: Op,
        path: &Path,
        path2: Option<&Path>,
        mode: &'static str,
        res: &'static str,
        payload: Option<Bytes>,
        mutation: u64,
    ) {
        let mut st = self.state.lock().unwrap();
        Self::push(&mut st, op, path, path2, mode, res, payload, mutation);
    }
}

struct YieldOnce(bool);
impl Future for YieldOnce {
    type Output = ();
    fn poll(mut self: Pin<&mut Self>, cx: &mut Context<'_>) -> Poll<()> {
        if self.0 {
            Poll::Ready(())
        } else {
            self.0 = true;
            cx.waker().wake_by_ref();
            Poll::Pending
        }
    }
}

struct ParkFuture {
    state: Arc<Mutex<State>>,
    ticket: u64,
}

impl Future for ParkFuture {
    type Output = ();
    fn poll(self: Pin<&mut Self>, cx: &mut Context<'_>) -> Poll<()> {
        let mut st = self.state.lock().unwrap();
        let released = st
            .sched
            .parked
            .get(&self.ticket)
            .map(|p| p.released)
            .unwrap_or(true);
        if released {
            st.sched.parked.remove(&self.ticket);
            Poll::Ready(())
        } else {
            if let Some(p) = st.sched.parked.get_mut(&self.ticket) {
                p.waker = Some(cx.waker().clone());
            }
            Poll::Pending
        }
    }
}

impl Drop for ParkFuture {
    fn drop(&mut self) {
        // a dropped (cancelled) call never happens
        if let Ok(mut st) = self.state.lock() {
            st.sched.parked.remove(&self.ticket);
        }
    }
}

#[derive(Debug, Clone)]
pub struct ParkedInfo {
    pub ticket: u64,
    pub proc_: u32,
    pub op: Op,
    pub path: String,
}

impl TraceHandle {
    pub fn events(&self) -> Vec<Event> {
        self.state.lock().unwrap().events.clone()
    }
    pub fn take_events(&self) -> Vec<Event> {
        std::mem::take(&mut self.state.lock().unwrap().events)
    }
    pub fn event_count(&self) -> usize {
        self.state.lock().unwrap().events.len()
    }
    pub fn mutation_count(&self) -> u64 {
        self.state.lock().unwrap().mutations
    }
    pub fn crash_after(&self, k: u64) {
        let mut st = self.state.lock().unwrap();
        st.crash_after = Some(st.mutations + k);
    }
    pub fn crash_at_absolute(&self, k: u64) {
        self.state.lock().unwrap().crash_after = Some(k);
    }
    pub fn power_off_now(&self) {
        self.state.lock().unwrap().powered_off = true;
    }
    pub fn is_powered_off(&self) -> bool {
        self.state.lock().unwrap().powered_off
    }
    /// "Reboot": power back on, no crash armed, fault plan cleared.
    pub fn reboot(&self) {
        let mut st = self.state.lock().unwrap();
        st.powered_off = false;
        st.crash_after = None;
        st.faults.clear();
    }
    /// Cancel an armed (not yet fired) crash point and the fault plan.
    pub fn disarm(&self) {
        let mut st = self.state.lock().unwrap();
        st.crash_after = None;
        st.faults.clear();
    }
    pub fn reset_counters(&self) {
        let mut st = self.state.lock().unwrap();
        st.mutations = 0;
        st.events.clear();
        st.seq = 0;
    }
    /// Fault on the n-th mutation counted from now (1-based).
    pub fn fault_at(&self, n: u64, f: Fault) {
        let mut st = self.state.lock().unwrap();
        let at = st.mutations + n;
        st.faults.insert(at, f);
    }
    pub fn record_reads(&self, on: bool) {
        self.state.lock().unwrap().record_reads = on;
    }
    pub fn keep_payload(&self, on: bool) {
        self.state.lock().unwrap().keep_payload = on;
    }
    pub fn note(&self, text: String) {
        self.state.lock().unwrap().log_only.push_back(text);
    }

    pub fn yield_once(&self, on: bool) {
        self.state.lock().unwrap().sched.yield_once = on;
    }

    // ---- scheduling -------------------------------------------------------
    pub fn sched_post_reads(&self, on: bool) {
        self.state.lock().unwrap().sched.post_reads = on;
    }
    pub fn sched_enable(&self, on: bool) {
        let mut st = self.state.lock().unwrap();
        st.sched.enabled = on;
        if !on {
            // release everything
            let wakers: Vec<Waker> = st
                .sched
                .parked
                .values_mut()
                .filter_map(|p| {
                    p.released = true;
                    p.waker.take()
                })
                .collect();
            drop(st);
            for w in wakers {
                w.wake();
            }
        }
    }
    pub fn parked(&self) -> Vec<ParkedInfo> {
        self.state
            .lock()
            .unwrap()
            .sched
            .parked
            .iter()
            .filter(|(_, p)| !p.released)
            .map(|(t, p)| ParkedInfo {
                ticket: *t,
                proc_: p.proc_,
                op: p.op,
                path: p.path.clone(),
            })
            .collect()
    }
    pub fn release(&self, ticket: u64) {
        let waker = {
            let mut st = self.state.lock().unwrap();
            match st.sched.parked.get_mut(&ticket) {
                Some(p) => {
                    p.released = true;
                    p.waker.take()
                }
                None => None,
            }
        };
        if let Some(w) = waker {
            w.wake();
        }
    }
}

fn mode_of(opts: &PutOptions) -> &'static str {
    match opts.mode {
        PutMode::Create => "create",
        PutMode::Overwrite => "overwrite",
        PutMode::Update(_) => "update",
    }
}

fn payload_bytes(p: &PutPayload) -> Bytes {
    let mut v = Vec::with_capacity(p.content_length());
    for seg in p.iter() {
        v.extend_from_slice(seg);
    }
    Bytes::from(v)
}

#[async_trait]
impl ObjectStore for TraceStore {
    async fn put_opts(
        &self,
        location: &Path,
        payload: PutPayload,
        opts: PutOptions,
    ) -> Result<PutResult> {
        let mode = mode_of(&opts);
        let (fault, m) = self.admit(Op::Put, location).await?;
        let bytes = payload_bytes(&payload);
        match fault {
            Some(Fault::ErrNoLand) => {
                self.record(Op::Put, location, None, mode, "fault", Some(bytes), m);
                Err(injected("fault (not landed)", Op::Put, location))
            }
            Some(Fault::LandThenErr) => {
                let r = self.inner.put_opts(location, payload, opts).await;
                let res = if r.is_ok() { "fault_landed" } else { "fault" };
                self.record(Op::Put, location, None, mode, res, Some(bytes), m);
                Err(injected("fault (unknown outcome)", Op::Put, location))
            }
            None => {
                let r = self.inner.put_opts(location, payload, opts).await;
                let res = match &r {
                    Ok(_) => "ok",
                    Err(e) => classify(e),
                };
                self.record(Op::Put, location, None, mode, res, Some(bytes), m);
                r
            }
        }
    }

    async fn put_multipart_opts(
        &self,
        location: &Path,
        opts: PutMultipartOptions,
    ) -> Result<Box<dyn MultipartUpload>> {
        // anda_db's small-object paths never use multipart in the harness
        // workloads; treat the whole upload as one mutation at `complete`.
        let inner = self.inner.put_multipart_opts(location, opts).await?;
        Ok(Box::new(TraceUploader {
            location: location.clone(),
            store: TraceStore {
                inner: self.inner.clone(),
                state: self.state.clone(),
            },
            inner,
            buf: Vec::new(),
        }))
    }

    async fn get_opts(&self, location: &Path, options: GetOptions) -> Result<GetResult> {
        self.admit(Op::Get, location).await?;
        let r = self.inner.get_opts(location, options).await;
        let res = match &r {
            Ok(_) => "ok",
            Err(e) => classify(e),
        };
        self.record(Op::Get, location, None, "", res, None, 0);
        // InMemory returns the bytes eagerly, so the answer is fixed now; hold the response back
        self.post_park(Op::Get, location).await;
        r
    }

    async fn get_ranges(
        &self,
        location: &Path,
        ranges: &[std::ops::Range<u64>],
    ) -> Result<Vec<Bytes>> {
        self.admit(Op::Get, location).await?;
        let r = self.inner.get_ranges(location, ranges).await;
        let res = match &r {
            Ok(_) => "ok",
            Err(e) => classify(e),
        };
        self.record(Op::Get, location, None, "", res, None, 0);
        r
    }

    fn delete_stream(
        &self,
        locations: BoxStream<'static, Result<Path>>,
    ) -> BoxStream<'static, Result<Path>> {
        let me = TraceStore {
            inner: self.inner.clone(),
            state: self.state.clone(),
        };
        let me = Arc::new(me);
        locations
            .then(move |location| {
                let me = me.clone();
                async move {
                    let location = location?;
                    let (fault, m) = me.admit(Op::Delete, &location).await?;
                    match fault {
                        Some(Fault::ErrNoLand) => {
                            me.record(Op::Delete, &location, None, "", "fault", None, m);
                            Err(injected("fault (not landed)", Op::Delete, &location))
                        }
                        Some(Fault::LandThenErr) => {
                            let r = me.inner.delete(&location).await;
                            let res = if r.is_ok() { "fault_landed" } else { "fault" };
                            me.record(Op::Delete, &location, None, "", res, None, m);
                            Err(injected("fault (unknown outcome)", Op::Delete, &location))
                        }
                        None => {
                            let r = me.inner.delete(&location).await;
                            let res = match &r {
                                Ok(_) => "ok",
                                Err(e) => classify(e),
                            };
                            me.record(Op::Delete, &location, None, "", res, None, m);
                            r.map(|_| location)
                        }
                    }
                }
            })
            .boxed()
    }

    fn list(&self, prefix: Option<&Path>) -> BoxStream<'static, Result<ObjectMeta>> {
        let st = self.state.lock().unwrap();
        if st.powered_off {
            let err = injected("power failure", Op::List, &prefix.cloned().unwrap_or_default());
            return futures::stream::once(async move { Err(err) }).boxed();
        }
        drop(st);
        self.record(Op::List, &prefix.cloned().unwrap_or_default(), None, "", "ok", None, 0);
        self.inner.list(prefix)
    }

    fn list_with_offset(
        &self,
        prefix: Option<&Path>,
        offset: &Path,
    ) -> BoxStream<'static, Result<ObjectMeta>> {
        let st = self.state.lock().unwrap();
        if st.powered_off {
            let err = injected("power failure", Op::List, &prefix.cloned().unwrap_or_default());
            return futures::stream::once(async move { Err(err) }).boxed();
        }
        drop(st);
        self.record(Op::List, &prefix.cloned().unwrap_or_default(), None, "", "ok", None, 0);
        self.inner.list_with_offset(prefix, offset)
    }

    async fn list_with_delimiter(&self, prefix: Option<&Path>) -> Result<ListResult> {
        self.admit(Op::List, &prefix.cloned().unwrap_or_default())
            .await?;
        self.record(Op::List, &prefix.cloned().unwrap_or_default(), None, "", "ok", None, 0);
        self.inner.list_with_delimiter(prefix).await
    }

    async fn copy_opts(&self, from: &Path, to: &Path, options: CopyOptions) -> Result<()> {
        let (fault, m) = self.admit(Op::Copy, from).await?;
        match fault {
            Some(Fault::ErrNoLand) => {
                self.record(Op::Copy, from, Some(to), "", "fault", None, m);
                Err(injected("fault (not landed)", Op::Copy, from))
            }
            Some(Fault::LandThenErr) => {
                let r = self.inner.copy_opts(from, to, options).await;
                let res = if r.is_ok() { "fault_landed" } else { "fault" };
                self.record(Op::Copy, from, Some(to), "", res, None, m);
                Err(injected("fault (unknown outcome)", Op::Copy, from))
            }
            None => {
                let r = self.inner.copy_opts(from, to, options).await;
                let res = match &r {
                    Ok(_) => "ok",
                    Err(e) => classify(e),
                };
                self.record(Op::Copy, from, Some(to), "", res, None, m);
                r
            }
        }
    }

    async fn rename_opts(&self, from: &Path, to: &Path, options: RenameOptions) -> Result<()> {
        let (fault, m) = self.admit(Op::Rename, from).await?;
        match fault {
            Some(Fault::ErrNoLand) => {
                self.record(Op::Rename, from, Some(to), "", "fault", None, m);
                Err(injected("fault (not landed)", Op::Rename, from))
            }
            Some(Fault::LandThenErr) => {
                let r = self.inner.rename_opts(from, to, options).await;
                let res = if r.is_ok() { "fault_landed" } else { "fault" };
                self.record(Op::Rename, from, Some(to), "", res, None, m);
                Err(injected("fault (unknown outcome)", Op::Rename, from))
            }
            None => {
                let r = self.inner.rename_opts(from, to, options).await;
                let res = match &r {
                    Ok(_) => "ok",
                    Err(e) => classify(e),
                };
                self.record(Op::Rename, from, Some(to), "", res, None, m);
                r
            }
        }
    }
}

struct TraceUploader {
    location: Path,
    store: TraceStore,
    inner: Box<dyn MultipartUpload>,
    buf: Vec<u8>,
}

impl std::fmt::Debug for TraceUploader {
    fn fmt(&self, f: &mut std::fmt::Formatter<'_>) -> std::fmt::Result {
        write!(f, "TraceUploader({})", self.location)
    }
}

#[async_trait]
impl MultipartUpload for TraceUploader {
    fn put_part(&mut self, payload: PutPayload) -> UploadPart {
        if self.store.state.lock().unwrap().powered_off {
            let err = injected("power failure", Op::Put, &self.location);
            return Box::pin(async move { Err(err) });
        }
        for seg in payload.iter() {
            self.buf.extend_from_slice(seg);
        }
        self.inner.put_part(payload)
    }

    async fn complete(&mut self) -> Result<PutResult> {
        let (fault, m) = self.store.admit(Op::Put, &self.location).await?;
        let bytes = Bytes::from(std::mem::take(&mut self.buf));
        match fault {
            Some(Fault::ErrNoLand) => {
                let _ = self.inner.abort().await;
                self.store
                    .record(Op::Put, &self.location, None, "overwrite", "fault", Some(bytes), m);
                Err(injected("fault (not landed)", Op::Put, &self.location))
            }
            Some(Fault::LandThenErr) => {
                let r = self.inner.complete().await;
                let res = if r.is_ok() { "fault_landed" } else { "fault" };
                self.store
                    .record(Op::Put, &self.location, None, "overwrite", res, Some(bytes), m);
                Err(injected("fault (unknown outcome)", Op::Put, &self.location))
            }
            None => {
                let r = self.inner.complete().await;
                let res = match &r {
                    Ok(_) => "ok",
                    Err(e) => classify(e),
                };
                self.store
                    .record(Op::Put, &self.location, None, "overwrite", res, Some(bytes), m);
                r
            }
        }
    }

    async fn abort(&mut self) -> Result<()> {
        if self.store.state.lock().unwrap().powered_off {
            return Err(injected("power failure", Op::Put, &self.location));
        }
        self.inner.abort().await
    }
}
