#!/bin/bash
# usage: seedtest.sh <patch.diff> <prop> [tier] ; applies the patch to /repo, runs the check, reverts
P=$1; PROP=$2; TIER=${3:-quick}
cd /repo && git diff --quiet || { echo "/repo not clean"; exit 2; }
git -C /repo apply $P || { echo "patch does not apply"; exit 2; }
cd /verif && ./check $PROP $TIER 2>&1 | grep -E "VIOLATION|KNOWN|TOOL-ERROR|done in|X |T |drive_" | cut -c1-220
rc=${PIPESTATUS[0]}
git -C /repo checkout -- .
echo "exit=$rc"
