#!/usr/bin/env python3
"""promote_seed.py <incoming_dir> <seed_id> <property> <detected_by> <needs...>
Moves a confirmed seeded change into /verif/seeded/<seed_id>/ with meta.json."""
import json, os, shutil, sys
src, sid, prop, detected = sys.argv[1:5]
needs = " ".join(sys.argv[5:])
dst = f"/verif/seeded/{sid}"
shutil.rmtree(dst, ignore_errors=True)
os.makedirs(dst)
shutil.copy(f"{src}/patch.diff", dst)
shutil.copytree(f"{src}/demo", f"{dst}/demo")
shutil.copy(f"{src}/notes.md", f"{dst}/notes.md")
summ = open(f"{src}/confirm.summary").read().strip() if os.path.exists(f"{src}/confirm.summary") else ""
log = open(f"{src}/confirm.log").read() if os.path.exists(f"{src}/confirm.log") else ""
meta = {
    "seed_id": sid, "property": prop,
    "needs_to_manifest": needs,
    "confirmed_in_scratch_worktree": {
        "script": "tools/confirm_seed.sh (scratch worktree /tmp/confirm, removed afterwards)",
        "demo_without_patch": "pass" if "demo_without_patch=pass" in log else "?",
        "demo_with_patch": "fail" if "demo_with_patch=fail(expected)" in log else "?",
        "existing_suite_with_patch": summ,
    },
    "detected_by": detected,
}
json.dump(meta, open(f"{dst}/meta.json", "w"), indent=1)
print("promoted", sid)
