#!/bin/bash
# usage: confirm_seed.sh <seed_dir> <scratch_worktree> [default_crate]
# Confirms a seeded change in a scratch worktree: demo passes without the patch, fails with it,
# and the existing workspace suite (demo excluded) passes with it.  Writes <seed_dir>/confirm.log
S=$1; W=$2; DC=${3:-anda_db}
export CARGO_NET_OFFLINE=true CARGO_INCREMENTAL=0 CARGO_PROFILE_DEV_DEBUG=0 CARGO_PROFILE_TEST_DEBUG=0
LOG=$S/confirm.log; : > $LOG
cd $W && git checkout -q -- . && git clean -fdq rs
if ! git apply --check $S/patch.diff 2>>$LOG; then echo "RESULT patch_does_not_apply" | tee -a $LOG; exit 0; fi
DEMOS=""
for f in $S/demo/*.rs; do
  b=$(basename $f)
  case $b in
    btree_*) cp $f rs/anda_db_btree/tests/${b#btree_}; DEMOS="$DEMOS anda_db_btree:${b%.rs}";;
    collection_*) cp $f rs/anda_db/tests/${b#collection_}; DEMOS="$DEMOS anda_db:${b%.rs}";;
    *) mkdir -p rs/$DC/tests; cp $f rs/$DC/tests/$b; DEMOS="$DEMOS $DC:${b%.rs}";;
  esac
done
run_demos() { rc=0; for d in $DEMOS; do c=${d%%:*}; t=${d##*:}; t=${t#btree_}; t=${t#collection_}; timeout 1800 cargo test -p $c --offline --test $t >>$LOG 2>&1 || rc=1; done; return $rc; }
echo "== demo without patch" >>$LOG
if run_demos; then echo "demo_without_patch=pass" | tee -a $LOG; else echo "demo_without_patch=FAIL" | tee -a $LOG; fi
git apply $S/patch.diff
echo "== demo with patch" >>$LOG
if run_demos; then echo "demo_with_patch=PASS(unexpected)" | tee -a $LOG; else echo "demo_with_patch=fail(expected)" | tee -a $LOG; fi
echo "== suite with patch" >>$LOG
timeout 3000 cargo nextest run --workspace --offline --no-fail-fast --test-threads 8 -E 'not binary(~seed_demo)' >>$LOG 2>&1
tail -5 $LOG | grep -E "Summary|passed|failed" | tee -a $S/confirm.summary
grep -E "^\s+(FAIL|SIGABRT|TIMEOUT)" $LOG | sort -u | head -10 | tee -a $S/confirm.summary
git checkout -q -- . && git clean -fdq rs
