#!/usr/bin/env python3
"""Demonstrates that the trace specifications are bound to the recorded executions: for each trace specification a
small trace recorded from the real code is validated (accepted), then ONE field is corrupted or ONE event (hook) is
removed and the trace is validated again (must be rejected).  Prints a table; exit 1 if any corruption is accepted."""
import copy
import json
import os
import random
import sys

sys.path.insert(0, "/verif")
import vlib
from checks import collection_common as cc
from checks import c10, c11, c12, c17, c18, nexus_gen as g


def validate(events, header, wd, spec, label):
    p = os.path.join(wd, label + ".ndjson")
    with open(p, "w") as f:
        if header is not None:
            f.write(json.dumps(header, separators=(",", ":")) + "\n")
        for e in events:
            f.write(json.dumps(e, separators=(",", ":")) + "\n")
    res = cc.validate_file(p, wd, label, cfg=spec + ".cfg", module=spec, max_failures=0)
    return len(res["failures"]) == 0


def load(path):
    with open(path) as f:
        lines = [json.loads(x) for x in f]
    return lines[0], lines[1:]


def first(events, pred):
    for i, e in enumerate(events):
        if pred(e):
            return i
    raise KeyError("no such event")


def main():
    vlib.build_harness()
    wd = vlib.workdir("binding-demo")
    rows = []

    def demo(spec, header, events, corruptions):
        ok = validate(events, header, wd, spec, spec + "-orig")
        rows.append((spec, "recorded trace", "accepted" if ok else "REJECTED (unexpected)"))
        bad = not ok
        for name, fn in corruptions:
            ev = copy.deepcopy(events)
            fn(ev)
            acc = validate(ev, header, wd, spec, spec + "-" + name.split()[0])
            rows.append((spec, name, "ACCEPTED (binding does not bite!)" if acc else "rejected"))
            bad = bad or acc
        return bad

    failed = False
    # ---- B-tree histories
    h = {"name": "demo", "nk": 6, "ni": 4, "dup": True, "ops": [
        {"op": "insert", "id": 1, "k": 1}, {"op": "insert", "id": 2, "k": 1}, {"op": "insert", "id": 1, "k": 2},
        {"op": "insert", "id": 1, "k": 3}, {"op": "flush"}, {"op": "remove", "id": 1, "k": 1}, {"op": "flush"},
        {"op": "reload"}]}
    wf, tf = os.path.join(wd, "bt.jsonl"), os.path.join(wd, "bt.ndjson")
    open(wf, "w").write(json.dumps(h) + "\n")
    vlib.run_bin("drive_btree", ["hist", wf, tf])
    hdr, ev = load(tf)

    def flip_ret(ev):
        i = first(ev, lambda e: e["e"] == "op" and e["op"] == "insert")
        ev[i]["ret"] = 0

    def drop_write(ev):
        del ev[first(ev, lambda e: e["e"] == "write")]

    def clean_dirty(ev):
        i = first(ev, lambda e: e["e"] == "op" and e["op"] == "remove")
        ev[i]["st"]["dirty"] = []

    def wrong_load(ev):
        i = first(ev, lambda e: e["e"] == "load" and any(e["st"]["post"]))
        ev[i]["st"]["post"][0] = []
        ev[i]["st"]["keys"] = [k for k in ev[i]["st"]["keys"] if k != 1]

    failed |= demo("BTreeTrace", hdr, ev, [("ret of the first insert flipped", flip_ret),
                                            ("write event of a bucket removed", drop_write),
                                            ("dirty set after a remove emptied", clean_dirty),
                                            ("load observation loses key 1", wrong_load)])
    # ---- B-tree threads
    sc = c10.conc_scenarios("quick")["dup"][0]
    sc["cap"] = 3
    wf, tf = os.path.join(wd, "btc.jsonl"), os.path.join(wd, "btc.ndjson")
    open(wf, "w").write(json.dumps(sc) + "\n")
    vlib.run_bin("drive_btree", ["conc", wf, tf])
    hdr, ev = load(tf)

    def drop_point(ev):
        del ev[first(ev, lambda e: e["e"] == "pt" and e["pt"] == "bt.remove.entry")]

    def relist(ev):
        i = first(ev, lambda e: e["e"] == "seg")
        ev[i]["st"]["dirty"] = []

    failed |= demo("BTreeConcTrace", hdr, ev, [("yield-point event bt.remove.entry removed (missing hook)", drop_point),
                                                ("dirty set at the end of a call emptied", relist)])
    # ---- BM25
    hs = [x for x in c11.fixed_histories(c11.query_trees(1), "quick") if x["name"] == "ties"]
    wf, tf = os.path.join(wd, "bm.jsonl"), os.path.join(wd, "bm.ndjson")
    open(wf, "w").write(json.dumps(hs[0]) + "\n")
    vlib.run_bin("drive_bm25", ["hist", wf, tf])
    hdr, ev = load(tf)

    def swap_res(ev):
        i = first(ev, lambda e: e["e"] == "search" and len(e["res"]) >= 2)
        ev[i]["res"][0], ev[i]["res"][1] = ev[i]["res"][1], ev[i]["res"][0]

    def drop_commit(ev):
        del ev[first(ev, lambda e: e["e"] == "commit")]

    def neg_score(ev):
        i = first(ev, lambda e: e["e"] == "search" and len(e["res"]) >= 1)
        ev[i]["res"][0][1] = -1

    failed |= demo("Bm25Trace", hdr, ev, [("two tied results swapped (id tie-break)", swap_res),
                                           ("manifest commit event removed", drop_commit),
                                           ("a score replaced by the NaN / negative sentinel", neg_score)])
    # ---- HNSW
    hs = [x for x in c12.fixed_histories() if x["name"].startswith("tombstoned-live-crash_after_ids")]
    wf, tf = os.path.join(wd, "hn.jsonl"), os.path.join(wd, "hn.ndjson")
    open(wf, "w").write(json.dumps(hs[0]) + "\n")
    vlib.run_bin("drive_hnsw", ["small", wf, tf])
    hdr, ev = load(tf)

    def wrong_tag(ev):
        i = first(ev, lambda e: e["e"] == "node")
        ev[i]["tag"] += 1

    def wrong_dist(ev):
        i = first(ev, lambda e: e["e"] == "search" and e["res"])
        ev[i]["res"][0][1] += 2

    def purge_live(ev):
        i = first(ev, lambda e: e["e"] == "crash")
        ev.insert(i + 1, {"e": "purge", "id": ev[i]["ids"][0]})

    failed |= demo("HnswTrace", hdr, ev, [("vector tag of a written node changed", wrong_tag),
                                           ("a reported distance changed by one unit", wrong_dist),
                                           ("a purge of a held id inserted", purge_live)])
    # ---- nexus statements and history
    hist = {"name": "demo", "battery": g.BATTERY, "replay": True, "stmts": [{"text": t} for t in [
        g.upsert_person("alice", "Alice"), g.claim("bob", "dark", "0.9"), g.key_conflict_at_commit("bob"),
        g.update_summary("Alice", "rev"), g.archive("Bob")]]}
    wf = os.path.join(wd, "nx.jsonl")
    open(wf, "w").write(json.dumps(hist) + "\n")
    txf, hif = os.path.join(wd, "nx.tx.ndjson"), os.path.join(wd, "nx.hist.ndjson")
    vlib.run_bin("drive_nexus", ["run", wf, txf, hif])
    hdr, ev = load(txf)

    def refused_as_committed(ev):
        i = first(ev, lambda e: e["e"] == "stmt" and e["outcome"] == "refused")
        ev[i]["outcome"] = "committed"
        ev[i]["seq"] = 99

    def double_bump(ev):
        i = first(ev, lambda e: e["e"] == "stmt" and e["outcome"] == "committed" and e["i"] >= 3)
        ev[i]["st"]["elems"][0][1] += 1

    failed |= demo("NexusTxTrace", hdr, ev, [("a refused statement relabelled committed", refused_as_committed),
                                              ("an element's version raised by two", double_bump)])
    hdr, ev = load(hif)

    def alter_asof(ev):
        i = first(ev, lambda e: e["e"] == "asof")
        ev[i]["d"][0] += 1000

    def alter_payload(ev):
        i = first(ev, lambda e: e["e"] == "payload")
        ev[i]["versions"] = ev[i]["versions"] + [ev[i]["versions"][0] + 1000]

    failed |= demo("HistoryTrace", hdr, ev, [("one digest of an AS OF answer changed", alter_asof),
                                              ("a later version with a different payload appended", alter_payload)])
    w = max(len(r[0]) for r in rows)
    w2 = max(len(r[1]) for r in rows)
    for r in rows:
        print(f"{r[0]:<{w}}  {r[1]:<{w2}}  {r[2]}")
    vlib.cleanup(wd)
    return 1 if failed else 0


if __name__ == "__main__":
    sys.exit(main())
