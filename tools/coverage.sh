#!/bin/bash
# usage: tools/coverage.sh        runs the quick model-checking configurations with -coverage 1 and lists every
# action (disjunct of Next) that was never taken: an action that never fires means its invariants were never exercised.
cd /verif/spec
mkdir -p /verif/.work/cov
for mc in "MC_Manifest MC_Manifest_quick" "MC_BTreeConc MC_BTreeConc_quick" "MC_BTreeConc MC_BTreeConc_uniq" \
          "MC_Bm25 MC_Bm25_quick" "MC_Hnsw MC_Hnsw_quick" "MC_Sidecar MC_Sidecar_quick" \
          "MC_Collection MC_Collection_quick" "MC_Collection MC_Collection_idx" "MC_Collection MC_Collection_c06" \
          "MC_ObjStore MC_ObjStore_quick" "MC_ServerAuth MC_ServerAuth_quick"; do
  set -- $mc
  timeout 1200 tlc -workers 6 -coverage 1 -metadir /verif/.work/cov/md -cleanup -noGenerateSpecTE -config $2.cfg $1.tla \
      > /verif/.work/cov/$2.out 2>&1
  n=$(grep -E "^<[A-Za-z]+ line .*>: [0-9]+:[0-9]+" /verif/.work/cov/$2.out | sort -u | wc -l)
  z=$(grep -E "^<[A-Za-z]+ line .*>: 0:0" /verif/.work/cov/$2.out | sort -u | wc -l)
  echo "$2: $n action sites, $z never taken"
  grep -E "^<[A-Za-z]+ line .*>: 0:0" /verif/.work/cov/$2.out | sort -u | sed 's/^/    /' | head -12
done
