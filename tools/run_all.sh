#!/bin/bash
# usage: tools/run_all.sh [quick|thorough]   runs every claimed check in sequence, prints a summary
T=${1:-quick}
cd /verif
for p in $(python3 -c "import json; print(' '.join(c['property_id'] for c in json.load(open('MANIFEST.json'))['checks']))"); do
  s=$(date +%s); ./check $p $T > .work/run_all_$p.log 2>&1; rc=$?; e=$(date +%s)
  echo "$p rc=$rc $((e-s))s $(grep -c '^VIOLATION' .work/run_all_$p.log) violations $(grep -c '^KNOWN-FINDING' .work/run_all_$p.log) known"
done
./tools_validate.py | tail -3
