"""Shared machinery of /verif/check: harness build, TLC runs, REPLAY extraction,
trace validation, known findings, evidence files.

Exit code policy (see DESIGN.md 2.6): 0 = property held on everything explored,
1 = violation (a line `VIOLATION property=<id> replay=<path>` was printed),
2 = tool error / timeout (never reported as a violation).
"""
import json
import os
import re
import shutil
import subprocess
import sys
import time

VERIF = os.path.dirname(os.path.abspath(__file__))
SPEC = os.path.join(VERIF, "spec")
HARNESS = os.path.join(VERIF, "harness")
WORK = os.path.join(VERIF, ".work")
EVIDENCE = os.path.join(VERIF, "evidence")
REPLAYS = os.path.join(VERIF, "replays")
BIN = os.path.join(HARNESS, "target", "debug")
TLA_JAR = "/opt/veriftools/tla/tla2tools.jar"
TLA_CP = TLA_JAR + ":/opt/veriftools/tla/CommunityModules-deps.jar"


class ToolError(Exception):
    pass


def seed():
    try:
        return int(os.environ.get("VERIF_SEED", "1"))
    except ValueError:
        return 1


def log(msg):
    print(msg, flush=True)


def workdir(name):
    d = os.path.join(WORK, name)
    shutil.rmtree(d, ignore_errors=True)
    os.makedirs(d, exist_ok=True)
    return d


def cleanup(d):
    if os.environ.get("VERIF_KEEP_WORK"):
        return
    shutil.rmtree(d, ignore_errors=True)


_built = False


_failed_bins = set()


def build_harness(bins=None):
    """Rebuild the harness against /repo's current working tree."""
    global _built
    if _built:
        return
    lock = os.path.join(HARNESS, "Cargo.lock")
    if not os.path.exists(lock):
        shutil.copy("/repo/Cargo.lock", lock)
    env = dict(os.environ)
    env["CARGO_NET_OFFLINE"] = "true"
    cmd = ["cargo", "build", "--offline", "--bins", "--keep-going"]
    t0 = time.time()
    # serialise concurrent checks on the same target dir: cargo does its own locking
    p = subprocess.run(cmd, cwd=HARNESS, env=env, stdout=subprocess.PIPE, stderr=subprocess.STDOUT, text=True)
    if p.returncode != 0:
        # one driver that does not compile must not take the other properties' checks down with it: remember
        # which binaries failed; run_bin refuses to run exactly those (a stale binary is never used)
        failed = set(re.findall(r'could not compile `verif_harness` \(bin "([^"]+)"\)', p.stdout))
        if not failed or "(lib)" in p.stdout and "could not compile `verif_harness` (lib)" in p.stdout:
            sys.stdout.write(p.stdout[-6000:])
            raise ToolError("harness build failed (does /repo still compile?)")
        _failed_bins.update(failed)
        log(f"[build] WARNING: drivers that do not compile: {sorted(failed)}")
    log(f"[build] harness built in {time.time() - t0:.1f}s")
    _built = True


def run_bin(name, args, timeout=1800, env=None, stdin=None, capture=True):
    if name in _failed_bins:
        raise ToolError(f"driver {name} does not compile against the current /repo tree")
    exe = os.path.join(BIN, name)
    e = dict(os.environ)
    if env:
        e.update(env)
    e.setdefault("RUST_BACKTRACE", "0")
    try:
        p = subprocess.run([exe] + [str(a) for a in args], env=e, timeout=timeout,
                           stdout=subprocess.PIPE if capture else None,
                           stderr=subprocess.STDOUT if capture else None, text=True, input=stdin)
    except subprocess.TimeoutExpired:
        raise ToolError(f"{name} timed out after {timeout}s")
    return p.returncode, (p.stdout or "")


TLC_STATS = re.compile(r"(\d[\d,]*) states generated, (\d[\d,]*) distinct states found")


def run_tlc(module, cfg, wd, workers=8, timeout=1500, extra=None, env=None, heap="8g", out_name="tlc.out",
            java_opts=None, allow_violation=False):
    """Run TLC on spec/<module>.tla with spec/<cfg>. Returns dict(rc, out, states, generated, violated, text)."""
    out = os.path.join(wd, out_name)
    md = os.path.join(wd, "md-" + out_name)
    # -Xss: TLC's worker threads evaluate deeply nested lazy values (sequence concatenations built by recursive
    # operators) recursively; with the default 1 MB stacks MC_Schema overflowed in about one run out of six,
    # depending on which worker met which value first.  The stack is reserved address space, not committed memory.
    cmd = ["timeout", str(timeout), "java", "-XX:+UseParallelGC", f"-Xmx{heap}", "-Xss256m"]
    if java_opts:
        cmd += java_opts
    cmd += ["-cp", TLA_CP, "tlc2.TLC", "-workers", str(workers), "-metadir", md, "-cleanup",
            "-noGenerateSpecTE", "-config", os.path.join(SPEC, cfg)]
    if extra:
        cmd += extra
    cmd += [os.path.join(SPEC, module + ".tla")]
    e = dict(os.environ)
    if env:
        e.update(env)
    t0 = time.time()
    with open(out, "w") as f:
        p = subprocess.run(cmd, cwd=SPEC, env=e, stdout=f, stderr=subprocess.STDOUT)
    wall = time.time() - t0
    shutil.rmtree(md, ignore_errors=True)
    states = generated = 0
    violated = False
    err_lines = []
    with open(out, errors="replace") as f:
        for line in f:
            m = TLC_STATS.search(line)
            if m:
                generated = int(m.group(1).replace(",", ""))
                states = int(m.group(2).replace(",", ""))
            if line.startswith("Error:"):
                err_lines.append(line.strip())
                if "is violated" in line or "Invariant" in line or "violated" in line or "Deadlock" in line:
                    violated = True
    res = dict(rc=p.returncode, out=out, states=states, generated=generated, violated=violated,
               errors=err_lines, wall=wall)
    if p.returncode == 124:
        raise ToolError(f"TLC timed out after {timeout}s on {module}/{cfg}")
    if p.returncode != 0 and allow_violation:
        res["tail"] = ""
        return res
    if p.returncode != 0 and not (violated and allow_violation):
        tail = subprocess.run(["tail", "-n", "40", out], stdout=subprocess.PIPE, text=True).stdout
        # strip REPLAY noise
        tail = "\n".join(l[:300] for l in tail.splitlines())
        if violated:
            res["tail"] = tail
            return res
        sys.stdout.write(tail + "\n")
        raise ToolError(f"TLC failed rc={p.returncode} on {module}/{cfg}")
    return res


def tlc_printed(out_path, tag):
    """Yield the payloads of PrintT(<<"tag", payload>>) lines (payload = JSON string or TLA value text)."""
    prefix = '<<"' + tag + '", '
    with open(out_path, errors="replace") as f:
        for line in f:
            if not line.startswith(prefix):
                continue
            body = line.rstrip("\n")[len(prefix):]
            if body.endswith(">>"):
                body = body[:-2]
            if body.startswith('"') and body.endswith('"'):
                # TLA+ string: unescape
                body = body[1:-1].replace('\\"', '"').replace("\\\\", "\\")
            yield body


def validate_traces(trace_module, cfg, trace_file, wd, timeout=900, heap="4g", out_name="trace.out", extra_env=None):
    """Trace validation (direction T). The trace spec's POSTCONDITION prints
    <<"TRACE_RESULT", ...>> lines; returns the TLC result dict."""
    env = {"TRACE": trace_file,
           "JAVA_TOOL_OPTIONS": "-Xss1g -Dtlc2.tool.queue.IStateQueue=StateDeque"}
    if extra_env:
        env.update(extra_env)
    return run_tlc(trace_module, cfg, wd, workers=1, timeout=timeout, env=env, heap=heap,
                   out_name=out_name, allow_violation=True)


# ---------------------------------------------------------------------------
# known findings

def load_known_findings():
    p = os.path.join(VERIF, "known_findings.json")
    if not os.path.exists(p):
        return {"findings": [], "fixed": []}
    with open(p) as f:
        return json.load(f)


def findings_for(prop):
    return [k for k in load_known_findings().get("findings", []) if k.get("property") == prop]


# ---------------------------------------------------------------------------
# evidence / verdicts

def write_evidence(prop, tier, level, coverage, wall_s, violations, assumptions=None):
    os.makedirs(EVIDENCE, exist_ok=True)
    ev = {
        "property_id": prop,
        "tier": tier,
        "seed": seed(),
        "level": level,
        "coverage": coverage,
        "assumptions": assumptions or [],
        "wall_s": round(wall_s, 2),
        "violations": violations,
    }
    with open(os.path.join(EVIDENCE, prop + ".json"), "w") as f:
        json.dump(ev, f, indent=1, sort_keys=True)
        f.write("\n")


def write_replay(prop, payload):
    os.makedirs(REPLAYS, exist_ok=True)
    i = 0
    while True:
        p = os.path.join(REPLAYS, f"{prop}-{i}.json")
        if not os.path.exists(p):
            break
        i += 1
    with open(p, "w") as f:
        json.dump(payload, f, indent=1)
        f.write("\n")
    return p


def violation(prop, payload):
    p = write_replay(prop, payload)
    print(f"VIOLATION property={prop} replay={p}", flush=True)
    return p


def known(prop, what):
    print(f"KNOWN-FINDING: property={prop} {what}", flush=True)
