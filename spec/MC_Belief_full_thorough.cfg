CONSTANTS
  Family = "full"
  N = 4
  Confs = {5}
SPECIFICATION Spec
INVARIANT LawsHold
INVARIANT Emit
CHECK_DEADLOCK FALSE
