---------------------------- MODULE MC_KipBudget ----------------------------
(***************************************************************************)
(* Direction R for the lexical half of C15: EVERY word of length N over    *)
(* the scanner alphabet (two bracket kinds are enough to see mismatched    *)
(* closers; the driver maps them onto every ordered pair of the three real *)
(* kinds), with the peak nesting after every prefix and the scale factor   *)
(* at which that prefix crosses the limit of 64.  One REPLAY line per      *)
(* word; harness/src/bin/drive_kip.rs `lex` renders the word, scales its   *)
(* brackets to cut-1 / cut / 1 / 1000 and requires: refused with           *)
(* ResourceExhausted by all five entry points exactly when the             *)
(* specification says so.  Laws check the oracle against itself.           *)
(***************************************************************************)
EXTENDS KipBudget, TLC, Json

CONSTANT N          \* word length (5 quick, 7 thorough)

Alpha == <<"lp", "lb", "rp", "rb", "q", "bs", "sl", "nl", "x">>
A == Len(Alpha)

VARIABLES pre, w
vars == <<pre, w>>

Init == pre \in [1..2 -> 1..A] /\ w = <<>>
Next == /\ w = <<>>
        /\ w' \in {pre \o suf : suf \in [1..(N - 2) -> 1..A]}
        /\ UNCHANGED pre
Spec == Init /\ [][Next]_vars

Word     == [i \in 1..Len(w) |-> Alpha[w[i]]]
Prof     == [k \in 1..Len(w) |-> Peak(Unit(SubSeq(Word, 1, k)))]
Case     == [w |-> w, prof |-> Prof, cut |-> [k \in 1..Len(w) |-> Cut(Prof[k])]]

Emit == Len(w) > 0 => PrintT(<<"REPLAY", ToJson(Case)>>)

---------------------------------------------------------------------------
(* Laws of the oracle. *)
ModeBefore(i) == Scan(Unit(SubSeq(Word, 1, i - 1))).mode
Replace(i, j, by) == SubSeq(Word, 1, i - 1) \o by \o SubSeq(Word, j + 1, Len(Word))

\* the peak never decreases along the input (refusal is decided at the first excess)
Monotone == \A k \in 1..(Len(w) - 1) : Prof[k] <= Prof[k + 1]
\* scaling every bracket by r scales the peak by r
Scales == \A r \in {2, 65} : Peak(Scaled(Word, r)) = r * Peak(Unit(Word))
\* a complete string literal without escapes is opaque: it can be replaced by one ordinary character
StringOpaque ==
  \A i \in 1..Len(w) : \A j \in (i + 1)..Len(w) :
     (/\ Word[i] = "q" /\ Word[j] = "q" /\ ModeBefore(i) \in {"code", "slash"}
      /\ \A k \in (i + 1)..(j - 1) : Word[k] \notin {"q", "bs"})
     => Peak(Unit(Replace(i, j, <<"x">>))) = Peak(Unit(Word))
\* an escape pair inside a string is opaque: `\"` `\\` `\(` ... behave like one ordinary string character
EscapeOpaque ==
  \A i \in 1..(Len(w) - 1) :
     (Word[i] = "bs" /\ ModeBefore(i) = "str")
     => Peak(Unit(Replace(i, i + 1, <<"x">>))) = Peak(Unit(Word))
\* a newline-terminated comment is opaque: whatever it contains (quotes, brackets, slashes, backslashes)
CommentOpaque ==
  \A i \in 1..(Len(w) - 1) : \A j \in (i + 2)..Len(w) :
     (/\ Word[i] = "sl" /\ Word[i + 1] = "sl" /\ ModeBefore(i) = "code" /\ Word[j] = "nl"
      /\ \A k \in (i + 2)..(j - 1) : Word[k] # "nl")
     => Peak(Unit(Replace(i, j, <<"x">>))) = Peak(Unit(Word))
\* an unterminated comment hides the rest of the input
CommentToEnd ==
  \A i \in 1..(Len(w) - 1) :
     (/\ Word[i] = "sl" /\ Word[i + 1] = "sl" /\ ModeBefore(i) = "code"
      /\ \A k \in (i + 2)..Len(w) : Word[k] # "nl")
     => Peak(Unit(SubSeq(Word, 1, i - 1))) = Peak(Unit(Word))

Laws == Len(w) > 0 => (Monotone /\ Scales /\ StringOpaque /\ EscapeOpaque /\ CommentOpaque /\ CommentToEnd)
=============================================================================
