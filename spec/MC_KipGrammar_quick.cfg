CONSTANT Tier = "quick"
SPECIFICATION Spec
INVARIANT Laws
INVARIANT Emit
CHECK_DEADLOCK FALSE
