CONSTANTS
  Keys = {"a", "a/b"}
  Vals = {1, 2}
  N = 4
  Tier = "thorough"
  Family = "seq"
SPECIFICATION MCSpec
INVARIANT TokenFreshInv
INVARIANT StaleInv
INVARIANT Emit
CHECK_DEADLOCK FALSE
