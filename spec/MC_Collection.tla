--------------------------- MODULE MC_Collection ---------------------------
(* Exhaustive exploration of Collection.tla with small constants (X).      *)
EXTENDS Collection, TLC

CONSTANTS MaxCrash, MaxOps, OpKinds,
  MaxFaults     \* storage faults that leave the handle healthy (poisoning faults are crashes)

VARIABLES crashes, nops, faults
mcvars == <<vars, crashes, nops, faults>>

\* index names are strings; kinds and terms for the model values 1..3:
\*   value 1: key 1, tokens {1,2}   value 2: key 2, tokens {2}   value 3: key 1 (conflicts with 1), no text
MCKind == [i \in Index |-> CASE i = "k" -> "btu" [] i = "t" -> "bm" [] i = "v" -> "hn" [] i = "a" -> "bt" [] i = "b" -> "bt"]
MCTerms == [i \in Index |->
   CASE i = "k" -> [v \in Val |-> IF v = 2 THEN {2} ELSE {1}]
     [] i = "t" -> [v \in Val |-> CASE v = 1 -> {1, 2} [] v = 2 -> {2} [] OTHER -> {}]
     [] i = "v" -> [v \in Val |-> {}]
     [] i = "a" -> [v \in Val |-> IF v = 3 THEN {} ELSE {7}]
     [] i = "b" -> [v \in Val |-> {v}]]

MCWanted == <<"k", "t", "v">>
MCWantedA == <<"k", "a">>
MCWantedB == <<"k", "t", "v", "a">>
MCWantedC == <<"k", "a">>

MCInit == Init /\ crashes = 0 /\ nops = 0 /\ faults = 0

Op(A) == A /\ nops < MaxOps /\ nops' = nops + 1 /\ UNCHANGED <<crashes, faults>>
Step(A) == A /\ UNCHANGED <<crashes, nops, faults>>
Flt(A) == A /\ faults < MaxFaults /\ faults' = faults + 1 /\ UNCHANGED <<crashes, nops>>

MCNext ==
  \/ ("add" \in OpKinds /\ \E v \in Val : Op(AddCall(v)))
  \/ ("update" \in OpKinds /\ \E id \in Id, v \in Val : Op(UpdCall(id, v)))
  \/ ("remove" \in OpKinds /\ \E id \in Id : Op(RemCall(id)))
  \/ ("ext" \in OpKinds /\ \E x \in {1, 2} : x # mExt /\ Op(ExtCall(x)))
  \/ ("flush" \in OpKinds /\ Op(FlushCall))
  \/ ("compact" \in OpKinds /\ \E i \in Index : Op(CompactCall(i)))
  \/ Step(AddWmPut) \/ Step(AddDocCreate) \/ Step(AddReject) \/ Step(AddRet)
  \/ Step(IntentPut(nextSeq)) \/ Step(UpdDocPut) \/ Step(UpdReject) \/ Step(UpdRet)
  \/ Step(RemDocDelete) \/ Step(RemRet)
  \/ Step(UnclaimedMetaPut) \/ Step(ExtRet)
  \/ (\E i \in Index : Step(IndexCommit(i) /\ i \in dirtyIdx /\ (pc = "open_cb" => i \in NewDirty)))
  \/ Step(CompactRet)
  \/ Step(MetaCasPut) \/ Step(IdsPut) \/ Step(CheckpointPut)
  \/ (\E s \in mPend : Step(IntentDelete(s) /\ s = Min(mPend)))
  \/ Step(FlushRet) \/ Step(CloseRet) \/ Step(MissRet)
  \/ ("close" \in OpKinds /\ Op(CloseCall))
  \/ ("missing" \in OpKinds /\ \E id \in Id : Op(UpdMissing(id)))
  \/ (\E b \in BOOLEAN : Flt(AddWmFail(b)) \/ Flt(AddDocFail(b)) \/ Flt(IntentFail(nextSeq, b)))
  \/ Step(AddCompDelete) \/ Step(FailRet)
  \/ (Crash /\ crashes < MaxCrash /\ crashes' = crashes + 1 /\ UNCHANGED <<nops, faults>>)
  \/ Step(OpenLoad) \/ (\E i \in Index : Step(CbCreateIndex(i)))
  \/ (\E j \in Removable : Step(CbRemoveIndex(j)))
  \/ Step(OpenReplay)

MCSpec == MCInit /\ [][MCNext]_mcvars

\* recovery converges: from a crashed state, without further crashes, the handle becomes idle
Converges == (pc = "down") ~> Idle
Fair == WF_mcvars(MCNext)
MCLiveSpec == MCSpec /\ Fair
=============================================================================
