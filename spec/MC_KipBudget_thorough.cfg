CONSTANT N = 6
SPECIFICATION Spec
INVARIANT Laws
INVARIANT Emit
CHECK_DEADLOCK FALSE
