CONSTANT N = 7
SPECIFICATION Spec
INVARIANT Laws
INVARIANT Emit
CHECK_DEADLOCK FALSE
