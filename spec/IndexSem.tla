------------------------------ MODULE IndexSem ------------------------------
(***************************************************************************)
(* Set-level semantics of the three index families of anda_db, shared by   *)
(* Collection.tla (crash/recovery) and CollectionConc.tla (concurrency).   *)
(* Documents are abstract values v \in Val; what each index derives from a *)
(* value is given by the constant Terms.  An index of kind                 *)
(*   "btu"/"bt" (unique / plain B-tree) is a set p of <<id, key>>,         *)
(*   "bm"  (BM25) is (h, p): ids with a token-length entry + postings,     *)
(*   "hn"  (HNSW) is h: the set of node ids.                               *)
(***************************************************************************)
EXTENDS Naturals, Integers, FiniteSets, Sequences, FiniteSetsExt

CONSTANTS
  MaxId,      \* ids are 1..MaxId
  Val,        \* abstract document values (a set of positive integers)
  Index,      \* set of index names
  Kind,       \* [Index -> {"btu","bt","bm","hn"}]
  Terms       \* [Index -> [Val -> SUBSET Nat]]  keys / tokens derived from a value ({} = null / no text)

Id == 1..MaxId
NoDoc == 0
EmptyIdx == [h |-> {}, p |-> {}]
Max2(a, b) == IF a >= b THEN a ELSE b
MaxOf(S) == IF S = {} THEN 0 ELSE Max(S)

---------------------------------------------------------------------------
(* Index semantics (rs/anda_db_btree insert/remove, rs/anda_db_tfs         *)
(* insert/remove, rs/anda_db_hnsw insert/remove), at set level.            *)

PairsOf(id, ts) == {<<id, t>> : t \in ts}

\* can `id` insert terms ts into index i with content x ?
CanInsert(i, x, id, ts) ==
  CASE Kind[i] = "btu" -> \A t \in ts : \A q \in x.p : q[2] = t => q[1] = id
    [] Kind[i] = "bt"  -> TRUE
    [] Kind[i] = "bm"  -> id \notin x.h /\ ts # {}       \* AlreadyExists / TokenizeFailed
    [] Kind[i] = "hn"  -> id \notin x.h

Ins(i, x, id, ts) ==
  CASE Kind[i] \in {"btu", "bt"} -> [x EXCEPT !.p = @ \cup PairsOf(id, ts)]
    [] Kind[i] = "bm" -> [h |-> x.h \cup {id}, p |-> x.p \cup PairsOf(id, ts)]
    [] Kind[i] = "hn" -> [x EXCEPT !.h = @ \cup {id}]

Rem(i, x, id, ts) ==
  CASE Kind[i] \in {"btu", "bt"} -> [x EXCEPT !.p = @ \ PairsOf(id, ts)]
    [] Kind[i] = "bm" -> [h |-> x.h \ {id}, p |-> x.p \ PairsOf(id, ts)]
    [] Kind[i] = "hn" -> [x EXCEPT !.h = @ \ {id}]

\* does a document value take part in index i at all?  (null key / no text / no vector: skipped)
Indexed(i, v) == IF Kind[i] = "hn" THEN TRUE ELSE Terms[i][v] # {}

\* best-effort insert used by recovery (errors are logged, not propagated)
TryIns(i, x, id, v) ==
  IF Indexed(i, v) /\ CanInsert(i, x, id, Terms[i][v]) THEN Ins(i, x, id, Terms[i][v]) ELSE x

\* value-keyed removal used by recovery and remove (null values are skipped; HNSW removes by id)
RemVal(i, x, id, v) ==
  IF Kind[i] = "hn" THEN Rem(i, x, id, {})
  ELSE IF Indexed(i, v) THEN Rem(i, x, id, Terms[i][v]) ELSE x

\* what a query can observe of an index
Obs(i, x) ==
  CASE Kind[i] \in {"btu", "bt"} -> x.p
    [] Kind[i] = "bm" -> {q \in x.p : q[1] \in x.h}
    [] Kind[i] = "hn" -> {<<id, 0>> : id \in x.h}

\* what index i must answer for a document map
Derive(i, docs) ==
  IF Kind[i] = "hn" THEN {<<id, 0>> : id \in {d \in Id : docs[d] # NoDoc}}
  ELSE UNION {PairsOf(id, Terms[i][docs[id]]) : id \in {d \in Id : docs[d] # NoDoc}}

LiveIds(docs) == {id \in Id : docs[id] # NoDoc}

=============================================================================
