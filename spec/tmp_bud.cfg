CONSTANT Tier = "quick"
CONSTANT Fams = {"bud"}
SPECIFICATION Spec
INVARIANT Laws
INVARIANT Emit
CHECK_DEADLOCK FALSE
