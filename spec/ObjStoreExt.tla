---------------------------- MODULE ObjStoreExt ----------------------------
(***************************************************************************)
(* C07, second part of the reference semantics (extends ObjStore.tla):     *)
(*   - multipart uploads: complete = an overwrite commit with a fresh      *)
(*     token, abort = nothing happened;                                    *)
(*   - the full precondition algebra of get / head (RFC 9110 as            *)
(*     object_store implements it): if_match / if_none_match with "*",     *)
(*     single tokens and comma separated LISTS, if_unmodified_since /      *)
(*     if_modified_since relative to the commit's timestamp, and the       *)
(*     precedence rules when they are combined (a date condition is        *)
(*     ignored when its tag condition is present; the match side is        *)
(*     evaluated before the none-match side);                              *)
(*   - the listing variants over NESTED keys: list(prefix),                *)
(*     list_with_offset(prefix, offset), list_with_delimiter(prefix):      *)
(*     prefixes match whole path parts (the key "ab" is not under "a",     *)
(*     the key "a" is not under "a"), offsets compare the path strings     *)
(*     byte-wise, common prefixes are one part longer than the prefix.     *)
(* These are OBSERVATIONS: pure functions of the state, evaluated as a     *)
(* battery in every reachable state.                                       *)
(***************************************************************************)
EXTENDS ObjStore, SequencesExt

CONSTANTS
  Parts,   \* [path string -> sequence of its parts]   (every key)
  Rank     \* [path string -> Nat]  byte-wise order of path strings (every key and every offset used)

DoX(s, c) == Do(s, c)       \* multipart complete / abort are calls of ObjStore.tla

---------------------------------------------------------------------------
(* preconditions.  A condition is a record                                 *)
(*   [im, inm : NoneT | StarT | non-empty sequence of token references,     *)
(*    ius, ims : "none" | "before" | "at" | "after"]   (date relative to   *)
(*   the timestamp of the key's current commit)                            *)
NoneT == <<>>
StarT == <<-5>>
NoCond == [im |-> NoneT, inm |-> NoneT, ius |-> "none", ims |-> "none"]
IsList(x) == x # NoneT /\ x # StarT
Matches(s, k, refs) == \E i \in 1..Len(refs) : Resolve(s, refs[i], k) = s.obj[k].tok

CondClass(s, k, c) ==
  IF ~Exists(s, k) THEN "notfound"
  ELSE LET imFail  == IsList(c.im) /\ ~Matches(s, k, c.im)
           iusFail == c.im = NoneT /\ c.ius = "before"            \* modified AFTER the date
           inmHit  == c.inm = StarT \/ (IsList(c.inm) /\ Matches(s, k, c.inm))
           imsHit  == c.inm = NoneT /\ c.ims \in {"at", "after"}  \* NOT modified after the date
       IN IF imFail \/ iusFail THEN "precondition"
          ELSE IF inmHit \/ imsHit THEN "notmodified" ELSE "ok"

---------------------------------------------------------------------------
(* listings *)
IsUnder(k, pp) == Len(Parts[k]) > Len(pp) /\ SubSeq(Parts[k], 1, Len(pp)) = pp
Entry(s, k) == <<k, s.obj[k].val, s.obj[k].tok>>
Under(s, pp) == {k \in Keys : Exists(s, k) /\ IsUnder(k, pp)}

List(s, pp) == {Entry(s, k) : k \in Under(s, pp)}
ListOffset(s, pp, off) == {Entry(s, k) : k \in {x \in Under(s, pp) : Rank[x] > Rank[off]}}
ListDelim(s, pp) ==
  [objects  |-> {Entry(s, k) : k \in {x \in Under(s, pp) : Len(Parts[x]) = Len(pp) + 1}},
   prefixes |-> {SubSeq(Parts[x], 1, Len(pp) + 1) : x \in {y \in Under(s, pp) : Len(Parts[y]) > Len(pp) + 1}}]

---------------------------------------------------------------------------
(* an observation o and what it returns in state s *)
Obs(s, o) ==
  CASE o[1] = "cond" ->        \* <<"cond", "get" | "head", k, c>>
         LET cl == CondClass(s, o[3], o[4]) IN
         IF cl = "ok" THEN R("ok", s.obj[o[3]].val, s.obj[o[3]].tok) ELSE R(cl, 0, 0)
    [] o[1] = "list"        -> [r |-> "ok", items |-> List(s, o[2])]
    [] o[1] = "list_offset" -> [r |-> "ok", items |-> ListOffset(s, o[2], o[3])]
    [] o[1] = "list_delim"  -> [r |-> "ok", items |-> ListDelim(s, o[2]).objects, prefixes |-> ListDelim(s, o[2]).prefixes]
=============================================================================
