----------------------------- MODULE Bm25Trace -----------------------------
(***************************************************************************)
(* C11: trace validation of the real BM25Index (harness/src/bin/           *)
(* drive_bm25.rs) against Bm25.tla, plus the manifest flush protocol (the  *)
(* design is Manifest.tla; here the durable side is tracked directly from  *)
(* the DECODED bucket objects):                                            *)
(*  - every mutation returns what the model returns, and afterwards every  *)
(*    single-term search, every document length and len() are the model's; *)
(*  - every recorded search (boolean trees, every k, several BM25          *)
(*    parameter sets incl. non-finite / negative) returns exactly Sem(q)   *)
(*    cut to k, ordered by finite non-negative scores with ties by id, and *)
(*    the top-k list is a prefix of the top-(k+1) list;                    *)
(*  - a bucket write never overwrites an object the durable manifest       *)
(*    names; the manifest commit makes exactly the in-memory state         *)
(*    loadable; obsolete deletions touch unreferenced objects only; a cold *)
(*    load after EVERY durable write / deletion / crash returns what the   *)
(*    objects named by the durable manifest hold (LoadedVis, LoadedDt),    *)
(*    which the invariant LoadIsCommitted pins to the last commit.         *)
(***************************************************************************)
EXTENDS Bm25, Json, IOUtils, TLC, TLCExt

Rec == ndJsonDeserialize(IOEnv.TRACE)
SeqToSet(s) == {s[j] : j \in 1..Len(s)}
Hdr == Rec[1]
TrTok == 1..Hdr.nt
TrIds == 1..Hdr.ni
TrSweep == Hdr.sweep
Buckets == 0..Hdr.maxb

\* a pre-manifest (legacy) bucket object has generation 0 in the code; 0 means "not in the manifest" here
Leg == 1000000
G(g) == IF g = 0 THEN Leg ELSE g

VARIABLES l,
  obj,      \* durable bucket objects: function on a growing set of <<b, g>> -> [p : set of entries, d : [Ids -> len]]
  dMan,     \* durable manifest [Buckets -> generation, 0 = absent]
  cvis, cdt,\* ghost: what was visible / the lengths at the last manifest commit
  writing,  \* generation of the flush in progress (0 = none)
  last      \* the previous search event (for the prefix law)
tvars == <<bvars, l, obj, dMan, cvis, cdt, writing, last>>
Ev == Rec[l]
IsEv(e) == l <= Len(Rec) /\ Ev.e = e /\ l' = l + 1

BagOf(a) == [t \in Tok |-> a[t]]
VisNow == [t \in Tok |-> Visible(t)]
ObsVis(v) == [t \in Tok |-> SeqToSet(v[t])]
ObsDt(d) == [i \in Ids |-> d[i]]

\* what a loader reconstructs from the objects the durable manifest names
Named == {b \in Buckets : dMan[b] # 0}
LoadedDtOf(o, m) == [i \in Ids |-> IF \E b \in {c \in Buckets : m[c] # 0} : o[<<b, m[b]>>].d[i] # 0
                                   THEN LET b == CHOOSE b \in {c \in Buckets : m[c] # 0} : o[<<b, m[b]>>].d[i] # 0
                                        IN o[<<b, m[b]>>].d[i]
                                   ELSE 0]
LoadedPostOf(o, m) ==
  LET all == UNION {o[<<b, m[b]>>].p : b \in {c \in Buckets : m[c] # 0}}
      d == LoadedDtOf(o, m)
  IN {e \in all : d[e[2]] # 0}               \* entries without a length anywhere are pruned
\* a length is only kept for documents that some posting mentions
LoadedDt2(o, m) == LET p == LoadedPostOf(o, m) d == LoadedDtOf(o, m)
                   IN [i \in Ids |-> IF \E e \in p : e[2] = i THEN d[i] ELSE 0]
LoadedVisOf(o, m) == LET p == LoadedPostOf(o, m) d == LoadedDt2(o, m) IN [t \in Tok |-> VisibleOf(p, d, t)]

TrReset ==
  /\ IsEv("reset")
  /\ dt' = [i \in Ids |-> 0] /\ post' = {} /\ cur' = [i \in Ids |-> NoText] /\ stale' = {}
  /\ obj' = << >> /\ dMan' = [b \in Buckets |-> 0]
  /\ cvis' = [t \in Tok |-> {}] /\ cdt' = [i \in Ids |-> 0] /\ writing' = 0 /\ last' = [q |-> <<>>]

ObsMatches(ev) ==
  /\ ObsVis(ev.vis) = [t \in Tok |-> Visible(t)']
  /\ ObsDt(ev.dt) = dt'
  /\ ev.n = Cardinality({i \in Ids : dt'[i] # 0})

TrOp ==
  /\ IsEv("op") /\ writing = 0
  /\ CASE Ev.op = "insert" -> Ev.ret = InsertRet(Ev.id, BagOf(Ev.bag)) /\ Insert(Ev.id, BagOf(Ev.bag))
       [] Ev.op = "remove" -> Ev.ret = (IF Present(Ev.id) THEN 1 ELSE 0) /\ Remove(Ev.id, BagOf(Ev.bag))
       [] Ev.op = "purge"  -> Ev.ret = Cardinality(SeqToSet(Ev.ids) \cap Docs) /\ Purge(SeqToSet(Ev.ids))
       [] Ev.op = "compact" -> UNCHANGED bvars
  \* calls made by concurrent threads are logged without an observation (noobs); the final one follows
  /\ IF "noobs" \in DOMAIN Ev /\ Ev.noobs THEN TRUE ELSE ObsMatches(Ev)
  /\ UNCHANGED <<obj, dMan, cvis, cdt, writing, last>>

\* the state after concurrent calls (logged in program order; they commute by construction of the scenarios)
TrObs ==
  /\ IsEv("obs")
  /\ ObsVis(Ev.vis) = VisNow /\ ObsDt(Ev.dt) = dt /\ Ev.n = Cardinality(Docs)
  /\ UNCHANGED <<bvars, obj, dMan, cvis, cdt, writing, last>>

\* a recorded search: the retrieval set, the order, the prefix law
TrSearch ==
  /\ IsEv("search")
  /\ LET want == Sem(Ev.q) res == Ev.res IN
     /\ RankOK(res)
     /\ Cardinality(IdsOf(res)) = Len(res)                 \* no duplicates
     /\ IdsOf(res) \subseteq want
     /\ Len(res) = (IF Ev.k < Cardinality(want) THEN Ev.k ELSE Cardinality(want))
     \* same query and parameters as the previous event with k - 1: that list is a prefix of this one
     /\ (last.q = Ev.q /\ last.pi = Ev.pi /\ last.k + 1 = Ev.k => IsPrefix(last.res, res))
     \* repeated queries agree
     /\ (last.q = Ev.q /\ last.pi = Ev.pi /\ last.k = Ev.k => last.res = res)
  /\ last' = [q |-> Ev.q, pi |-> Ev.pi, k |-> Ev.k, res |-> Ev.res]
  /\ UNCHANGED <<bvars, obj, dMan, cvis, cdt, writing>>

TrSnap == IsEv("snap") /\ writing = 0 /\ writing' = Ev.g /\ Ev.g > 0
          /\ UNCHANGED <<bvars, obj, dMan, cvis, cdt, last>>

TrWrite ==
  /\ IsEv("write") /\ writing = Ev.g
  /\ dMan[Ev.b] # Ev.g                                   \* never the object the durable manifest names
  /\ obj' = (<<Ev.b, Ev.g>> :> [p |-> {<<Ev.p[j][1], Ev.p[j][2], Ev.p[j][3]>> : j \in 1..Len(Ev.p)},
                                d |-> ObsDt(Ev.d)]) @@ obj
  /\ UNCHANGED <<bvars, dMan, cvis, cdt, writing, last>>

ManOf(m) == [b \in Buckets |-> IF \E j \in 1..Len(m) : m[j][1] = b
                               THEN G(m[CHOOSE j \in 1..Len(m) : m[j][1] = b][2]) ELSE 0]

\* THE commit point: what becomes loadable is exactly the in-memory state
TrCommit ==
  /\ IsEv("commit") /\ writing # 0
  /\ LET m == ManOf(Ev.man) IN
     /\ \A b \in Buckets : m[b] # 0 => <<b, m[b]>> \in DOMAIN obj
     /\ LoadedVisOf(obj, m) = VisNow
     /\ LoadedDt2(obj, m) = dt
     /\ dMan' = m
  /\ cvis' = VisNow /\ cdt' = dt
  /\ UNCHANGED <<bvars, obj, writing, last>>

TrFret ==
  /\ IsEv("fret") /\ writing # 0 /\ writing' = 0
  \* every object reported obsolete is unreferenced now
  /\ \A j \in 1..Len(Ev.obsolete) : dMan[Ev.obsolete[j][1]] # G(Ev.obsolete[j][2])
  /\ UNCHANGED <<bvars, obj, dMan, cvis, cdt, last>>

TrDelete ==
  /\ IsEv("delete")
  /\ dMan[Ev.b] # G(Ev.g)
  /\ obj' = [o \in DOMAIN obj \ {<<Ev.b, G(Ev.g)>>} |-> obj[o]]
  /\ UNCHANGED <<bvars, dMan, cvis, cdt, writing, last>>

TrFnoop == IsEv("fnoop") /\ writing = 0 /\ LoadedVisOf(obj, dMan) = VisNow /\ LoadedDt2(obj, dMan) = dt
           /\ UNCHANGED <<bvars, obj, dMan, cvis, cdt, writing, last>>
TrFfail == IsEv("ffail") /\ writing' = 0 /\ UNCHANGED <<bvars, obj, dMan, cvis, cdt, last>>
TrFend == IsEv("fend") /\ UNCHANGED <<bvars, obj, dMan, cvis, cdt, writing, last>>

TrLoad ==
  /\ IsEv("load") /\ Ev.ok
  /\ ObsVis(Ev.vis) = LoadedVisOf(obj, dMan)
  /\ ObsDt(Ev.dt) = LoadedDt2(obj, dMan)
  /\ UNCHANGED <<bvars, obj, dMan, cvis, cdt, writing, last>>

\* the live index is replaced by a cold load; the ghost text of what survives is the committed one
TrCrash ==
  /\ IsEv("crash")
  /\ post' = LoadedPostOf(obj, dMan) /\ dt' = LoadedDt2(obj, dMan)
  /\ cur' = [i \in Ids |-> IF dt'[i] # 0 THEN [t \in Tok |-> IF \E e \in post' : e[1] = t /\ e[2] = i
                                                              THEN (CHOOSE e \in post' : e[1] = t /\ e[2] = i)[3] ELSE 0]
                           ELSE NoText]
  /\ ObsVis(Ev.vis) = [t \in Tok |-> Visible(t)'] /\ ObsDt(Ev.dt) = dt'
  /\ stale' = {}                          \* in-memory only; loading pruned the entries of absent documents
  /\ writing' = 0
  /\ UNCHANGED <<obj, dMan, cvis, cdt, last>>

\* restart from the same content laid out as a pre-manifest release left it
TrLegacy ==
  /\ IsEv("legacy") /\ writing = 0
  /\ LET named == {b \in Buckets : dMan[b] # 0} IN
     /\ obj' = [p \in {<<b, Leg>> : b \in named} |-> obj[<<p[1], dMan[p[1]]>>]]
     /\ dMan' = [b \in Buckets |-> IF b \in named THEN Leg ELSE 0]
  /\ post' = LoadedPostOf(obj, dMan) /\ dt' = LoadedDt2(obj, dMan) /\ stale' = {}
  /\ cur' = [i \in Ids |-> IF dt'[i] # 0 THEN [t \in Tok |-> IF \E e \in post' : e[1] = t /\ e[2] = i
                                                              THEN (CHOOSE e \in post' : e[1] = t /\ e[2] = i)[3] ELSE 0]
                           ELSE NoText]
  /\ ObsVis(Ev.vis) = [t \in Tok |-> Visible(t)'] /\ ObsDt(Ev.dt) = dt'
  /\ UNCHANGED <<cvis, cdt, writing, last>>

TraceInit ==
  /\ Init /\ l = 2 /\ obj = << >> /\ dMan = [b \in Buckets |-> 0]
  /\ cvis = [t \in Tok |-> {}] /\ cdt = [i \in Ids |-> 0] /\ writing = 0 /\ last = [q |-> <<>>]
TraceNext == TrReset \/ TrOp \/ TrObs \/ TrSearch \/ TrSnap \/ TrWrite \/ TrCommit \/ TrFret \/ TrDelete \/ TrFnoop
             \/ TrFfail \/ TrFend \/ TrLoad \/ TrCrash \/ TrLegacy
TraceSpec == TraceInit /\ [][TraceNext]_tvars

\* loading what any prefix of a flush left behind yields exactly the last committed snapshot
LoadIsCommitted == LoadedVisOf(obj, dMan) = cvis /\ LoadedDt2(obj, dMan) = cdt

TraceAccepted ==
  LET d == TLCGet("stats").diameter IN
  IF d = Len(Rec) THEN TRUE
  ELSE /\ PrintT(<<"TRACE_REJECTED", d + 1, ToJson(Rec[d + 1])>>)
       /\ FALSE
=============================================================================
