------------------------------ MODULE NexusTx ------------------------------
(***************************************************************************)
(* C17: what ONE KML statement may do to a space, whatever its clauses     *)
(* mean (rs/anda_cognitive_nexus: kml/mod.rs execute, tx.rs commit /       *)
(* abort, store/space.rs journal).  The state is everything a query, a     *)
(* meta command or a historical read can observe:                          *)
(*   elems   : element -> [ver, st, dg]  (version, engine state, digest of *)
(*             the whole stored row; ver = 0: no such element)             *)
(*   journal : the sequence numbers of the committed statements            *)
(*   vlog    : element -> the versions recorded in the version log         *)
(*   tuples / keys : proposition tuple -> element, (type, key) -> concept  *)
(*   seq     : the space's sequence counter (may skip)                     *)
(*                                                                         *)
(* Refuse / DryRun : nothing changes, only seq may advance.                *)
(* Commit(s, changed, created, purged) : one journal entry with a fresh s  *)
(*   greater than all earlier ones; every changed element goes up by       *)
(*   exactly one version and gets one version-log row, created elements    *)
(*   start at version 1, everything else is byte-identical; a purged       *)
(*   element becomes a stub and loses its version log.                     *)
(***************************************************************************)
EXTENDS Naturals, FiniteSets, Sequences

CONSTANTS Elem, MaxVer, MaxSeq

Absent == [ver |-> 0, st |-> 0, dg |-> 0]
Purged == 6
Pending == 7

VARIABLES elems, journal, vlog, seq
nvars == <<elems, journal, vlog, seq>>

Init == elems = [e \in Elem |-> Absent] /\ journal = {} /\ vlog = [e \in Elem |-> {}] /\ seq = 0

Present == {e \in Elem : elems[e].ver # 0}
MaxJournal == IF journal = {} THEN 0 ELSE CHOOSE s \in journal : \A t \in journal : t <= s

Refuse ==
  /\ seq' \in seq..MaxSeq
  /\ UNCHANGED <<elems, journal, vlog>>

\* the relation a committed statement must satisfy between the state before and after
CommitOK(s, purges) ==
  /\ s > MaxJournal /\ s > seq /\ seq' = s                      \* fresh, greater than every earlier number
  /\ journal' = journal \cup {s}                                 \* exactly one journal entry
  /\ \A e \in Elem :
       LET a == elems[e] b == elems'[e] IN
       \/ a = b /\ vlog'[e] = vlog[e]                            \* untouched: byte-identical
       \/ /\ a.ver = 0 /\ b.ver = 1 /\ vlog'[e] = {1}            \* created at version 1
          /\ b.st # Pending
       \/ /\ a.ver # 0 /\ b.ver = a.ver + 1                      \* changed: exactly one version up,
          /\ b.st # Pending
          /\ IF purges /\ b.st = Purged THEN vlog'[e] \subseteq {b.ver}     \* (a purge destroys the past)
             ELSE vlog'[e] = vlog[e] \cup {b.ver}                \* one new version-log row

---------------------------------------------------------------------------
(* C17 invariants on every observable state *)
\* nothing a reader can see is a leftover of an unfinished statement
NoPendingShell == \A e \in Present : elems[e].st # Pending
\* the version log has one row per version (unless purged)
VersionLogComplete == \A e \in Present : elems[e].st # Purged => vlog[e] = 1..elems[e].ver
\* the journal numbers never exceed the counter
JournalBelowSeq == \A s \in journal : s <= seq
=============================================================================
