CONSTANTS
  Keys = {"a", "a/b"}
  Vals = {1, 2}
  N = 2
  Tier = "quick"
  Family = "conc"
SPECIFICATION MCSpec
INVARIANT Emit
CHECK_DEADLOCK FALSE
