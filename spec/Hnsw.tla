-------------------------------- MODULE Hnsw --------------------------------
(***************************************************************************)
(* C12, persistence side: the vector index (rs/anda_db_hnsw/src/hnsw.rs)   *)
(* at set level.  A vector is an integer TAG (> 0); an id holds at most    *)
(* one.                                                                    *)
(*   live  : id -> tag held in memory (0 = absent)                         *)
(*   tomb  : tombstones (removed ids whose blob has not been purged)       *)
(*   dirty : ids whose blob is stale                                       *)
(*   blob  : durable node blobs  id -> tag (0 = none)                      *)
(*   dIds  : the durable ids object;  dTomb : tombstones in the durable    *)
(*           metadata;  hasMeta : a metadata object exists                 *)
(* flush  = snapshot ; node blobs of the dirty ids ; ids ; metadata        *)
(*          (the commit of the tombstone list) ; commit in memory.         *)
(* purge  = for every tombstone that is NOT live: delete its blob, retire  *)
(*          the tombstone (made durable by the next metadata write).       *)
(* load   = ids from dIds that have a blob, each with its blob's vector;   *)
(*          tombstones from the durable metadata.                          *)
(* A loader may see a MIXTURE of two generations (C12 says so: recall is   *)
(* only promised after re-indexing); what must hold is                     *)
(*   Provenance : every loaded (id, tag) is a vector the id really held;   *)
(*   CommitExact: a completed flush makes exactly its snapshot loadable;   *)
(*   NoLiveBlobLost : purge never deletes the blob of a live id, so a      *)
(*                completed flush + purge + load returns exactly `live`.   *)
(***************************************************************************)
EXTENDS Naturals, FiniteSets

CONSTANTS Ids, MaxTag

VARIABLES live, tomb, dirty, blob, dIds, dTomb, hasMeta, fl, cmt, nextTag, want, ever
hvars == <<live, tomb, dirty, blob, dIds, dTomb, hasMeta, fl, cmt, nextTag, want, ever>>

None == [i \in Ids |-> 0]
Idle == [st |-> "idle"]

Init ==
  /\ live = None /\ tomb = {} /\ dirty = {} /\ blob = None /\ dIds = {} /\ dTomb = {} /\ hasMeta = FALSE
  /\ fl = Idle /\ cmt = None /\ nextTag = 1 /\ want = None /\ ever = [i \in Ids |-> {}]

Held == {i \in Ids : live[i] # 0}

\* `want` is what the application's documents say (it survives crashes; recovery re-indexes towards it)
\* a mutation may cross the I/O window of a flush; the flush then must not retire any dirty mark
Crossed == IF fl.st = "idle" THEN fl ELSE [fl EXCEPT !.crossed = TRUE]
Insert(i) ==
  /\ live[i] = 0 /\ nextTag <= MaxTag /\ fl' = Crossed
  /\ live' = [live EXCEPT ![i] = nextTag] /\ want' = [want EXCEPT ![i] = nextTag]
  /\ tomb' = tomb \ {i}                      \* a re-inserted id owns a new blob: its tombstone is obsolete
  /\ dirty' = dirty \cup {i} /\ nextTag' = nextTag + 1
  /\ ever' = [ever EXCEPT ![i] = @ \cup {nextTag}]
  /\ UNCHANGED <<blob, dIds, dTomb, hasMeta, cmt>>

Remove(i) ==
  /\ live[i] # 0 /\ fl' = Crossed
  /\ live' = [live EXCEPT ![i] = 0] /\ want' = [want EXCEPT ![i] = 0]
  /\ tomb' = tomb \cup {i} /\ dirty' = dirty \ {i}
  /\ UNCHANGED <<blob, dIds, dTomb, hasMeta, cmt, nextTag, ever>>

\* neighbours of a changed node are rewritten as well: any set of live ids may be dirty
Touch(S) ==
  /\ fl.st = "idle" /\ S \subseteq Held
  /\ dirty' = dirty \cup S
  /\ UNCHANGED <<live, tomb, blob, dIds, dTomb, hasMeta, fl, cmt, nextTag, want, ever>>

FlushSnapshot ==
  /\ fl.st = "idle"
  /\ fl' = [st |-> "nodes", todo |-> dirty \cap Held, snap |-> live, tomb |-> tomb, ids |-> Held, dirty |-> dirty,
            crossed |-> FALSE]
  /\ UNCHANGED <<live, tomb, dirty, blob, dIds, dTomb, hasMeta, cmt, nextTag, want, ever>>

WriteNode(i) ==
  /\ fl.st = "nodes" /\ i \in fl.todo
  /\ blob' = [blob EXCEPT ![i] = fl.snap[i]]
  /\ fl' = [fl EXCEPT !.todo = @ \ {i}]
  /\ UNCHANGED <<live, tomb, dirty, dIds, dTomb, hasMeta, cmt, nextTag, want, ever>>

WriteIds ==
  /\ fl.st = "nodes" /\ fl.todo = {}
  /\ dIds' = fl.ids /\ fl' = [fl EXCEPT !.st = "ids"]
  /\ UNCHANGED <<live, tomb, dirty, blob, dTomb, hasMeta, cmt, nextTag, want, ever>>

WriteMeta ==
  /\ fl.st = "ids"
  /\ dTomb' = fl.tomb /\ hasMeta' = TRUE /\ fl' = [fl EXCEPT !.st = "meta"]
  /\ cmt' = fl.snap
  /\ UNCHANGED <<live, tomb, dirty, blob, dIds, nextTag, want, ever>>

FlushCommit ==
  /\ fl.st = "meta"
  /\ dirty' = (IF fl.crossed THEN dirty ELSE dirty \ fl.dirty) /\ fl' = Idle
  /\ UNCHANGED <<live, tomb, blob, dIds, dTomb, hasMeta, cmt, nextTag, want, ever>>

FlushFail ==
  /\ fl.st \in {"nodes", "ids"} /\ fl' = Idle
  /\ UNCHANGED <<live, tomb, dirty, blob, dIds, dTomb, hasMeta, cmt, nextTag, want, ever>>

\* purge_removed_nodes, one tombstone: a live id is skipped and its tombstone retired
PurgeSkip(i) ==
  /\ fl.st = "idle" /\ i \in tomb /\ live[i] # 0
  /\ tomb' = tomb \ {i}
  /\ UNCHANGED <<live, dirty, blob, dIds, dTomb, hasMeta, fl, cmt, nextTag, want, ever>>
PurgeDelete(i) ==
  /\ fl.st = "idle" /\ i \in tomb /\ live[i] = 0
  /\ blob' = [blob EXCEPT ![i] = 0] /\ tomb' = tomb \ {i}
  /\ UNCHANGED <<live, dirty, dIds, dTomb, hasMeta, fl, cmt, nextTag, want, ever>>

Loadable == IF hasMeta THEN {i \in dIds : blob[i] # 0} ELSE {}
LoadedLive == [i \in Ids |-> IF i \in Loadable THEN blob[i] ELSE 0]

Crash ==
  /\ live' = LoadedLive /\ tomb' = (IF hasMeta THEN dTomb ELSE {}) /\ dirty' = {}
  /\ fl' = Idle
  /\ UNCHANGED <<blob, dIds, dTomb, hasMeta, cmt, nextTag, want, ever>>

\* recovery replays the unflushed documents: the index is made to agree with `want` again
Reindex ==
  /\ fl.st = "idle" /\ live # want
  /\ live' = want
  /\ tomb' = (tomb \cup {i \in Ids : live[i] # 0 /\ want[i] # live[i]}) \ {i \in Ids : want[i] # 0 /\ want[i] # live[i]}
  /\ dirty' = (dirty \cup {i \in Ids : want[i] # 0 /\ want[i] # live[i]}) \ {i \in Ids : want[i] = 0}
  /\ UNCHANGED <<blob, dIds, dTomb, hasMeta, fl, cmt, nextTag, want, ever>>

---------------------------------------------------------------------------
\* every loadable (id, tag) is a vector that id really held at some time (blobs are rewritten in place and
\* interrupted flushes leave theirs behind, so a loader may see a mixture of generations - never garbage)
Provenance == \A i \in Loadable : blob[i] \in ever[i]
\* a flush that completed makes exactly the snapshot loadable
CommitExact == fl.st = "meta" => LoadedLive = fl.snap
\* quiescent and clean: a load returns exactly what memory holds
DurableExact ==
  (fl.st = "idle" /\ dirty = {} /\ hasMeta /\ dIds = Held) => LoadedLive = live
\* the blob of a live, clean id is there with the vector the id holds
NoLiveBlobLost ==
  fl.st = "idle" => \A i \in Held : i \notin dirty => blob[i] = live[i]
=============================================================================
