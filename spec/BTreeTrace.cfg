CONSTANTS
  Keys <- TrKeys
  Ids <- TrIds
  Buckets <- TrBuckets
  MaxVersion <- TrMaxVersion
SPECIFICATION TraceSpec
INVARIANT LoadIsCommitted
INVARIANT ReferencedExist
INVARIANT CleanBucketsDurable
INVARIANT NoDuplicateHomes
POSTCONDITION TraceAccepted
CHECK_DEADLOCK FALSE
