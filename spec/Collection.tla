----------------------------- MODULE Collection -----------------------------
(***************************************************************************)
(* anda_db Collection: documents, id bitmap, derived indexes, mutation     *)
(* intents (WAL), allocation watermark, checkpoint, flush protocol,        *)
(* extensions, index creation/removal in the open callback, crash and      *)
(* recovery - at the granularity of ONE ACTION PER OBJECT-STORE MUTATION   *)
(* (the grain at which a power loss can hit the implementation).           *)
(*                                                                         *)
(* Anchors: rs/anda_db/src/collection.rs  add_impl / update_impl /         *)
(* remove_impl / flush_inner / store_metadata(_unclaimed) / open /         *)
(* replay_mutation_intents / reconcile_mutation_intents /                  *)
(* auto_repair_indexes / repair_document / create_*_index /                *)
(* cleanup_removed_index.                                                  *)
(*                                                                         *)
(* Used three ways (DESIGN.md 2): exhaustively by TLC (MC_Collection),     *)
(* as the oracle of trace validation (CollectionTrace), as generator of    *)
(* workloads with crash points for replay.                                 *)
(*                                                                         *)
(* Documents are abstract values v \in Val; what each index derives from a *)
(* value is given by the constant Terms.  An index of kind                 *)
(*   "btu"/"bt" (unique / plain B-tree) is a set p of <<id, key>>,         *)
(*   "bm"  (BM25) is (h, p): ids with a token-length entry + postings,     *)
(*   "hn"  (HNSW) is h: the set of node ids.                               *)
(* B-tree/BM25 flushes are atomic snapshot commits here; that abstraction  *)
(* is discharged by Manifest.tla (C10/C11).                                *)
(***************************************************************************)
EXTENDS IndexSem

CONSTANTS
  Removable,  \* set of index names the open callback removes (remove_*_index) after creating the wanted ones
  InitIdx,    \* indexes registered (and flushed, empty) when the behaviour starts
  Wanted,     \* sequence of index names the open callback creates if missing (create_*_index_nx)
  Stride,     \* allocation watermark stride (64 in the code)
  FlushOnCreate \* TRUE: create_*_index persists the backfilled index before it is registered


VARIABLES
  \* ---- durable (object store) ----
  dDoc,     \* [Id -> Val \cup {NoDoc}]          data/<id>.cbor
  dMeta,    \* [maxId, idx, ext]                 meta.cbor  (idx = registered index names)
  dIds,     \* SUBSET Id                         ids.cbor
  dCP,      \* Nat                               storage_meta.cbor check_point
  dWM,      \* Nat                               alloc_watermark.cbor
  dInt,     \* set of [seq, id, prev, post]      mutation_intents/<seq>.cbor
  dIdx,     \* [Index -> [h, p]]                 last committed snapshot of every index
  \* ---- volatile (the live handle) ----
  up,       \* handle is Active
  mIds, mIdx, mMaxId, mIdxSet, mExt, mWM, mPend,
  dirtyMeta,  \* metadata version > last_saved_version
  dirtyIdx,   \* indexes whose in-memory content differs from their committed snapshot
  \* ---- control ----
  pc,       \* program counter of the (single) process
  cur,      \* locals of the operation in progress
  nextSeq,  \* next mutation-intent sequence number
  \* ---- ghost ----
  ackedIds  \* ids that held a document when some flush/close returned Ok

durable  == <<dDoc, dMeta, dIds, dCP, dWM, dInt, dIdx>>
volatile == <<up, mIds, mIdx, mMaxId, mIdxSet, mExt, mWM, mPend, dirtyMeta, dirtyIdx>>
control  == <<pc, cur, nextSeq>>
vars     == <<durable, volatile, control, ackedIds>>

NoCur == [op |-> "none"]

---------------------------------------------------------------------------
Init ==
  /\ dDoc = [id \in Id |-> NoDoc]
  /\ dMeta = [maxId |-> 0, idx |-> InitIdx, ext |-> 0]
  /\ dIds = {} /\ dCP = 0 /\ dWM = 0 /\ dInt = {}
  /\ dIdx = [i \in Index |-> EmptyIdx]
  /\ up = TRUE
  /\ mIds = {} /\ mIdx = [i \in Index |-> EmptyIdx] /\ mMaxId = 0
  /\ mIdxSet = InitIdx /\ mExt = 0 /\ mWM = 0 /\ mPend = {}
  /\ dirtyMeta = FALSE /\ dirtyIdx = {}
  /\ pc = "idle" /\ cur = NoCur /\ nextSeq = 1
  /\ ackedIds = {}

Idle == up /\ pc = "idle"

\* effect of changing the in-memory indexes: remember which ones now differ from their snapshot
MarkDirty(newIdx) == dirtyIdx' = dirtyIdx \cup {i \in mIdxSet : newIdx[i] # mIdx[i]}

---------------------------------------------------------------------------
(* add(v): allocate id; publish the watermark if needed; index inserts     *)
(* (synchronous, in memory) ; create the document object; register the id. *)

AddCall(v) ==
  /\ Idle /\ mMaxId < MaxId
  /\ mMaxId' = mMaxId + 1
  /\ cur' = [op |-> "add", id |-> mMaxId + 1, val |-> v]
  /\ pc' = IF mMaxId + 1 > mWM THEN "add_wm" ELSE "add_doc"
  /\ UNCHANGED <<durable, up, mIds, mIdx, mIdxSet, mExt, mWM, mPend, dirtyMeta, dirtyIdx, nextSeq, ackedIds>>

AddWmPut ==
  /\ up /\ pc = "add_wm"
  /\ dWM' = Max2(mMaxId, cur.id) + Stride
  /\ mWM' = Max2(mWM, dWM')
  /\ pc' = "add_doc"
  /\ UNCHANGED <<dDoc, dMeta, dIds, dCP, dInt, dIdx, up, mIds, mIdx, mMaxId, mIdxSet, mExt, mPend,
                 dirtyMeta, dirtyIdx, cur, nextSeq, ackedIds>>

\* every index (unique ones first in the code; order is irrelevant for the verdict) accepts the value
AddAccepts(id, v) == \A i \in mIdxSet : Indexed(i, v) => CanInsert(i, mIdx[i], id, Terms[i][v])
\* a value that no index can even tokenize/insert is rejected too (BM25 TokenizeFailed is not modelled separately)

AddDocCreate ==
  /\ up /\ pc = "add_doc" /\ AddAccepts(cur.id, cur.val)
  /\ dDoc[cur.id] = NoDoc                      \* PutMode::Create
  /\ dDoc' = [dDoc EXCEPT ![cur.id] = cur.val]
  /\ LET ni == [i \in Index |-> IF i \in mIdxSet /\ Indexed(i, cur.val)
                                 THEN Ins(i, mIdx[i], cur.id, Terms[i][cur.val]) ELSE mIdx[i]]
     IN mIdx' = ni /\ MarkDirty(ni)
  /\ mIds' = mIds \cup {cur.id}
  /\ dirtyMeta' = TRUE
  /\ pc' = "add_ret"
  /\ UNCHANGED <<dMeta, dIds, dCP, dWM, dInt, dIdx, up, mMaxId, mIdxSet, mExt, mWM, mPend, cur, nextSeq, ackedIds>>

\* rejected: indexes rolled back, id burnt, nothing durable
AddReject ==
  /\ up /\ pc = "add_doc" /\ ~AddAccepts(cur.id, cur.val)
  /\ pc' = "idle" /\ cur' = NoCur
  /\ UNCHANGED <<durable, volatile, nextSeq, ackedIds>>

AddRet ==
  /\ up /\ pc = "add_ret"
  /\ pc' = "idle" /\ cur' = NoCur
  /\ UNCHANGED <<durable, volatile, nextSeq, ackedIds>>

---------------------------------------------------------------------------
(* update(id, v): intent (pre/post image) ; index update ; conditional put *)

UpdAccepts(id, old, v) ==
  \A i \in mIdxSet :
     LET x == RemVal(i, mIdx[i], id, old) IN Indexed(i, v) => CanInsert(i, x, id, Terms[i][v])

UpdCall(id, v) ==
  /\ Idle /\ id \in mIds /\ dDoc[id] # NoDoc      \* (the new value may equal the stored one)
  /\ cur' = [op |-> "update", id |-> id, val |-> v, prev |-> dDoc[id]]
  /\ pc' = "upd_intent"
  /\ UNCHANGED <<durable, volatile, nextSeq, ackedIds>>

\* update of an id the handle does not know: NotFound, nothing happens
UpdMissing(id) ==
  /\ Idle /\ id \notin mIds
  /\ pc' = "miss_ret" /\ cur' = [op |-> "missing"]
  /\ UNCHANGED <<durable, volatile, nextSeq, ackedIds>>

MissRet ==
  /\ up /\ pc = "miss_ret"
  /\ pc' = "idle" /\ cur' = NoCur
  /\ UNCHANGED <<durable, volatile, nextSeq, ackedIds>>

\* the sequence number only has to be free and above every retained intent (replay order); the code
\* derives it from the wall clock and from the retained intents
IntentPut(s) ==
  /\ up /\ pc \in {"upd_intent", "rem_intent"}
  /\ \A r \in dInt : r.seq < s
  /\ dInt' = dInt \cup {[seq |-> s, id |-> cur.id, prev |-> cur.prev,
                         post |-> IF cur.op = "update" THEN cur.val ELSE NoDoc]}
  /\ mPend' = mPend \cup {s}
  /\ nextSeq' = Max2(nextSeq, s + 1)
  /\ pc' = IF cur.op = "update" THEN "upd_doc" ELSE "rem_doc"
  /\ UNCHANGED <<dDoc, dMeta, dIds, dCP, dWM, dIdx, up, mIds, mIdx, mMaxId, mIdxSet, mExt, mWM,
                 dirtyMeta, dirtyIdx, cur, ackedIds>>

UpdDocPut ==
  /\ up /\ pc = "upd_doc" /\ UpdAccepts(cur.id, cur.prev, cur.val)
  /\ dDoc' = [dDoc EXCEPT ![cur.id] = cur.val]
  /\ LET ni == [i \in Index |-> IF i \in mIdxSet
                                 THEN LET x == RemVal(i, mIdx[i], cur.id, cur.prev)
                                      IN IF Indexed(i, cur.val) THEN Ins(i, x, cur.id, Terms[i][cur.val]) ELSE x
                                 ELSE mIdx[i]]
     IN mIdx' = ni /\ MarkDirty(ni)
  /\ dirtyMeta' = TRUE
  /\ pc' = "upd_ret"
  /\ UNCHANGED <<dMeta, dIds, dCP, dWM, dInt, dIdx, up, mIds, mMaxId, mIdxSet, mExt, mWM, mPend, cur, nextSeq, ackedIds>>

\* rejected after the intent was written: indexes restored, intent stays pending until the next flush
UpdReject ==
  /\ up /\ pc = "upd_doc" /\ ~UpdAccepts(cur.id, cur.prev, cur.val)
  /\ pc' = "idle" /\ cur' = NoCur
  /\ UNCHANGED <<durable, volatile, nextSeq, ackedIds>>

UpdRet ==
  /\ up /\ pc = "upd_ret"
  /\ pc' = "idle" /\ cur' = NoCur
  /\ UNCHANGED <<durable, volatile, nextSeq, ackedIds>>

---------------------------------------------------------------------------
(* remove(id): intent ; index removal ; delete the object ; drop the id    *)

RemCall(id) ==
  /\ Idle /\ id \in mIds /\ dDoc[id] # NoDoc
  /\ cur' = [op |-> "remove", id |-> id, prev |-> dDoc[id]]
  /\ pc' = "rem_intent"
  /\ UNCHANGED <<durable, volatile, nextSeq, ackedIds>>

RemMissing(id) == UpdMissing(id)

RemDocDelete ==
  /\ up /\ pc = "rem_doc"
  /\ dDoc' = [dDoc EXCEPT ![cur.id] = NoDoc]
  /\ LET ni == [i \in Index |-> IF i \in mIdxSet THEN RemVal(i, mIdx[i], cur.id, cur.prev) ELSE mIdx[i]]
     IN mIdx' = ni /\ MarkDirty(ni)
  /\ mIds' = mIds \ {cur.id}
  /\ dirtyMeta' = TRUE
  /\ pc' = "rem_ret"
  /\ UNCHANGED <<dMeta, dIds, dCP, dWM, dInt, dIdx, up, mMaxId, mIdxSet, mExt, mWM, mPend, cur, nextSeq, ackedIds>>

RemRet ==
  /\ up /\ pc = "rem_ret"
  /\ pc' = "idle" /\ cur' = NoCur
  /\ UNCHANGED <<durable, volatile, nextSeq, ackedIds>>

---------------------------------------------------------------------------
(* Storage faults on a live handle (the unknown-outcome tier of C01): a    *)
(* backend mutation returns an ERROR and may or may not have been applied  *)
(* (`landed`).  The code distinguishes two kinds of steps:                 *)
(*  - steps after which it POISONS the handle (the document put of an      *)
(*    update, the document delete of a remove, every step of a flush, a    *)
(*    failed compensating delete): the handle is dead, only a reopen       *)
(*    recovers - that is exactly Crash taken after (landed) or instead of  *)
(*    (not landed) the step, so these need no action of their own;         *)
(*  - steps after which the handle stays HEALTHY and the operation just    *)
(*    fails: the watermark put and the document create of an add (the      *)
(*    create is compensated by a delete), and the intent put of an update  *)
(*    or remove.  What they may leave behind - a watermark the handle does *)
(*    not know about, a retained intent nobody will retire before the next *)
(*    reopen - must be harmless: the actions below put these states under  *)
(*    every invariant.                                                     *)

AddWmFail(landed) ==
  /\ up /\ pc = "add_wm"
  /\ dWM' = IF landed THEN Max2(mMaxId, cur.id) + Stride ELSE dWM
  /\ pc' = "fail_ret"
  /\ UNCHANGED <<dDoc, dMeta, dIds, dCP, dInt, dIdx, volatile, cur, nextSeq, ackedIds>>

\* the create failed with something else than AlreadyExists: indexes rolled back, then the object is
\* deleted in case the put did land
AddDocFail(landed) ==
  /\ up /\ pc = "add_doc" /\ AddAccepts(cur.id, cur.val) /\ dDoc[cur.id] = NoDoc
  /\ dDoc' = IF landed THEN [dDoc EXCEPT ![cur.id] = cur.val] ELSE dDoc
  /\ pc' = "add_comp"
  /\ UNCHANGED <<dMeta, dIds, dCP, dWM, dInt, dIdx, volatile, cur, nextSeq, ackedIds>>

AddCompDelete ==
  /\ up /\ pc = "add_comp"
  /\ dDoc' = [dDoc EXCEPT ![cur.id] = NoDoc]
  /\ pc' = "fail_ret"
  /\ UNCHANGED <<dMeta, dIds, dCP, dWM, dInt, dIdx, volatile, cur, nextSeq, ackedIds>>

\* the intent put failed: nothing else was touched; if it landed the intent is retained but the handle
\* does not know it (it is not pending: no flush of this handle retires it)
IntentFail(s, landed) ==
  /\ up /\ pc \in {"upd_intent", "rem_intent"}
  /\ \A r \in dInt : r.seq < s
  /\ dInt' = IF landed
             THEN dInt \cup {[seq |-> s, id |-> cur.id, prev |-> cur.prev,
                              post |-> IF cur.op = "update" THEN cur.val ELSE NoDoc]}
             ELSE dInt
  /\ nextSeq' = Max2(nextSeq, s + 1)
  /\ pc' = "fail_ret"
  /\ UNCHANGED <<dDoc, dMeta, dIds, dCP, dWM, dIdx, volatile, cur, ackedIds>>

FailRet ==
  /\ up /\ pc = "fail_ret"
  /\ pc' = "idle" /\ cur' = NoCur
  /\ UNCHANGED <<durable, volatile, nextSeq, ackedIds>>

---------------------------------------------------------------------------
(* save_extension: the WHOLE in-memory metadata is written by one          *)
(* conditional put that does not claim the flush version                   *)
(* (store_metadata_unclaimed).                                             *)

MemMeta == [maxId |-> mMaxId, idx |-> mIdxSet, ext |-> mExt]

MissingWanted(set) == {n \in 1..Len(Wanted) : Wanted[n] \notin set}
\* indexes created by this callback and not yet persisted
NewDirty == dirtyIdx \cap (mIdxSet \ dMeta.idx)
\* FlushOnCreate: create_*_index persists the backfilled index before the callback goes on, so no
\* metadata write can ever publish a registration whose objects are still empty
CbMayProceed == ~FlushOnCreate \/ NewDirty = {}



ExtCall(x) ==
  /\ Idle
  /\ mExt' = x /\ dirtyMeta' = TRUE
  /\ cur' = [op |-> "ext"]
  /\ pc' = "ext_put"
  /\ UNCHANGED <<durable, up, mIds, mIdx, mMaxId, mIdxSet, mWM, mPend, dirtyIdx, nextSeq, ackedIds>>

UnclaimedMetaPut ==
  /\ up /\ pc \in {"ext_put", "cbrm_put"}
  /\ CbMayProceed
  /\ dMeta' = MemMeta
  /\ pc' = IF pc = "ext_put" THEN "ext_ret" ELSE "open_cb"   \* then the prefix drop: no abstract effect
  /\ UNCHANGED <<dDoc, dIds, dCP, dWM, dInt, dIdx, volatile, cur, nextSeq, ackedIds>>

ExtRet ==
  /\ up /\ pc = "ext_ret"
  /\ pc' = "idle" /\ cur' = NoCur
  /\ UNCHANGED <<durable, volatile, nextSeq, ackedIds>>

---------------------------------------------------------------------------
(* flush / close / the flush that ends every open:                         *)
(*   indexes  ->  meta.cbor (conditional, claims the version)  ->          *)
(*   ids.cbor ->  storage_meta.cbor (checkpoint) -> retire the intents     *)

FlushStart(who) ==
  /\ cur' = [op |-> who, cp |-> 0, metaDone |-> FALSE,
             fast |-> ~dirtyMeta /\ dirtyIdx = {} /\ mPend = {}]
  /\ pc' = "fl_idx"

FlushCall ==
  /\ Idle
  /\ FlushStart("flush")
  /\ UNCHANGED <<durable, volatile, nextSeq, ackedIds>>

\* one index commits its snapshot (bucket writes before it and obsolete deletions after it do not
\* change what a load returns: Manifest.tla).  A clean index may commit again; that changes nothing.
IndexCommit(i) ==
  /\ up /\ i \in mIdxSet
  /\ pc = "fl_idx" \/ (pc = "cmp" /\ cur.i = i) \/ (pc = "open_cb" /\ FlushOnCreate)
  /\ dIdx' = [dIdx EXCEPT ![i] = mIdx[i]]
  /\ dirtyIdx' = dirtyIdx \ {i}
  /\ UNCHANGED <<dDoc, dMeta, dIds, dCP, dWM, dInt, up, mIds, mIdx, mMaxId, mIdxSet, mExt, mWM, mPend,
                 dirtyMeta, control, ackedIds>>

\* compact_*_index(i): exclusive gate, compaction in memory, then the index persists itself
CompactCall(i) ==
  /\ Idle /\ i \in mIdxSet /\ Kind[i] # "hn"
  /\ cur' = [op |-> "compact", i |-> i]
  /\ pc' = "cmp"
  /\ UNCHANGED <<durable, volatile, nextSeq, ackedIds>>

CompactMissing(i) ==
  /\ Idle /\ i \notin mIdxSet
  /\ pc' = "miss_ret" /\ cur' = [op |-> "missing"]
  /\ UNCHANGED <<durable, volatile, nextSeq, ackedIds>>

CompactRet ==
  /\ up /\ pc = "cmp"
  /\ pc' = "idle" /\ cur' = NoCur
  /\ UNCHANGED <<durable, volatile, nextSeq, ackedIds>>

MetaCasPut ==
  /\ up /\ pc = "fl_idx" /\ dirtyIdx = {} /\ dirtyMeta
  /\ dMeta' = MemMeta
  /\ dirtyMeta' = FALSE
  /\ cur' = [cur EXCEPT !.cp = mMaxId, !.metaDone = TRUE]
  /\ pc' = "fl_ids"
  /\ UNCHANGED <<dDoc, dIds, dCP, dWM, dInt, dIdx, up, mIds, mIdx, mMaxId, mIdxSet, mExt, mWM, mPend,
                 dirtyIdx, nextSeq, ackedIds>>

IdsPut ==
  /\ up /\ pc = "fl_ids"
  /\ dIds' = mIds
  /\ pc' = "fl_cp"
  /\ UNCHANGED <<dDoc, dMeta, dCP, dWM, dInt, dIdx, volatile, cur, nextSeq, ackedIds>>

\* Storage::store_metadata may skip the write when neither checkpoint nor timestamp moved
CheckpointPut ==
  /\ up /\ pc = "fl_cp"
  /\ dCP' = Max2(dCP, cur.cp)
  /\ pc' = "fl_int"
  /\ UNCHANGED <<dDoc, dMeta, dIds, dWM, dInt, dIdx, volatile, cur, nextSeq, ackedIds>>

\* the intent-retirement phase is reached: after the checkpoint put, or directly when the checkpoint
\* does not move (the put may be skipped), or when there was no metadata change at all (ids and
\* checkpoint are then not rewritten)
AtIntentPhase ==
  \/ pc = "fl_int"
  \/ (pc = "fl_cp" /\ cur.cp <= dCP)
  \/ (pc = "fl_idx" /\ dirtyIdx = {} /\ ~dirtyMeta)

IntentDelete(s) ==
  /\ up /\ AtIntentPhase /\ s \in mPend
  /\ dInt' = {r \in dInt : r.seq # s}
  /\ mPend' = mPend \ {s}
  /\ pc' = "fl_int"
  /\ UNCHANGED <<dDoc, dMeta, dIds, dCP, dWM, dIdx, up, mIds, mIdx, mMaxId, mIdxSet, mExt, mWM,
                 dirtyMeta, dirtyIdx, cur, nextSeq, ackedIds>>

FlushRet ==
  /\ up /\ AtIntentPhase /\ mPend = {} /\ cur.op \in {"flush", "open"}
  /\ ackedIds' = ackedIds \cup LiveIds(dDoc)
  /\ pc' = "idle" /\ cur' = NoCur
  /\ UNCHANGED <<durable, volatile, nextSeq>>

\* close = the same checkpoint, then the handle is retired; a later open loads from storage
CloseCall ==
  /\ Idle
  /\ FlushStart("close")
  /\ UNCHANGED <<durable, volatile, nextSeq, ackedIds>>

CloseRet ==
  /\ up /\ AtIntentPhase /\ mPend = {} /\ cur.op = "close"
  /\ ackedIds' = ackedIds \cup LiveIds(dDoc)
  /\ up' = FALSE /\ pc' = "down" /\ cur' = NoCur
  /\ mIds' = {} /\ mIdx' = [i \in Index |-> EmptyIdx] /\ mMaxId' = 0 /\ mIdxSet' = {}
  /\ mExt' = 0 /\ mWM' = 0 /\ mPend' = {} /\ dirtyMeta' = FALSE /\ dirtyIdx' = {}
  /\ UNCHANGED <<durable, nextSeq>>

---------------------------------------------------------------------------
(* crash: everything volatile is lost, at any point of anything            *)

Crash ==
  /\ pc # "down"
  /\ up' = FALSE /\ pc' = "down" /\ cur' = NoCur
  /\ mIds' = {} /\ mIdx' = [i \in Index |-> EmptyIdx] /\ mMaxId' = 0 /\ mIdxSet' = {}
  /\ mExt' = 0 /\ mWM' = 0 /\ mPend' = {} /\ dirtyMeta' = FALSE /\ dirtyIdx' = {}
  /\ UNCHANGED <<durable, nextSeq, ackedIds>>

---------------------------------------------------------------------------
(* open: load ; callback (create missing indexes, optionally remove one) ; *)
(* replay intents ; repair scan ; flush                                    *)

OpenLoad ==
  /\ pc = "down"
  /\ up' = TRUE
  /\ mIds' = dIds /\ mMaxId' = dMeta.maxId /\ mIdxSet' = dMeta.idx /\ mExt' = dMeta.ext
  /\ mWM' = Max2(dWM, dMeta.maxId)
  /\ mIdx' = [i \in Index |-> IF i \in dMeta.idx THEN dIdx[i] ELSE EmptyIdx]
  /\ mPend' = {} /\ dirtyMeta' = FALSE /\ dirtyIdx' = {}
  /\ cur' = [op |-> "open", rm |-> Removable]
  /\ pc' = "open_cb"
  /\ UNCHANGED <<durable, nextSeq, ackedIds>>

\* documents the handle currently believes in (backfill streams self.ids())
Backfill(i, ids) ==
  LET RECURSIVE go(_, _)
      go(x, S) == IF S = {} THEN x
                  ELSE LET id == Min(S) IN
                       go(IF dDoc[id] # NoDoc THEN TryIns(i, x, id, dDoc[id]) ELSE x, S \ {id})
  IN go(EmptyIdx, ids)

\* create_*_index_nx(i) for the first wanted index that is not registered:
\* Index::new writes an empty index object (overwriting leftovers), the backfill happens in memory,
\* the registration only in memory (persisted by the next metadata write).
CbCreateIndex(i) ==
  /\ up /\ pc = "open_cb" /\ CbMayProceed
  /\ MissingWanted(mIdxSet) # {} /\ i = Wanted[Min(MissingWanted(mIdxSet))]
  /\ dIdx' = [dIdx EXCEPT ![i] = EmptyIdx]
  /\ mIdx' = [mIdx EXCEPT ![i] = Backfill(i, mIds)]
  /\ mIdxSet' = mIdxSet \cup {i}
  /\ dirtyIdx' = IF mIdx'[i] # EmptyIdx THEN dirtyIdx \cup {i} ELSE dirtyIdx
  /\ dirtyMeta' = TRUE
  /\ UNCHANGED <<dDoc, dMeta, dIds, dCP, dWM, dInt, up, mIds, mMaxId, mExt, mWM, mPend, control, ackedIds>>

\* remove_*_index(j) in the callback: unregister in memory, unclaimed metadata put, drop the prefix
CbRemoveIndex(j) ==
  /\ up /\ pc = "open_cb" /\ CbMayProceed /\ MissingWanted(mIdxSet) = {}
  /\ j \in mIdxSet /\ j \in cur.rm
  /\ mIdxSet' = mIdxSet \ {j}
  /\ mIdx' = [mIdx EXCEPT ![j] = EmptyIdx]
  /\ dirtyIdx' = dirtyIdx \ {j}
  /\ dirtyMeta' = TRUE
  /\ cur' = [cur EXCEPT !.rm = @ \ {j}]
  /\ pc' = "cbrm_put"
  /\ UNCHANGED <<durable, up, mIds, mMaxId, mExt, mWM, mPend, nextSeq, ackedIds>>

\* replay_mutation_intents + reconcile_mutation_intents + auto_repair_indexes, all in memory
Affected == {r.id : r \in dInt}

ReplayRemoveImages(idx) ==
  \* remove every recorded pre/post image of every intent from every index
  LET RECURSIVE go(_, _)
      go(x, S) == IF S = {} THEN x
                  ELSE LET r == CHOOSE q \in S : \A q2 \in S : q.seq <= q2.seq
                           x1 == [i \in Index |-> IF i \in mIdxSet /\ r.prev # NoDoc THEN RemVal(i, x[i], r.id, r.prev) ELSE x[i]]
                           x2 == [i \in Index |-> IF i \in mIdxSet /\ r.post # NoDoc THEN RemVal(i, x1[i], r.id, r.post) ELSE x1[i]]
                       IN go(x2, S \ {r})
  IN go(idx, dInt)

ReplayReconcile(st, S) ==
  \* st = [ids, idx, maxId]; the stored document is authoritative for every affected id
  LET RECURSIVE go(_, _)
      go(s, T) ==
        IF T = {} THEN s
        ELSE LET id == Min(T) IN
             IF dDoc[id] # NoDoc
             THEN LET v == dDoc[id]
                      x1 == [i \in Index |-> IF i \in mIdxSet THEN TryIns(i, RemVal(i, s.idx[i], id, v), id, v) ELSE s.idx[i]]
                  IN go([ids |-> s.ids \cup {id}, idx |-> x1, maxId |-> Max2(s.maxId, id)], T \ {id})
             ELSE LET x1 == [i \in Index |-> IF i \in mIdxSet /\ Kind[i] = "hn" THEN Rem(i, s.idx[i], id, {}) ELSE s.idx[i]]
                  IN go([ids |-> s.ids \ {id}, idx |-> x1, maxId |-> s.maxId], T \ {id})
  IN go(st, S)

RepairScan(st) ==
  \* probe every id in checkpoint+1 .. max(max_document_id, watermark); bounded by MaxId here
  LET hi == Max2(st.maxId, mWM)
      RECURSIVE go(_, _)
      go(s, id) ==
        IF id > hi \/ id > MaxId THEN s
        ELSE IF dDoc[id] = NoDoc THEN go(s, id + 1)
        ELSE LET v == dDoc[id]
                 x1 == [i \in Index |-> IF i \in mIdxSet THEN TryIns(i, s.idx[i], id, v) ELSE s.idx[i]]
             IN go([ids |-> s.ids \cup {id}, idx |-> x1, maxId |-> Max2(s.maxId, id)], id + 1)
  IN go(st, dCP + 1)

OpenReplay ==
  /\ up /\ pc = "open_cb" /\ CbMayProceed /\ MissingWanted(mIdxSet) = {}
  /\ cur.rm \cap mIdxSet = {}
  /\ LET st0 == [ids |-> mIds, idx |-> ReplayRemoveImages(mIdx), maxId |-> mMaxId]
         st1 == IF dInt = {} THEN [st0 EXCEPT !.idx = mIdx] ELSE ReplayReconcile(st0, Affected)
         st2 == RepairScan(st1)
     IN /\ mIds' = st2.ids /\ mIdx' = st2.idx /\ mMaxId' = st2.maxId
        /\ dirtyIdx' = dirtyIdx \cup {i \in mIdxSet : st2.idx[i] # mIdx[i]}
        /\ dirtyMeta' = (dirtyMeta \/ dInt # {} \/ st2.ids # mIds)
  /\ mPend' = {r.seq : r \in dInt}
  /\ nextSeq' = Max2(nextSeq, MaxOf({r.seq : r \in dInt}) + 1)
  /\ FlushStart("open")
  /\ UNCHANGED <<durable, up, mIdxSet, mExt, mWM, ackedIds>>

---------------------------------------------------------------------------
(* What a reopen after a crash in the CURRENT state would produce          *)
(* (Crash ; OpenLoad ; CbCreate* ; OpenReplay composed as one operator).   *)
(* Evaluated as an invariant in every reachable state = at every crash     *)
(* point of every behaviour.                                               *)

Recovered ==
  LET idxSet0 == dMeta.idx
      ids0    == dIds
      \* callback: create the missing wanted indexes by backfilling from ids0
      RECURSIVE cb(_, _)
      cb(s, n) == IF n > Len(Wanted) THEN s
                  ELSE LET i == Wanted[n] IN
                       IF i \in s.set THEN cb(s, n + 1)
                       ELSE LET RECURSIVE bf(_, _)
                                bf(x, S) == IF S = {} THEN x
                                            ELSE LET id == Min(S) IN
                                                 bf(IF dDoc[id] # NoDoc THEN TryIns(i, x, id, dDoc[id]) ELSE x, S \ {id})
                            IN cb([set |-> s.set \cup {i}, idx |-> [s.idx EXCEPT ![i] = bf(EmptyIdx, ids0)]], n + 1)
      s0 == cb([set |-> idxSet0, idx |-> [i \in Index |-> IF i \in idxSet0 THEN dIdx[i] ELSE EmptyIdx]], 1)
      set == s0.set \ Removable
      wm  == Max2(dWM, dMeta.maxId)
      \* replay
      RECURSIVE rmimg(_, _)
      rmimg(x, S) == IF S = {} THEN x
                     ELSE LET r == CHOOSE q \in S : \A q2 \in S : q.seq <= q2.seq
                              x1 == [i \in Index |-> IF i \in set /\ r.prev # NoDoc THEN RemVal(i, x[i], r.id, r.prev) ELSE x[i]]
                              x2 == [i \in Index |-> IF i \in set /\ r.post # NoDoc THEN RemVal(i, x1[i], r.id, r.post) ELSE x1[i]]
                          IN rmimg(x2, S \ {r})
      RECURSIVE recon(_, _)
      recon(s, T) ==
        IF T = {} THEN s
        ELSE LET id == Min(T) IN
             IF dDoc[id] # NoDoc
             THEN LET v == dDoc[id]
                      x1 == [i \in Index |-> IF i \in set THEN TryIns(i, RemVal(i, s.idx[i], id, v), id, v) ELSE s.idx[i]]
                  IN recon([ids |-> s.ids \cup {id}, idx |-> x1, maxId |-> Max2(s.maxId, id)], T \ {id})
             ELSE LET x1 == [i \in Index |-> IF i \in set /\ Kind[i] = "hn" THEN Rem(i, s.idx[i], id, {}) ELSE s.idx[i]]
                  IN recon([ids |-> s.ids \ {id}, idx |-> x1, maxId |-> s.maxId], T \ {id})
      st0 == [ids |-> ids0, idx |-> IF dInt = {} THEN s0.idx ELSE rmimg(s0.idx, dInt), maxId |-> dMeta.maxId]
      st1 == IF dInt = {} THEN st0 ELSE recon(st0, Affected)
      RECURSIVE scan(_, _)
      scan(s, id) ==
        IF id > Max2(s.maxId, wm) \/ id > MaxId THEN s
        ELSE IF dDoc[id] = NoDoc THEN scan(s, id + 1)
        ELSE LET v == dDoc[id]
                 x1 == [i \in Index |-> IF i \in set THEN TryIns(i, s.idx[i], id, v) ELSE s.idx[i]]
             IN scan([ids |-> s.ids \cup {id}, idx |-> x1, maxId |-> Max2(s.maxId, id)], id + 1)
      st2 == scan(st1, dCP + 1)
  IN [ids |-> st2.ids, idx |-> st2.idx, maxId |-> st2.maxId, set |-> set]

---------------------------------------------------------------------------
(* Properties                                                              *)

\* C02 on a live quiescent handle
QuiescentExact ==
  Idle => /\ mIds = LiveIds(dDoc)
          /\ \A i \in mIdxSet : Obs(i, mIdx[i]) = Derive(i, dDoc)

\* C01 + C02 after a crash at THIS point: a reopen finds exactly the stored documents and exact indexes
RecoverableExact ==
  LET r == Recovered IN
  /\ r.ids = LiveIds(dDoc)
  /\ \A i \in r.set : Obs(i, r.idx[i]) = Derive(i, dDoc)

\* C04: a unique index never has two owners for one key - in every state, not only quiescent ones
UniqueHolds ==
  \A i \in mIdxSet : Kind[i] = "btu" =>
     \A q1, q2 \in mIdx[i].p : q1[2] = q2[2] => q1[1] = q2[1]
UniqueDocs ==
  \A i \in Index : Kind[i] = "btu" /\ i \in dMeta.idx =>
     \A a, b \in LiveIds(dDoc) : a # b => Terms[i][dDoc[a]] \cap Terms[i][dDoc[b]] = {}

\* C01: an id acknowledged by a flush is never handed to a different document
IdNotReused ==
  /\ (up /\ pc \notin {"open_cb", "cbrm_put"} => mMaxId >= MaxOf(ackedIds))
  /\ Recovered.maxId >= MaxOf(ackedIds)

\* the reason the repair scan is complete
WatermarkCovers ==
  \A id \in Id : dDoc[id] # NoDoc => id <= Max2(dMeta.maxId, dWM) \/ id \in dIds

\* every document at or below the checkpoint that is not in ids.cbor is covered by an intent
CheckpointCovers ==
  \A id \in Id : id <= dCP /\ dDoc[id] # NoDoc /\ id \notin dIds => id \in Affected

TypeOK ==
  /\ dDoc \in [Id -> Val \cup {NoDoc}]
  /\ dIds \subseteq Id /\ mIds \subseteq Id
  /\ dMeta.idx \subseteq Index /\ mIdxSet \subseteq Index
  /\ dirtyIdx \subseteq Index
=============================================================================
