-------------------------------- MODULE Bm25 --------------------------------
(***************************************************************************)
(* C11: the full-text index (rs/anda_db_tfs/src/bm25.rs) as                *)
(*   dt   : document id -> token count (0 = not indexed)                   *)
(*   post : the PHYSICAL posting entries <<token, id, tf>>                 *)
(*   cur  : ghost - the text (bag of tokens) each indexed id currently has *)
(* A search sees an entry only if its document has a token count           *)
(* (score_term filters postings through doc_tokens).                       *)
(*                                                                         *)
(* insert(id, text)   refuses an id that is present or a text without      *)
(*                    tokens; otherwise records the length and one entry   *)
(*                    per distinct token                                   *)
(* remove(id, text)   forgets the length and drops the id's entries from   *)
(*                    the posting lists of the tokens OF THE GIVEN TEXT;   *)
(*                    when what it dropped does not add up to the recorded *)
(*                    length (the text was not the original one) the id is *)
(*                    remembered as stale, and the next insert of that id  *)
(*                    first sweeps every posting list for it (Sweep=TRUE;  *)
(*                    Sweep = FALSE is the behaviour before the fix)       *)
(* purge_ids(S)       forgets the lengths and sweeps every posting list    *)
(*                                                                         *)
(* Boolean queries are tagged tuples: <<"term", <<t1, ..>>>> (a multi-word *)
(* term is the OR of its words), <<"and", qs>>, <<"or", qs>>, <<"not", q>>.*)
(***************************************************************************)
EXTENDS Naturals, Integers, FiniteSets, Sequences, FiniteSetsExt

CONSTANTS Tok, Ids, Sweep

NoText == [t \in Tok |-> 0]
Sum(f, S) == FoldSet(LAMBDA x, acc : acc + f[x], 0, S)
BagLen(bag) == Sum(bag, Tok)
EntriesOf(id, bag) == {<<t, id, bag[t]>> : t \in {u \in Tok : bag[u] > 0}}

VARIABLES dt, post, cur, stale
bvars == <<dt, post, cur, stale>>

Init == dt = [i \in Ids |-> 0] /\ post = {} /\ cur = [i \in Ids |-> NoText] /\ stale = {}

Present(i) == dt[i] # 0

InsertRet(id, bag) == IF BagLen(bag) = 0 THEN -2 ELSE IF Present(id) THEN -1 ELSE 0
Insert(id, bag) ==
  IF InsertRet(id, bag) # 0 THEN UNCHANGED bvars
  ELSE /\ dt' = [dt EXCEPT ![id] = BagLen(bag)]
       /\ post' = (IF Sweep /\ id \in stale THEN {e \in post : e[2] # id} ELSE post) \cup EntriesOf(id, bag)
       /\ stale' = stale \ {id}
       /\ cur' = [cur EXCEPT ![id] = bag]

Remove(id, bag) ==
  LET hit == {e \in post : e[2] = id /\ bag[e[1]] > 0}
      dropped == FoldSet(LAMBDA e, acc : acc + e[3], 0, hit)
      mismatch == Present(id) /\ dropped # dt[id]
  IN /\ dt' = [dt EXCEPT ![id] = 0]
     /\ post' = post \ hit
     /\ stale' = IF mismatch THEN stale \cup {id} ELSE stale
     /\ cur' = [cur EXCEPT ![id] = NoText]

Purge(S) ==
  /\ dt' = [i \in Ids |-> IF i \in S THEN 0 ELSE dt[i]]
  /\ post' = {e \in post : e[2] \notin S}
  /\ cur' = [i \in Ids |-> IF i \in S THEN NoText ELSE cur[i]]
  /\ UNCHANGED stale

---------------------------------------------------------------------------
(* what searches see *)
VisibleOf(p, d, t) == {e[2] : e \in {x \in p : x[1] = t /\ d[x[2]] # 0}}
Visible(t) == VisibleOf(post, dt, t)
Docs == {i \in Ids : Present(i)}

RECURSIVE SemOf(_, _, _)
SemOf(q, vis, docs) ==
  CASE q[1] = "term" -> UNION {IF q[2][j] \in DOMAIN vis THEN vis[q[2][j]] ELSE {} : j \in 1..Len(q[2])}
    [] q[1] = "and"  -> IF q[2] = <<>> THEN {} ELSE {i \in docs : \A j \in 1..Len(q[2]) : i \in SemOf(q[2][j], vis, docs)}
    [] q[1] = "or"   -> UNION {SemOf(q[2][j], vis, docs) : j \in 1..Len(q[2])}
    [] q[1] = "not"  -> docs \ SemOf(q[2], vis, docs)
Sem(q) == SemOf(q, [t \in Tok |-> Visible(t)], Docs)

---------------------------------------------------------------------------
(* C11 *)
\* a term query returns exactly the indexed documents containing the term
Exact == \A t \in Tok : Visible(t) = {i \in Docs : cur[i][t] > 0}
\* every score input is right: the recorded length is the length of the current text
LenExact == \A i \in Ids : dt[i] = BagLen(cur[i])
\* the term frequency an indexed document is scored with is the one of its current text
TfExact == \A e \in post : Present(e[2]) => cur[e[2]][e[1]] = e[3]

(* ranking laws on an observed result list  res = << <<id, score_bits>>, .. >>  (score_bits: the IEEE-754 *)
(* bits of a non-negative finite f32, which order like the floats; -1 encodes NaN / negative / infinite)  *)
RankOK(res) ==
  /\ \A j \in 1..Len(res) : res[j][2] >= 0
  /\ \A j \in 1..(Len(res) - 1) :
       res[j][2] > res[j + 1][2] \/ (res[j][2] = res[j + 1][2] /\ res[j][1] < res[j + 1][1])
IdsOf(res) == {res[j][1] : j \in 1..Len(res)}
IsPrefix(s, t) == Len(s) <= Len(t) /\ SubSeq(t, 1, Len(s)) = s
=============================================================================
