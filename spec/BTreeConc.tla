----------------------------- MODULE BTreeConc -----------------------------
(***************************************************************************)
(* C10 (threads) / C04 (uniqueness under contention): BTreeIndex::insert,  *)
(* ::remove and ::compact_buckets at the grain of the lock scopes between  *)
(* the instrumented yield points (rs/anda_db_btree/src/btree.rs, feature   *)
(* `verif`).  Each action is what one thread does between two consecutive  *)
(* yield points; TLC interleaves the threads at exactly those points.      *)
(*                                                                         *)
(*   insert(id,k) : [gate.read] ensure current bucket | posting entry      *)
(*                  (create or append; uniqueness decided HERE, under the  *)
(*                  entry lock) | btree key (re-check posting) | bucket    *)
(*                  accounting (fits, or migrate to a fresh bucket) |      *)
(*                  destination bucket                                     *)
(*   remove(id,k) : [gate.read] posting (drop id) | remove entry if STILL  *)
(*                  empty + btree key if posting absent | bucket: dirty,   *)
(*                  un-list the key unless it is live again in that bucket *)
(*   compact      : [gate.write = no mutation in progress] atomic re-bin   *)
(*                                                                         *)
(* A flush serializes, for each bucket, the keys it LISTS whose posting    *)
(* names that bucket as owner; Serialized(b) below.                        *)
(***************************************************************************)
EXTENDS Naturals, Integers, FiniteSets, Sequences

CONSTANTS Keys, Ids, Threads, MaxB, Uniq

Buckets == 0..MaxB
NoPost == [b |-> -1, ids |-> {}]
Empty == [k \in Keys |-> {}]

VARIABLES
  has,      \* keys with a posting entry
  post,     \* [Keys -> [b, ids]]
  bt,       \* the ordered key set
  lst,      \* [Buckets -> SUBSET Keys] keys listed by a bucket
  bex,      \* buckets that exist
  dirty,    \* dirty buckets
  maxb,     \* current bucket id
  pc,       \* [Threads -> record]  what the thread is in the middle of
  durable   \* [Buckets -> [Keys -> SUBSET Ids]] what the last flush wrote (fixed during a run)

cvars == <<has, post, bt, lst, bex, dirty, maxb, pc, durable>>

Idle == [st |-> "idle"]
InMutation == {t \in Threads : pc[t].st # "idle"}

Serialized(b) == [k \in Keys |-> IF b \in bex /\ k \in lst[b] /\ k \in has /\ post[k].b = b THEN post[k].ids ELSE {}]
Content == [k \in Keys |-> IF k \in has THEN post[k].ids ELSE {}]

---------------------------------------------------------------------------
(* insert *)
InsStart(t, id, k) ==
  /\ pc[t].st = "idle"
  /\ bex' = bex \cup {maxb}
  /\ pc' = [pc EXCEPT ![t] = [st |-> "ins.entry", id |-> id, k |-> k]]
  /\ UNCHANGED <<has, post, bt, lst, dirty, maxb, durable>>

\* the posting entry, under its shard lock: uniqueness is decided here
InsPosting(t) ==
  /\ pc[t].st = "ins.entry"
  /\ LET id == pc[t].id k == pc[t].k IN
     IF k \in has /\ Uniq /\ id \notin post[k].ids
     THEN \* AlreadyExists: the call returns without touching anything
          /\ pc' = [pc EXCEPT ![t] = [st |-> "ret", ret |-> -1]]
          /\ UNCHANGED <<has, post>>
     ELSE IF k \in has
     THEN /\ post' = [post EXCEPT ![k].ids = @ \cup {id}]
          /\ pc' = [pc EXCEPT ![t] = [st |-> "ins.posting", id |-> id, k |-> k, new |-> FALSE,
                                      inc |-> id \notin post[k].ids, target |-> post[k].b, newb |-> 0]]
          /\ UNCHANGED has
     ELSE /\ post' = [post EXCEPT ![k] = [b |-> maxb, ids |-> {id}]]
          /\ has' = has \cup {k}
          /\ pc' = [pc EXCEPT ![t] = [st |-> "ins.posting", id |-> id, k |-> k, new |-> TRUE,
                                      inc |-> TRUE, target |-> maxb, newb |-> 0]]
  /\ UNCHANGED <<bt, lst, bex, dirty, maxb, durable>>

\* the ordered key set, re-checking the posting inside the btree lock (phantom-key guard)
InsBtree(t) ==
  /\ pc[t].st = "ins.posting"
  /\ bt' = IF pc[t].new /\ pc[t].k \in has THEN bt \cup {pc[t].k} ELSE bt
  /\ pc' = [pc EXCEPT ![t].st = "ins.btree"]
  /\ UNCHANGED <<has, post, lst, bex, dirty, maxb, durable>>

\* bucket accounting under the bucket's entry lock: the key stays (fits) or migrates to a fresh bucket
InsBucket(t, migrate) ==
  /\ pc[t].st = "ins.btree"
  /\ LET k == pc[t].k b == pc[t].target IN
     IF ~pc[t].inc
     THEN /\ ~migrate /\ pc' = [pc EXCEPT ![t].st = "ins.bucket"]
          /\ UNCHANGED <<post, lst, bex, dirty, maxb>>
     ELSE IF ~migrate \/ b \notin bex \/ lst[b] = {}
     THEN /\ ~migrate
          /\ bex' = bex \cup {b} /\ dirty' = dirty \cup {b}
          /\ lst' = [lst EXCEPT ![b] = @ \cup {k}]
          /\ pc' = [pc EXCEPT ![t].st = "ins.bucket"]
          /\ UNCHANGED <<post, maxb>>
     ELSE /\ maxb < MaxB
          /\ maxb' = maxb + 1
          /\ IF k \in has
             THEN /\ post' = [post EXCEPT ![k].b = maxb + 1]
                  /\ pc' = [pc EXCEPT ![t].st = "ins.bucket", ![t].newb = maxb + 1]
             ELSE /\ UNCHANGED post
                  /\ pc' = [pc EXCEPT ![t].st = "ins.bucket"]
          /\ lst' = [lst EXCEPT ![b] = @ \ {k}]
          /\ dirty' = IF k \in lst[b] THEN dirty \cup {b} ELSE dirty
          /\ UNCHANGED bex
  /\ UNCHANGED <<has, bt, durable>>

InsEnd(t) ==
  /\ pc[t].st = "ins.bucket"
  /\ LET nb == pc[t].newb IN
     IF nb > 0
     THEN /\ bex' = bex \cup {nb} /\ dirty' = dirty \cup {nb}
          /\ lst' = [lst EXCEPT ![nb] = @ \cup {pc[t].k}]
     ELSE UNCHANGED <<bex, dirty, lst>>
  /\ pc' = [pc EXCEPT ![t] = [st |-> "ret", ret |-> IF pc[t].inc THEN 1 ELSE 0]]
  /\ UNCHANGED <<has, post, bt, maxb, durable>>

---------------------------------------------------------------------------
(* remove *)
RemPosting(t, id, k) ==
  /\ pc[t].st = "idle"
  /\ IF k \in has /\ id \in post[k].ids
     THEN /\ post' = [post EXCEPT ![k].ids = @ \ {id}]
          /\ pc' = [pc EXCEPT ![t] = [st |-> "rem.posting", id |-> id, k |-> k, removed |-> TRUE,
                                      empty |-> post[k].ids = {id}, bid |-> post[k].b, gone |-> FALSE]]
     ELSE /\ UNCHANGED post
          /\ pc' = [pc EXCEPT ![t] = [st |-> "rem.posting", id |-> id, k |-> k, removed |-> FALSE,
                                      empty |-> FALSE, bid |-> 0, gone |-> FALSE]]
  /\ UNCHANGED <<has, bt, lst, bex, dirty, maxb, durable>>

\* nothing removed: the call returns false
RemNothing(t) ==
  /\ pc[t].st = "rem.posting" /\ ~pc[t].removed
  /\ pc' = [pc EXCEPT ![t] = [st |-> "ret", ret |-> 0]]
  /\ UNCHANGED <<has, post, bt, lst, bex, dirty, maxb, durable>>

\* drop the entry only if it is STILL empty; then the btree key only if the posting is absent
RemEntry(t) ==
  /\ pc[t].st = "rem.posting" /\ pc[t].removed
  /\ LET k == pc[t].k
         gone == pc[t].empty /\ k \in has /\ post[k].ids = {} IN
     /\ has' = IF gone THEN has \ {k} ELSE has
     /\ post' = IF gone THEN [post EXCEPT ![k] = NoPost] ELSE post
     /\ bt' = IF gone THEN bt \ {k} ELSE bt
     /\ pc' = [pc EXCEPT ![t].st = "rem.entry", ![t].gone = gone]
  /\ UNCHANGED <<lst, bex, dirty, maxb, durable>>

\* bucket: dirty; un-list the key unless it is live again IN THIS bucket
RemBucket(t) ==
  /\ pc[t].st = "rem.entry"
  /\ LET k == pc[t].k b == pc[t].bid IN
     IF b \in bex
     THEN /\ dirty' = dirty \cup {b}
          /\ lst' = IF pc[t].gone /\ (k \notin has \/ post[k].b # b) THEN [lst EXCEPT ![b] = @ \ {k}] ELSE lst
     ELSE UNCHANGED <<dirty, lst>>
  /\ pc' = [pc EXCEPT ![t] = [st |-> "ret", ret |-> 1]]
  /\ UNCHANGED <<has, post, bt, bex, maxb, durable>>

---------------------------------------------------------------------------
(* compact_buckets: exclusive gate = no mutation is in progress; atomic.  `h` assigns every key a bin. *)
Compact(t, nb, h) ==
  /\ pc[t].st = "idle" /\ InMutation = {}
  /\ IF Cardinality(bex) <= 1
     THEN UNCHANGED <<post, lst, bex, dirty, maxb>>
     ELSE IF has = {}
     THEN /\ bex' = {0} /\ dirty' = {0} /\ maxb' = 0
          /\ lst' = [b \in Buckets |-> {}]
          /\ UNCHANGED post
     ELSE /\ nb \in 1..Cardinality(has) /\ nb - 1 <= MaxB
          /\ h \in [has -> 0..(nb - 1)] /\ \A b \in 0..(nb - 1) : \E k \in has : h[k] = b
          /\ post' = [k \in Keys |-> IF k \in has THEN [post[k] EXCEPT !.b = h[k]] ELSE post[k]]
          /\ bex' = 0..(nb - 1) /\ dirty' = 0..(nb - 1) /\ maxb' = nb - 1
          /\ lst' = [b \in Buckets |-> {k \in has : h[k] = b}]
  /\ pc' = [pc EXCEPT ![t] = [st |-> "ret", ret |-> 0]]
  /\ UNCHANGED <<has, bt, durable>>

Return(t) ==
  /\ pc[t].st = "ret"
  /\ pc' = [pc EXCEPT ![t] = Idle]
  /\ UNCHANGED <<has, post, bt, lst, bex, dirty, maxb, durable>>

---------------------------------------------------------------------------
(* C10 / C04, in every state where no call is in progress *)
Quiescent == \A t \in Threads : pc[t].st = "idle"

\* every key with a posting is listed by its owner: the next flush serializes it
OwnerLists == Quiescent => \A k \in has : post[k].b \in bex /\ k \in lst[post[k].b]
\* no phantom and no missing key in the ordered key set; no ghost (empty) posting
BtreeMatches == Quiescent => bt = has /\ \A k \in has : post[k].ids # {}
\* whatever differs from the last flush is dirty (or its bucket is gone and leaves the manifest)
DirtyCovers == Quiescent => \A b \in Buckets : Serialized(b) # durable[b] => b \in dirty \/ b \notin bex
\* flush + reload would give back exactly the in-memory content
FlushExact == Quiescent => \A k \in Keys : Content[k] = UNION {Serialized(b)[k] : b \in Buckets}
\* a unique index never lists two ids under one key - at any moment
UniqueHolds == Uniq => \A k \in has : Cardinality(post[k].ids) <= 1
=============================================================================
