----------------------------- MODULE BTreeTrace -----------------------------
(***************************************************************************)
(* C10: trace validation of the real BTreeIndex (harness/src/bin/           *)
(* drive_btree.rs) against                                                   *)
(*   - the ordered-multimap semantics of every mutation (insert, remove,    *)
(*     insert_array, remove_array, batch_update, compact_buckets), incl.    *)
(*     uniqueness and the returned counts, and                              *)
(*   - Manifest.tla: every call must satisfy MutationOK (each bucket whose  *)
(*     content changed is dirty afterwards), every flush callback must be   *)
(*     the next step of the manifest commit protocol (fresh objects, commit *)
(*     of exactly the snapshot, obsolete objects unreferenced), and a cold  *)
(*     load after EVERY durable write - bucket object, manifest commit,     *)
(*     obsolete deletion - and after every crash must return Loaded, which  *)
(*     the invariant LoadIsCommitted pins to the last committed snapshot.   *)
(* The layout (owner bucket of a key, dirty flags, listed keys, in-memory   *)
(* manifest, version) is logged after each call through the `verif` hook.   *)
(***************************************************************************)
EXTENDS Manifest, Integers, Sequences, Json, IOUtils, TLC, TLCExt

Rec == ndJsonDeserialize(IOEnv.TRACE)
SeqToSet(s) == {s[j] : j \in 1..Len(s)}
Hdr == Rec[1]

TrKeys == 1..Hdr.nk
TrIds == 1..Hdr.ni
TrBuckets == 0..Hdr.maxb
TrMaxVersion == Hdr.maxgen + 2
\* a pre-manifest (legacy) bucket object has generation 0 in the code; 0 means "not in the manifest" here, so
\* legacy objects live in the top generation slot
Leg == TrMaxVersion
G(g) == IF g = 0 THEN Leg ELSE g

VARIABLES l, dup
tvars == <<mvars, l, dup>>
Ev == Rec[l]
IsEv(e) == l <= Len(Rec) /\ Ev.e = e /\ l' = l + 1

---------------------------------------------------------------------------
(* observed layout -> specification variables *)
ObsPost(st) == [k \in Keys |-> SeqToSet(st.post[k])]
ObsHome(st) == [k \in Keys |-> st.home[k]]
ObsDirty(st) == SeqToSet(st.dirty)
ManOf(m) == [b \in Buckets |-> IF \E j \in 1..Len(m) : m[j][1] = b
                               THEN G(m[CHOOSE j \in 1..Len(m) : m[j][1] = b][2]) ELSE 0]
\* every key with a posting is listed by the bucket that owns it (a flush serializes listed keys only)
OwnerLists(st) ==
  \A k \in Keys : st.post[k] # <<>> =>
     \E j \in 1..Len(st.lst) : st.lst[j][1] = st.home[k] /\ k \in SeqToSet(st.lst[j][2])

---------------------------------------------------------------------------
(* ordered-multimap semantics of one call: [post, ret] *)
Conflict(p, id, ks) == ~dup /\ \E k \in ks : p[k] # {} /\ id \notin p[k]
Add(p, id, ks) == [k \in Keys |-> IF k \in ks THEN p[k] \cup {id} ELSE p[k]]
Del(p, id, ks) == [k \in Keys |-> IF k \in ks THEN p[k] \ {id} ELSE p[k]]
Card(S) == Cardinality(S)

Model(ev) ==
  CASE ev.op = "insert" ->
         IF Conflict(post, ev.id, {ev.k}) THEN [post |-> post, ret |-> -1]
         ELSE [post |-> Add(post, ev.id, {ev.k}), ret |-> IF ev.id \in post[ev.k] THEN 0 ELSE 1]
    [] ev.op = "remove" ->
         [post |-> Del(post, ev.id, {ev.k}), ret |-> IF ev.id \in post[ev.k] THEN 1 ELSE 0]
    [] ev.op = "insert_array" ->
         LET ks == SeqToSet(ev.ks) IN
         IF Conflict(post, ev.id, ks) THEN [post |-> post, ret |-> -1]
         ELSE [post |-> Add(post, ev.id, ks), ret |-> Card({k \in ks : ev.id \notin post[k]})]
    [] ev.op = "remove_array" ->
         LET ks == SeqToSet(ev.ks) IN
         [post |-> Del(post, ev.id, ks), ret |-> Card({k \in ks : ev.id \in post[k]})]
    [] ev.op = "batch_update" ->
         LET old == SeqToSet(ev.old) new == SeqToSet(ev.new)
             ins == new \ old  del == old \ new IN
         IF Conflict(post, ev.id, ins) THEN [post |-> post, ret |-> -1]
         ELSE LET p1 == Add(post, ev.id, ins) IN
              [post |-> Del(p1, ev.id, del),
               \* ret = removed * 100 + inserted
               ret |-> 100 * Card({k \in del : ev.id \in p1[k]}) + Card({k \in ins : ev.id \notin post[k]})]
    [] ev.op = "compact" -> [post |-> post, ret |-> 0]

TrReset ==
  /\ IsEv("reset")
  /\ post' = Empty /\ home' = [k \in Keys |-> -1] /\ dirty' = {} /\ version' = 1
  /\ mMan' = [b \in Buckets |-> 0] /\ dMan' = [b \in Buckets |-> 0]
  /\ obj' = [p \in Buckets \X Gens |-> Absent]
  /\ fl' = NoFlush /\ saved' = 0 /\ dVer' = 0 /\ committed' = Empty
  /\ dup' = ~Ev.uniq

TrOp ==
  /\ IsEv("op") /\ fl.st = "idle"
  /\ LET m == Model(Ev) st == Ev.st IN
     /\ Ev.ret = m.ret
     /\ post' = m.post
     /\ ObsPost(st) = m.post                       \* what point queries + key listing return now
     /\ SeqToSet(st.keys) = {k \in Keys : m.post[k] # {}}
     /\ \A j \in 1..(Len(st.keys) - 1) : st.keys[j] < st.keys[j + 1]
     /\ home' = ObsHome(st) /\ dirty' = ObsDirty(st) /\ version' = st.ver
     /\ OwnerLists(st)
     /\ ManOf(st.man) = mMan
     /\ IF m.post = post /\ Ev.op # "compact"
        THEN UNCHANGED <<mMan, obj, dMan, saved, dVer, committed>> /\ dirty \subseteq dirty' /\ version' >= version
             /\ \A b \in Buckets : Content(b)' # Content(b) => b \in dirty'
        ELSE MutationOK \/ (Ev.op = "compact" /\ home' = home /\ dirty' = dirty /\ version' = version
                             /\ UNCHANGED <<mMan, obj, dMan, saved, dVer, committed>>)
  /\ UNCHANGED <<fl, dup>>

\* flush: the snapshot (generation and the buckets that leave the manifest are known once the call returned;
\* the driver back-fills this event in front of the callbacks)
TrSnap ==
  /\ IsEv("snap")
  /\ FlushSnapshot(SeqToSet(Ev.drop))
  /\ fl'.gen = Ev.g
  /\ UNCHANGED dup

TrWrite ==
  /\ IsEv("write")
  /\ WriteBucket(Ev.b)
  /\ fl.gen = Ev.g
  \* the bytes handed to the callback decode to exactly the snapshot content of that bucket
  /\ [k \in Keys |-> SeqToSet(Ev.content[k])] = fl.snap[Ev.b]
  /\ UNCHANGED dup

TrCommit ==
  /\ IsEv("commit")
  /\ CommitManifest
  /\ ManOf(Ev.man) = fl.man                        \* the committed manifest is the snapshot's
  /\ UNCHANGED dup

\* the call returned Ok(saved = true): published in memory, obsolete list reported
TrFret ==
  /\ IsEv("fret")
  /\ Publish
  /\ {<<Ev.obsolete[j][1], G(Ev.obsolete[j][2])>> : j \in 1..Len(Ev.obsolete)} = fl.obsolete
  /\ dirty' = ObsDirty(Ev.st) /\ ManOf(Ev.st.man) = mMan' /\ Ev.st.ver = version
  /\ UNCHANGED dup

TrDelete == IsEv("delete") /\ DeleteObsolete(<<Ev.b, G(Ev.g)>>) /\ UNCHANGED dup
TrFend == IsEv("fend") /\ FlushEnd /\ UNCHANGED dup
\* Ok(saved = false): nothing was dirty and no metadata was pending
TrFnoop == IsEv("fnoop") /\ fl.st = "idle" /\ dirty = {} /\ version = saved /\ UNCHANGED <<mvars, dup>>
\* a callback failed: Err, nothing committed, everything still dirty
TrFfail ==
  /\ IsEv("ffail") /\ FlushFail
  /\ ObsDirty(Ev.st) = dirty /\ ManOf(Ev.st.man) = mMan /\ Ev.st.ver = version
  /\ UNCHANGED dup

\* a cold load of whatever the backend holds right now
TrLoad ==
  /\ IsEv("load")
  /\ Ev.ok
  /\ ObsPost(Ev.st) = Loaded
  /\ SeqToSet(Ev.st.keys) = {k \in Keys : Loaded[k] # {}}
  /\ UNCHANGED <<mvars, dup>>

\* the live index is dropped at this point and replaced by a cold load
TrCrash ==
  /\ IsEv("crash")
  /\ post' = Loaded /\ ObsPost(Ev.st) = Loaded
  /\ home' = ObsHome(Ev.st) /\ dirty' = ObsDirty(Ev.st)
  /\ OwnerLists(Ev.st)
  /\ mMan' = dMan /\ ManOf(Ev.st.man) = dMan
  \* nothing committed yet: the application starts over with a new index (version 1)
  /\ version' = (IF dVer = 0 THEN 1 ELSE dVer) /\ saved' = dVer /\ Ev.st.ver = version'
  /\ fl' = NoFlush
  /\ UNCHANGED <<obj, dMan, dVer, committed, dup>>

\* the durable state is rewritten as a pre-manifest release left it (un-suffixed bucket objects, metadata without a
\* manifest) and the index restarts from it: same content; the in-memory manifest records the legacy objects
TrLegacy ==
  /\ IsEv("legacy") /\ fl.st = "idle"
  /\ obj' = [p \in Buckets \X Gens |-> IF p[2] = Leg /\ dMan[p[1]] # 0 THEN obj[<<p[1], dMan[p[1]]>>] ELSE Absent]
  /\ dMan' = [b \in Buckets |-> IF dMan[b] # 0 THEN Leg ELSE 0]
  /\ mMan' = dMan' /\ ManOf(Ev.st.man) = dMan'
  /\ post' = Loaded /\ ObsPost(Ev.st) = Loaded
  /\ home' = ObsHome(Ev.st) /\ dirty' = ObsDirty(Ev.st) /\ OwnerLists(Ev.st)
  /\ version' = dVer /\ saved' = dVer /\ Ev.st.ver = dVer
  /\ UNCHANGED <<fl, dVer, committed, dup>>

TraceInit == Init /\ l = 2 /\ dup = TRUE
TraceNext == TrReset \/ TrOp \/ TrSnap \/ TrWrite \/ TrCommit \/ TrFret \/ TrDelete \/ TrFend
             \/ TrFnoop \/ TrFfail \/ TrLoad \/ TrCrash \/ TrLegacy
TraceSpec == TraceInit /\ [][TraceNext]_tvars

TraceAccepted ==
  LET d == TLCGet("stats").diameter IN
  IF d = Len(Rec) THEN TRUE
  ELSE /\ PrintT(<<"TRACE_REJECTED", d + 1, ToJson(Rec[d + 1])>>)
       /\ FALSE
=============================================================================
